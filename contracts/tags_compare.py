"""C16: widening never loses wheels; EnvSpec.compare is consistent with tag inclusion.
(i)  two-copy execution of _evaluate_python: requires_python(A) subset of requires_python(B)  =>  acceptance by A implies acceptance by B;
(ii) nestedness of the C09 rules for a newer release of the same OS/architecture (lemma over the proved rules);
(iii) compare(): symbolic execution of the real body over the platform-shape table."""
from __future__ import annotations

import z3

from pyvc.theories.tags import FmtDT
from pyvc.values import Obj, fresh_name

from . import tags_platform as TP
from . import tags_python as PY

QC = "dep_logic.tags.tags:EnvSpec.compare"


def widen_cases(th, pairs):
    ix = th.index
    E, I = ix.cls("EnvSpec"), ix.cls("Implementation")
    f = ix.func(PY.Q)
    for impl, gil in PY.IMPLS:
        for t, a in pairs:
            A, B = th.fresh_rp("rpA"), th.fresh_rp("rpB")
            p = z3.Real(fresh_name("p"))
            sub = z3.ForAll([p], z3.Implies(A.term.pred(p), B.term.pred(p)))
            mk = lambda rp: Obj(E, {"requires_python": rp, "platform": None, "implementation": None if impl is None else Obj(I, {"name": impl, "gil_disabled": gil})})
            sa, sb = mk(A), mk(B)

            def thunk(ex, sa=sa, sb=sb, t=t, a=a):
                ra = ex.call_function(f, [sa, t, a])
                rb = ex.call_function(f, [sb, t, a])
                return (ra, rb)
            yield {"name": f"{impl}-{gil}-{t}-{a}", "pre": [sub], "thunk": thunk,
                   "post": (lambda ex, v: [("C16.widen-python", z3.BoolVal(v[0] is None or v[1] is not None))]),
                   "describe": (lambda m, args, result=None, impl=impl, gil=gil, t=t, a=a: {"implementation": impl, "gil_disabled": gil, "python_tag": t, "abi_tag": a})}


def nested_rule_cases():
    """rule(A) implies rule(B) for B a newer release of the same OS and architecture (on the stated grid: same major for
    manylinux/musllinux, macOS 10.x minors <= 16)"""
    t = z3.Const("t!nest", FmtDT)
    for a in TP.ARCHS.values():
        mj, m1, m2 = z3.Ints("mj m1 m2")
        ra, rb = TP.Manylinux(a, mj, m1), TP.Manylinux(a, mj, m2)
        yield f"manylinux-{a}", [m1 <= m2], z3.Implies(ra.rule(t), rb.rule(t))
        ua, ub = TP.Musllinux(a, mj, m1), TP.Musllinux(a, mj, m2)
        yield f"musllinux-{a}", [m1 <= m2], z3.Implies(ua.rule(t), ub.rule(t))
    m1, m2, M1, M2, n1, n2 = z3.Ints("m1 m2 M1 M2 n1 n2")
    x10a, x10b = TP.Mac("x86_64", 10, m1), TP.Mac("x86_64", 10, m2)
    yield "macos10-x86_64", [m1 <= m2], z3.Implies(x10a.final_rule(t), x10b.final_rule(t))
    for arch in ("x86_64", "aarch64"):
        ka, kb = TP.Mac(arch, M1, n1), TP.Mac(arch, M2, n2)
        yield f"macos11+-{arch}", [M1 >= 11, M2 >= 11, z3.Or(M1 < M2, z3.And(M1 == M2, n1 <= n2))], z3.Implies(ka.final_rule(t), kb.final_rule(t))
    kb = TP.Mac("x86_64", M2, n2)
    yield "macos10-to-11+-x86_64", [m1 <= 16, M2 >= 11], z3.Implies(x10a.final_rule(t), kb.final_rule(t))


OS_SHAPES = ["Manylinux", "Musllinux", "Macos", "Windows", "Generic", "FreeBsd"]


def compare_cases(th):
    ix = th.index
    E, P, I, A = ix.cls("EnvSpec"), ix.cls("Platform"), ix.cls("Implementation"), ix.cls("Arch")
    f = ix.func(QC)

    def mk_os(shape, tag):
        c = ix.cls(shape)
        if shape in ("Manylinux", "Musllinux", "Macos"):
            return Obj(c, {"major": z3.Int(fresh_name(tag + "_major")), "minor": z3.Int(fresh_name(tag + "_minor"))})
        if shape == "Windows":
            return Obj(c, {})
        if shape == "Generic":
            return Obj(c, {"name": z3.String(fresh_name(tag + "_name"))})
        return Obj(c, {"release": z3.String(fresh_name(tag + "_rel"))})

    def mk_spec(tag, shape, impl_kind):
        rp = th.fresh_rp(tag + "_rp")
        plat = None
        if shape is not None:
            plat = Obj(P, {"os": mk_os(shape, tag), "arch": Obj(A, {"_name_": z3.String(fresh_name(tag + "_arch")), "value": None})})
        impl = None
        if impl_kind:
            impl = Obj(I, {"name": z3.String(fresh_name(tag + "_impl")), "gil_disabled": z3.Bool(fresh_name(tag + "_gil"))})
        return Obj(E, {"requires_python": rp, "platform": plat, "implementation": impl})
    shapes = [None] + OS_SHAPES
    for sa in shapes:
        for sb in shapes:
            for ia in (False, True):
                for ib in (False, True):
                    x, y = mk_spec("a", sa, ia), mk_spec("b", sb, ib)
                    rx, ry = x.fields["requires_python"], y.fields["requires_python"]
                    # C13 facts about == on the abstract requires_python objects (equivalence, same set)
                    p = z3.Real(fresh_name("p"))
                    pre = [th.spec_equal(rx, ry) == th.spec_equal(ry, rx),
                           z3.Implies(th.spec_equal(rx, ry), z3.ForAll([p], rx.term.pred(p) == ry.term.pred(p)))]

                    def thunk(ex, x=x, y=y):
                        return (ex.call_function(f, [x, y]), ex.call_function(f, [y, x]))

                    def post(ex, v, x=x, y=y, sa=sa, sb=sb):
                        rxy, ryx = v
                        nm = lambda r: r.fields["_name_"] if isinstance(r, Obj) else None
                        a, b2 = nm(rxy), nm(ryx)
                        cl = [("C16.compare.incompatible-symmetric", z3.BoolVal((a == "INCOMPATIBLE") == (b2 == "INCOMPATIBLE"))),
                              ("C16.compare.never-higher-both-ways", z3.BoolVal(not (a == "HIGHER" and b2 == "HIGHER")))]
                        # LOWER_OR_EQUAL / HIGHER with platforms => same OS class and architecture and ordered releases, which is the
                        # hypothesis of the nestedness lemma (ii)
                        if sa is not None and sb is not None and a in ("LOWER_OR_EQUAL", "HIGHER"):
                            px, py = x.fields["platform"], y.fields["platform"]
                            same = z3.And(z3.BoolVal(sa == sb), px.fields["arch"].fields["_name_"] == py.fields["arch"].fields["_name_"])
                            cl.append(("C16.compare.same-os-and-arch", same))
                            if sa == sb and sa in ("Manylinux", "Musllinux", "Macos"):
                                ox, oy = px.fields["os"].fields, py.fields["os"].fields
                                le = z3.Or(ox["major"] < oy["major"], z3.And(ox["major"] == oy["major"], ox["minor"] <= oy["minor"]))
                                ge = z3.Or(oy["major"] < ox["major"], z3.And(ox["major"] == oy["major"], oy["minor"] <= ox["minor"]))
                                cl.append(("C16.compare.release-order", le if a == "LOWER_OR_EQUAL" else z3.And(ge, z3.Not(le))))
                        return cl
                    yield {"name": f"{sa}-{sb}-{int(ia)}{int(ib)}", "pre": pre, "thunk": thunk, "post": post}
    # reflexivity: compare(x, x)
    for sa in shapes:
        for ia in (False, True):
            x = mk_spec("a", sa, ia)
            yield {"name": f"reflexive-{sa}-{int(ia)}", "pre": [], "thunk": (lambda ex, x=x: ex.call_function(f, [x, x])),
                   "post": (lambda ex, r: [("C16.compare.reflexive", z3.BoolVal(isinstance(r, Obj) and r.fields.get("_name_") == "LOWER_OR_EQUAL"))])}
