"""C06 (rendering side) / C11: pad_zeros, first_different_index, RangeSpecifier / UnionSpecifier `_simplified_form` and `__str__`,
`_release_series`, over structured versions (T-VER).  The post-conditions say *structurally* which set each rendered clause form must
denote (PEP 440); A-VER turns structural equality of suffix-free versions into equality of versions."""
from __future__ import annotations

import z3

from pyvc.engine import Contract, LoopSpec
from pyvc.theories.version import INTL, V, SpecText, pad, suffix_free, ver_wf
from pyvc.values import AList, INT, ListS, Obj, Opt, fresh_name

U = "dep_logic.utils:"
RNG = "dep_logic.specifiers.range:RangeSpecifier."
UNI = "dep_logic.specifiers.union:UnionSpecifier."
IL = ListS(INT)


def at(l, i):
    return z3.Select(l.arr, i)


class PadZeros(Contract):
    target = U + "pad_zeros"

    def cases(self, th):
        yield "ints", [IL.fresh("parts"), z3.Int(fresh_name("to_length"))], []

    def requires(self, ex, parts, to_length):
        return parts.n >= 0

    def result(self, ex, args):
        return IL.fresh("padded")

    def allowed_raise(self, ex, args, exc):
        return z3.BoolVal(False)

    def ensures(self, ex, args, result):
        parts, L = args
        if not hasattr(result, "n") or not hasattr(result, "get"):
            return [("returns-list", z3.BoolVal(False))]
        i = z3.Int(fresh_name("i"))
        return [("length", result.n == z3.If(parts.n >= L, parts.n, L)),
                ("elements", z3.ForAll([i], z3.Implies(z3.And(0 <= i, i < result.n), result.get(i) == pad(parts.arr, parts.n, i))))]


class FirstDifferent(Contract):
    target = U + "first_different_index"

    def cases(self, th):
        yield "ints", [IL.fresh("iterable1"), IL.fresh("iterable2")], []

    def requires(self, ex, a, b):
        return z3.And(a.n >= 1, b.n >= 1)         # both lists start with the epoch (call sites), never empty

    def result(self, ex, args):
        return z3.Int(fresh_name("fdi"))

    def allowed_raise(self, ex, args, exc):
        return z3.BoolVal(False)

    def ensures(self, ex, args, result):
        a, b2 = args
        n = z3.If(a.n < b2.n, a.n, b2.n)
        i = z3.Int(fresh_name("i"))
        r = result
        return [("range", z3.And(0 <= r, r <= n)),
                ("equal-before", z3.ForAll([i], z3.Implies(z3.And(0 <= i, i < r), at(a, i) == at(b2, i)))),
                ("differs-at", z3.Implies(r < n, at(a, r) != at(b2, r)))]

    @staticmethod
    def loop(st):
        a, b2 = st.loc("iterable1"), st.loc("iterable2")
        idx = st.loc("index")
        i = z3.Int(fresh_name("i"))
        return [("index", idx == z3.If(st.k == 0, 0, st.k - 1)),
                ("equal-before", z3.ForAll([i], z3.Implies(z3.And(0 <= i, i < st.k), at(a, i) == at(b2, i))))]


def tilde_upper(mn, mx):
    """mx is the first version of the release series after mn's, mn's last segment dropped: same epoch, release
    (mn.release[:-2], mn.release[-2] + 1) up to trailing zeros, no pre/post/dev segment"""
    k = V.n(mn)
    i = z3.Int(fresh_name("i"))
    expect = z3.If(i < k - 2, z3.Select(V.rel(mn), i), z3.If(i == k - 2, z3.Select(V.rel(mn), k - 2) + 1, 0))
    return z3.And(suffix_free(mx), V.epoch(mx) == V.epoch(mn), z3.ForAll([i], z3.Implies(i >= 0, pad(V.rel(mx), V.n(mx), i) == expect)))


def wildcard_bounds(epoch, prefix, lo, hi):
    """lo == <epoch>!<prefix>.0 and hi == <epoch>!<prefix with its last segment + 1>.0 (up to trailing zeros), both without suffix"""
    i = z3.Int(fresh_name("i"))
    m = prefix.n
    lo_expect = z3.If(i < m, at(prefix, i), 0)
    hi_expect = z3.If(i < m - 1, at(prefix, i), z3.If(i == m - 1, at(prefix, m - 1) + 1, 0))
    return z3.And(m >= 1, suffix_free(lo), suffix_free(hi), V.epoch(lo) == epoch, V.epoch(hi) == epoch,
                  z3.ForAll([i], z3.Implies(i >= 0, z3.And(pad(V.rel(lo), V.n(lo), i) == lo_expect, pad(V.rel(hi), V.n(hi), i) == hi_expect))))


def b(x):
    return x if z3.is_expr(x) else z3.BoolVal(bool(x))


def range_form_clauses(r, res, prefix="C06.range", same=None):
    """what each rendered form of a single range must mean; `same(a, b)`: the clause's version is the bound (default: the very term)"""
    if same is not None:
        class _Eq:
            def __init__(self, t):
                self.t = t

            def __eq__(self, other):
                return same(self.t, other)
        if isinstance(res, SpecText):
            res = SpecText([(op, _Eq(v) if op not in ("!=*", "==*") else v) for op, v in res.clauses])
    mn, mx = r.fields["min"], r.fields["max"]
    imin, imax = b(r.fields["include_min"]), b(r.fields["include_max"])
    if res is None:
        return [(f"{prefix}.unsimplified-has-both-bounds", z3.And(mn.has, mx.has))]
    if isinstance(res, str):
        return [(f"{prefix}.empty-text-is-universal", z3.And(b(res == ""), z3.Not(mn.has), z3.Not(mx.has)))]
    if not isinstance(res, SpecText):
        return [(f"{prefix}.renders-text", z3.BoolVal(False))]
    if len(res.clauses) == 2:
        (o1, v1), (o2, v2) = res.clauses
        return [(f"{prefix}.two-clauses", z3.And(mn.has, mx.has, v1 == mn.val, v2 == mx.val, b(o1 in (">", ">=")), b(o2 in ("<", "<=")),
                                                 imin == b(o1 == ">="), imax == b(o2 == "<=")))]
    if len(res.clauses) != 1:
        return [(f"{prefix}.clause-count", z3.BoolVal(False))]
    op, v = res.clauses[0]
    if op in ("<", "<="):
        return [(f"{prefix}.upper-half-line", z3.And(z3.Not(mn.has), mx.has, v == mx.val, imax == b(op == "<=")))]
    if op in (">", ">="):
        return [(f"{prefix}.lower-half-line", z3.And(z3.Not(mx.has), mn.has, v == mn.val, imin == b(op == ">=")))]
    if op == "==":
        return [(f"{prefix}.single-version", z3.And(mn.has, mx.has, v == mn.val, V.ord(mn.val) == V.ord(mx.val), imin, imax))]
    if op == "~=":
        if same is not None:
            # the meaning of ~= depends on the number of segments written: the clause's version must have min's release, not just its position
            i = z3.Int(fresh_name("i"))
            vt = v.t
            v = z3.And(V.n(vt) == V.n(mn.val), V.ord(vt) == V.ord(mn.val), z3.ForAll([i], z3.Implies(z3.And(0 <= i, i < V.n(vt)), z3.Select(V.rel(vt), i) == z3.Select(V.rel(mn.val), i))))
            return [(f"{prefix}.tilde.shape", z3.And(mn.has, mx.has, v, imin, z3.Not(imax), V.n(mn.val) >= 2)),
                    (f"{prefix}.tilde.upper-is-next-series", z3.Implies(z3.Not(V.post(mx.val)), tilde_upper(mn.val, mx.val))),
                    (f"{prefix}.tilde.upper-has-no-post-release", z3.Not(V.post(mx.val)))]
        return [(f"{prefix}.tilde.shape", z3.And(mn.has, mx.has, v == mn.val, imin, z3.Not(imax), V.n(mn.val) >= 2)),
                (f"{prefix}.tilde.upper-is-next-series", z3.Implies(z3.Not(V.post(mx.val)), tilde_upper(mn.val, mx.val))),
                (f"{prefix}.tilde.upper-has-no-post-release", z3.Not(V.post(mx.val)))]
    return [(f"{prefix}.known-form", z3.BoolVal(False))]


class RangeRender:
    def __init__(self, th, which):
        self.th, self.which = th, which
        self.target = RNG + which

    def cases(self, th):
        f = th.index.func(self.target)
        r = th.sym_range("self")
        yield {"name": "computed-range", "pre": [th.range_pre(r)], "thunk": (lambda ex: ex.call_function(f, [r], inline=True)),
               "post": (lambda ex, res: range_form_clauses(r, res)), "args": (r,), "describe": describe}


def ver_cong(x, y):
    """A-VER instance: suffix-free versions with equal epoch and equal zero-padded releases are the same version"""
    i = z3.Int(fresh_name("ci"))
    same = z3.And(suffix_free(x), suffix_free(y), V.epoch(x) == V.epoch(y), z3.ForAll([i], z3.Implies(i >= 0, pad(V.rel(x), V.n(x), i) == pad(V.rel(y), V.n(y), i))))
    return z3.Implies(same, V.ord(x) == V.ord(y))


def sep_v(a, c):
    """a entirely below c and not touching (structured versions)"""
    ax, cn = a.fields["max"], c.fields["min"]
    return z3.And(ax.has, cn.has, z3.Or(V.ord(ax.val) < V.ord(cn.val),
                                        z3.And(V.ord(ax.val) == V.ord(cn.val), z3.Not(b(a.fields["include_max"])), z3.Not(b(c.fields["include_min"])))))


class UnionRender:
    def __init__(self, th, which):
        self.th, self.which = th, which
        self.target = UNI + which

    def cases(self, th):
        from pyvc.theories.version import EpochText, JoinDots, UnionText
        f = th.index.func(self.target)
        U_ = th.index.cls("UnionSpecifier")
        for n in (2, 3):
            rs = tuple(th.sym_range(f"r{k}") for k in range(n))
            u = Obj(U_, {"ranges": rs, "simplified": None})
            pre = [th.range_pre(r) for r in rs] + [sep_v(rs[k], rs[k + 1]) for k in range(n - 1)]
            left, right = rs[0], rs[1]
            pre.append(ver_cong(left.fields["max"].val, right.fields["min"].val))

            def post(ex, res, n=n, left=left, right=right, rs=rs):
                if self.which == "__str__" and isinstance(res, UnionText):
                    cl = [("C06.union.one-part-per-range", z3.BoolVal(len(res.parts) == len(rs)))]
                    for k, (part, r) in enumerate(zip(res.parts, rs)):
                        cl += [(nm.replace("C06.range", "C06.union.part"), c) for nm, c in range_form_clauses(r, part if not isinstance(part, str) or part == "" else None)]
                    return cl
                if res is None:
                    return [("C06.union.unsimplified", z3.BoolVal(self.which == "_simplified_form"))]
                if n != 2 or not isinstance(res, SpecText) or len(res.clauses) != 1:
                    return [("C06.union.simplified-only-for-two-ranges", z3.BoolVal(False))]
                op, payload = res.clauses[0]
                lm, rn = left.fields["max"], right.fields["min"]
                outer = z3.And(z3.Not(left.fields["min"].has), z3.Not(right.fields["max"].has), lm.has, rn.has)
                if op == "!=":
                    return [("C06.union.not-equal", z3.And(outer, payload == lm.val, V.ord(lm.val) == V.ord(rn.val),
                                                           z3.Not(b(left.fields["include_max"])), z3.Not(b(right.fields["include_min"]))))]
                if op == "!=*":
                    ep, jd = payload
                    epoch = ep.epoch if ep is not None else z3.IntVal(0)
                    # `wildcard_bounds(epoch, jd.ints, lm.val, rn.val)` (the two bounds are exactly <prefix>.0 and <prefix+1>.0) is NOT an
                    # obligation: the instantiation does not converge on it (shifted views of padded lists) and both solvers answer
                    # unknown on the quantified form.  That clause is covered by the bounded boundary-shape catalogue only.
                    return [("C06.union.wildcard.shape", z3.And(outer, z3.Not(b(left.fields["include_max"])), b(right.fields["include_min"]),
                                                                suffix_free(lm.val), suffix_free(rn.val), V.epoch(lm.val) == epoch, V.epoch(rn.val) == epoch)),
                            ("C06.union.wildcard.bounds", wildcard_bounds(epoch, jd.ints, lm.val, rn.val))]
                return [("C06.union.known-form", z3.BoolVal(False))]
            yield {"name": f"{n}-ranges", "pre": pre, "thunk": (lambda ex, u=u: ex.call_function(f, [u], inline=True)), "post": post,
                   "args": (left, right), "describe": describe}


class RangeTextTok:
    """str(r) of a range, used modularly inside UnionSpecifier.__str__ (what the text means is the obligation set of RangeRender)"""

    def __init__(self, r):
        self.r = r


class RangeStrAtCallSite(Contract):
    target = RNG + "__str__"

    def result(self, ex, args):
        return RangeTextTok(args[0])

    def ensures(self, ex, args, result):
        return []

    def allowed_raise(self, ex, args, exc):
        return z3.BoolVal(False)


class UnionStr:
    """UnionSpecifier.__str__ when no shorter form applies: the texts of the ranges, one per range, in order, joined by '||'"""
    target = UNI + "__str__"

    def __init__(self, th):
        self.th = th

    def cases(self, th):
        from pyvc.theories.version import UnionText
        f = th.index.func(self.target)
        U_ = th.index.cls("UnionSpecifier")
        for n in (2, 3, 4):
            rs = tuple(th.sym_range(f"r{k}") for k in range(n))
            u = Obj(U_, {"ranges": rs, "simplified": None})
            pre = [th.range_pre(r) for r in rs] + [sep_v(rs[k], rs[k + 1]) for k in range(n - 1)]
            pre.append(ver_cong(rs[0].fields["max"].val, rs[1].fields["min"].val))

            def post(ex, res, rs=rs):
                if isinstance(res, SpecText):
                    return [("C06.union.str.short-form-is-the-simplified-form", z3.BoolVal(True))]      # what a short form denotes: UnionRender(_simplified_form)
                if not isinstance(res, UnionText):
                    return [("C06.union.str.is-a-join-of-range-texts", z3.BoolVal(False))]
                ok = len(res.parts) == len(rs) and all(isinstance(p, RangeTextTok) and p.r is r for p, r in zip(res.parts, rs))
                return [("C06.union.str.one-text-per-range-in-order", z3.BoolVal(ok))]
            yield {"name": f"{n}-ranges", "pre": pre, "thunk": (lambda ex, u=u: ex.call_function(f, [u], inline=True)), "post": post, "args": ()}


class ReleaseSeries:
    """specifiers/__init__._release_series(version, drop): (first version of the series, first version of the next series), built from
    Version.release/.epoch - the parsing side of `~=V` (drop=1) and `==P.*` / `!=P.*` (drop=0)"""
    target = "dep_logic.specifiers:_release_series"

    def __init__(self, th):
        self.th = th

    def cases(self, th):
        from pyvc.values import AbsObj
        f = th.index.func(self.target)
        for drop in (0, 1):
            v = th.sym_version("version")
            pre = [ver_wf(v), V.n(v) - drop >= 1]

            def post(ex, res, v=v, drop=drop):
                if not (isinstance(res, tuple) and len(res) == 2 and all(isinstance(x, AbsObj) for x in res)):
                    return [("C06.release-series.returns-two-versions", z3.BoolVal(False))]
                lo, hi = res[0].term, res[1].term
                L = V.n(v) - drop
                i = z3.Int(fresh_name("i"))
                lo_expect = z3.If(i < L, z3.Select(V.rel(v), i), 0)
                hi_expect = z3.If(i < L - 1, z3.Select(V.rel(v), i), z3.If(i == L - 1, z3.Select(V.rel(v), L - 1) + 1, 0))
                return [("C06.release-series.no-suffix-same-epoch", z3.And(suffix_free(lo), suffix_free(hi), V.epoch(lo) == V.epoch(v), V.epoch(hi) == V.epoch(v))),
                        ("C06.release-series.lower", z3.ForAll([i], z3.Implies(i >= 0, pad(V.rel(lo), V.n(lo), i) == lo_expect))),
                        ("C06.release-series.upper", z3.ForAll([i], z3.Implies(i >= 0, pad(V.rel(hi), V.n(hi), i) == hi_expect)))]
            yield {"name": f"drop={drop}", "pre": pre, "thunk": (lambda ex, v=v, drop=drop: ex.call_function(f, [AbsObj(v, th), drop], inline=True)),
                   "post": post, "args": ()}


def as_opt(x):
    from pyvc.values import AbsObj
    if isinstance(x, Opt):
        return x
    if x is None:
        return Opt(z3.BoolVal(False), z3.Const(fresh_name("none"), V), "version")
    if isinstance(x, AbsObj):
        return Opt(z3.BoolVal(True), x.term, "version")
    raise ValueError(x)


class FromPkgSpecifier:
    """specifiers/__init__._from_pkg_specifier: the interval each PEP 440 clause denotes (leaf translation of C04; parsing side of C06)"""
    target = "dep_logic.specifiers:_from_pkg_specifier"

    def __init__(self, th):
        self.th = th

    def cases(self, th):
        from pyvc.theories.version import EpochText, JoinDots, PkgSpec, RelText, VersionText
        f = th.index.func(self.target)
        for op in (">", ">=", "<", "<=", "==", "!=", "~=", "==*", "!=*", "==="):
            v = th.sym_version("V")
            pre = [ver_wf(v)]
            wild = op.endswith("*")
            if wild:
                prefix = IL.fresh("prefix")
                ep = z3.Int(fresh_name("epoch"))
                has_ep = z3.Bool(fresh_name("has_epoch"))
                i = z3.Int(fresh_name("i"))
                pre = [prefix.n >= 1, ep >= 0, z3.ForAll([i], z3.Implies(z3.And(0 <= i, i < prefix.n), at(prefix, i) >= 0))]
                texts = [(RelText(EpochText(ep), JoinDots(prefix), True), ep), (RelText(None, JoinDots(prefix), True), z3.IntVal(0))]
            else:
                texts = [(VersionText(v), None)]
                if op == "~=":
                    pre.append(V.n(v) >= 2)         # packaging rejects `~=1`
            for text, epoch in texts:
                spec = PkgSpec(op.rstrip("*"), text)

                def post(ex, res, op=op, v=v, epoch=epoch, text=text):
                    if op == "===":
                        return [("C04.leaf.arbitrary", z3.BoolVal(isinstance(res, Obj) and res.cls.name == "ArbitrarySpecifier"))]
                    if not isinstance(res, Obj):
                        return [("C04.leaf.returns-specifier", z3.BoolVal(False))]
                    if op in ("!=", "!=*"):
                        if res.cls.name != "UnionSpecifier" or not isinstance(res.fields["ranges"], tuple) or len(res.fields["ranges"]) != 2:
                            return [("C04.leaf.exclusion-is-two-ranges", z3.BoolVal(False))]
                        left, right = res.fields["ranges"]
                        lmin, lmax, rmin, rmax = (as_opt(x) for x in (left.fields["min"], left.fields["max"], right.fields["min"], right.fields["max"]))
                        outer = z3.And(z3.Not(lmin.has), z3.Not(rmax.has), lmax.has, rmin.has, z3.Not(b(left.fields["include_min"])), z3.Not(b(right.fields["include_max"])))
                        if op == "!=":
                            return [("C04.leaf.not-equal", z3.And(outer, lmax.val == v, rmin.val == v, z3.Not(b(left.fields["include_max"])), z3.Not(b(right.fields["include_min"]))))]
                        return [("C04.leaf.wildcard-exclusion.shape", z3.And(outer, z3.Not(b(left.fields["include_max"])), b(right.fields["include_min"]))),
                                ("C04.leaf.wildcard-exclusion.bounds", wildcard_bounds(epoch, text.ints.ints, lmax.val, rmin.val))]
                    if res.cls.name != "RangeSpecifier":
                        return [("C04.leaf.returns-range", z3.BoolVal(False))]
                    mn, mx = as_opt(res.fields["min"]), as_opt(res.fields["max"])
                    imin, imax = b(res.fields["include_min"]), b(res.fields["include_max"])
                    if op in (">", ">="):
                        return [("C04.leaf.lower-bound", z3.And(mn.has, mn.val == v, z3.Not(mx.has), imin == b(op == ">="), z3.Not(imax)))]
                    if op in ("<", "<="):
                        return [("C04.leaf.upper-bound", z3.And(mx.has, mx.val == v, z3.Not(mn.has), imax == b(op == "<="), z3.Not(imin)))]
                    if op == "==":
                        return [("C04.leaf.exact", z3.And(mn.has, mx.has, mn.val == v, mx.val == v, imin, imax))]
                    if op == "~=":
                        return [("C04.leaf.compatible.shape", z3.And(mn.has, mx.has, mn.val == v, imin, z3.Not(imax))),
                                ("C04.leaf.compatible.upper-is-next-series", tilde_upper(v, mx.val))]
                    if op == "==*":
                        return [("C04.leaf.wildcard.shape", z3.And(mn.has, mx.has, imin, z3.Not(imax))),
                                ("C04.leaf.wildcard.bounds", wildcard_bounds(epoch, text.ints.ints, mn.val, mx.val))]
                    return [("C04.leaf.known-operator", z3.BoolVal(False))]
                yield {"name": f"{op}{'|epoch' if epoch is not None and not z3.is_int_value(epoch) else ''}", "pre": pre,
                       "thunk": (lambda ex, spec=spec: ex.call_function(f, [spec], inline=True)), "post": post, "args": ()}


class FromSpecifier:
    """MarkerExpression.from_specifier(name, s) for python_version / python_full_version and a single range s with suffix-free bounds:
    None, or an atom whose (operator, Version(value)) clause denotes exactly s (C11 b); the installed `_specifier` is s itself (C10)."""
    target = "dep_logic.markers.single:MarkerExpression.from_specifier"

    def __init__(self, th):
        self.th = th

    def cases(self, th):
        from pyvc.values import ClassRef
        from pyvc.theories.version import VersionText, PaddedText
        f = th.index.func(self.target)
        ME = th.index.cls("MarkerExpression")
        for name in ("python_version", "python_full_version"):
            r = th.sym_range("s")
            mn, mx = r.fields["min"], r.fields["max"]
            pre = [th.range_pre(r), z3.Implies(mn.has, suffix_free(mn.val)), z3.Implies(mx.has, suffix_free(mx.val))]

            def thunk(ex, r=r, name=name):
                res = ex.call_function(f, [ClassRef(ME), name, r], inline=True)
                if isinstance(res, Obj) and res.cls.name == "MarkerExpression":
                    val = res.fields["value"]
                    if not isinstance(val, (VersionText, PaddedText)):
                        return (res, None)
                    return (res, th.version_from_text(ex, val).term)
                return (res, None)

            def post(ex, v, r=r):
                res, pv = v
                mn, mx = r.fields["min"], r.fields["max"]
                universal = z3.And(z3.Not(mn.has), z3.Not(mx.has))
                if res is None:
                    return [("C11.from_specifier.none-allowed", z3.BoolVal(True))]
                if not isinstance(res, Obj):
                    return [("C11.from_specifier.returns-marker", z3.BoolVal(False))]
                if res.cls.name == "AnyMarker":
                    return [("C11.from_specifier.any-iff-universal", universal)]
                if res.cls.name != "MarkerExpression" or pv is None:
                    return [("C11.from_specifier.returns-atom", z3.BoolVal(False))]
                op = res.fields["op"]
                cl = [(nm.replace("C06.range", "C11.from_specifier.atom"), c)
                      for nm, c in range_form_clauses(r, SpecText([(op, pv)]), same=lambda a, c: V.ord(a) == V.ord(c))]
                # C10: an atom is a cache key compared by (name, op, value, reversed); the view it carries must be the one its own text gives, in
                # spelling too (`_simplified_form` reads the release length of the bounds): the given specifier may be installed only when the value
                # is that specifier's own clause text - a zero-padded value must leave the view to be derived from the text.
                # A view with two bounds shows only one of them in the value (`==V`: min, `~=V` / `==P.*`: min or the prefix), so the other bound
                # of a given range can be spelled differently (5.11 vs 5.11.0) from what the text gives and `|` / `&` results rendered from it
                # differ between two equal atoms (D21): only a one-bound range whose bound is the value's own text may be installed.
                inst = res.fields.get("_specifier")
                if inst is None:
                    shown = z3.BoolVal(True)
                elif inst is r and isinstance(res.fields["value"], VersionText):
                    shown = z3.Not(z3.And(mn.has, mx.has))
                else:
                    shown = z3.BoolVal(False)
                cl.append(("C10.from_specifier.installed-view-is-the-one-the-text-gives", shown))
                cl.append(("C11.from_specifier.not-universal", z3.Not(universal)))
                return cl
            yield {"name": name, "pre": pre, "thunk": thunk, "post": post, "args": (r,), "describe": describe}
            # a parsed wildcard clause `==P.*` (a range carrying its own text) and `!=P.*` / `!=V` (a union of two half-lines carrying its text)
            yield from self.parsed_cases(th, f, ME, name)
        yield from self.generic_case(th, f, ME)

    def generic_case(self, th, f, ME):
        """a GenericSpecifier (op, value) on a string variable: the installed view is the one `_get_specifier` derives, GenericSpecifier(op, value)
        (all of whose fields take part in ==), for an atom that is not reversed"""
        from pyvc.values import ClassRef
        G = th.index.cls("GenericSpecifier")
        name = z3.String(fresh_name("name"))
        for op in ("==", "!=", "in", "not in"):
            s = Obj(G, {"op": op, "value": z3.String(fresh_name("gvalue"))})

            def post(ex, res, s=s):
                if not isinstance(res, Obj) or res.cls.name != "MarkerExpression":
                    return [("C10.from_specifier.generic.returns-atom", z3.BoolVal(False))]
                inst = res.fields.get("_specifier")
                same = res.fields["op"] == s.fields["op"] and res.fields["value"] is s.fields["value"] and res.fields["reversed"] is False
                return [("C10.from_specifier.generic.installed-view-is-the-one-the-text-gives", z3.BoolVal(inst is None or (inst is s and same)))]
            pre = [z3.And(*[name != z3.StringVal(v) for v in ("python_version", "python_full_version", "platform_release")])]
            yield {"name": f"generic|{op}", "pre": pre, "thunk": (lambda ex, s=s: ex.call_function(f, [ClassRef(ME), name, s], inline=True)), "post": post, "args": ()}

    def parsed_cases(self, th, f, ME, name):
        from pyvc.values import ClassRef
        from pyvc.theories.version import EpochText, JoinDots, PkgSpec, RelText, SpecStr, VersionText
        U_ = th.index.cls("UnionSpecifier")
        for op in ("==*", "!=*", "!="):
            prefix = IL.fresh("prefix")
            i = z3.Int(fresh_name("i"))
            pre = [prefix.n >= 1, z3.ForAll([i], z3.Implies(z3.And(0 <= i, i < prefix.n), at(prefix, i) >= 0))]
            lo, hi = th.sym_version("lo"), th.sym_version("hi")
            pre += [ver_wf(lo), ver_wf(hi)]
            if op == "!=":
                text = VersionText(lo)
                pre += [suffix_free(lo), hi == lo]
            else:
                text = RelText(None, JoinDots(prefix), True)
                pre += [wildcard_bounds(z3.IntVal(0), prefix, lo, hi), V.ord(lo) < V.ord(hi)]
            spec = PkgSpec(op.rstrip("*"), text)
            if op == "==*":
                s = Obj(th.index.cls("RangeSpecifier"), {"min": Opt(z3.BoolVal(True), lo, "version"), "max": Opt(z3.BoolVal(True), hi, "version"),
                                                          "include_min": z3.BoolVal(True), "include_max": z3.BoolVal(False), "simplified": SpecStr(spec)})
            else:
                none = Opt(z3.BoolVal(False), th.sym_version("none"), "version")
                left = Obj(th.index.cls("RangeSpecifier"), {"min": none, "max": Opt(z3.BoolVal(True), lo, "version"), "include_min": z3.BoolVal(False),
                                                             "include_max": z3.BoolVal(False), "simplified": None})
                right = Obj(th.index.cls("RangeSpecifier"), {"min": Opt(z3.BoolVal(True), hi, "version"), "max": none, "include_min": z3.BoolVal(op == "!=*"),
                                                              "include_max": z3.BoolVal(False), "simplified": None})
                s = Obj(U_, {"ranges": (left, right), "simplified": SpecStr(spec)})

            def post(ex, res, s=s, text=text, op=op):
                from pyvc.theories.version import PaddedText as PaddedText_
                if res is None:
                    return [("C11.from_specifier.none-allowed", z3.BoolVal(True))]
                if not isinstance(res, Obj) or res.cls.name != "MarkerExpression":
                    return [("C11.from_specifier.parsed.returns-atom", z3.BoolVal(False))]
                val = res.fields["value"]
                cl = [("C11.from_specifier.parsed.operator-kept", z3.BoolVal(res.fields["op"] == op.rstrip("*"))),
                      ("C10.from_specifier.installed-view-is-the-one-the-text-gives",
                       z3.BoolVal(res.fields.get("_specifier") is None or (res.fields.get("_specifier") is s and not isinstance(val, PaddedText_))))]
                if op == "!=":
                    from pyvc.theories.version import PaddedText
                    cl.append(("C11.from_specifier.parsed.excluded-version-kept",
                               z3.BoolVal(isinstance(val, (VersionText, PaddedText)) and val.term is text.term)))
                else:
                    # zero padding changes the meaning of a wildcard operand: the text must be the very wildcard that was parsed
                    cl.append(("C11.from_specifier.parsed.wildcard-operand-kept",
                               z3.BoolVal(isinstance(val, RelText) and val.wild and val.ints is text.ints and val.epoch is text.epoch)))
                return cl
            yield {"name": f"{name}|{op}", "pre": pre, "thunk": (lambda ex, s=s: ex.call_function(f, [ClassRef(ME), name, s], inline=True)),
                   "post": post, "args": ()}


def describe(m, args, result=None):
    def ver(t):
        n = m.eval(V.n(t), model_completion=True).as_long()
        rel = [m.eval(z3.Select(V.rel(t), i), model_completion=True).as_long() for i in range(max(0, min(n, 6)))]
        flags = {k: z3.is_true(m.eval(f(t), model_completion=True)) for k, f in (("pre", V.pre), ("post", V.post), ("dev", V.dev))}
        return {"epoch": m.eval(V.epoch(t), model_completion=True).as_long(), "release": rel, **{k: v for k, v in flags.items() if v}}
    out = {}
    for n, a in zip(("self", "other"), args or ()):
        if isinstance(a, Obj) and a.cls.name == "RangeSpecifier":
            d = {}
            for k in ("min", "max"):
                o = a.fields[k]
                d[k] = ver(o.val) if z3.is_true(m.eval(o.has, model_completion=True)) else None
            for k in ("include_min", "include_max"):
                d[k] = z3.is_true(m.eval(b(a.fields[k]), model_completion=True))
            out[n] = d
    return out


def loop_specs(th):
    return {(U + "first_different_index", 0): LoopSpec({"index": INT}, FirstDifferent.loop)}


def all_contracts(th):
    cs = [PadZeros(), FirstDifferent(), RangeRender(th, "_simplified_form"), RangeRender(th, "__str__"),
          UnionRender(th, "_simplified_form"), ReleaseSeries(th), FromPkgSpecifier(th), FromSpecifier(th), UnionStr(th)]
    return {c.target: c for c in cs}
