"""C06 (rendering side) / C11: pad_zeros, first_different_index, RangeSpecifier / UnionSpecifier `_simplified_form` and `__str__`,
`_release_series`, over structured versions (T-VER).  The post-conditions say *structurally* which set each rendered clause form must
denote (PEP 440); A-VER turns structural equality of suffix-free versions into equality of versions."""
from __future__ import annotations

import z3

from pyvc.engine import Contract, LoopSpec
from pyvc.theories.version import INTL, V, SpecText, pad, suffix_free, ver_wf
from pyvc.values import AList, INT, ListS, Obj, Opt, fresh_name

U = "dep_logic.utils:"
RNG = "dep_logic.specifiers.range:RangeSpecifier."
UNI = "dep_logic.specifiers.union:UnionSpecifier."
IL = ListS(INT)


def at(l, i):
    return z3.Select(l.arr, i)


class PadZeros(Contract):
    target = U + "pad_zeros"

    def cases(self, th):
        yield "ints", [IL.fresh("parts"), z3.Int(fresh_name("to_length"))], []

    def requires(self, ex, parts, to_length):
        return parts.n >= 0

    def result(self, ex, args):
        return IL.fresh("padded")

    def allowed_raise(self, ex, args, exc):
        return z3.BoolVal(False)

    def ensures(self, ex, args, result):
        parts, L = args
        if not isinstance(result, AList):
            return [("returns-list", z3.BoolVal(False))]
        i = z3.Int(fresh_name("i"))
        return [("length", result.n == z3.If(parts.n >= L, parts.n, L)),
                ("elements", z3.ForAll([i], z3.Implies(z3.And(0 <= i, i < result.n), at(result, i) == pad(parts.arr, parts.n, i))))]


class FirstDifferent(Contract):
    target = U + "first_different_index"

    def cases(self, th):
        yield "ints", [IL.fresh("iterable1"), IL.fresh("iterable2")], []

    def requires(self, ex, a, b):
        return z3.And(a.n >= 1, b.n >= 1)         # both lists start with the epoch (call sites), never empty

    def result(self, ex, args):
        return z3.Int(fresh_name("fdi"))

    def allowed_raise(self, ex, args, exc):
        return z3.BoolVal(False)

    def ensures(self, ex, args, result):
        a, b2 = args
        n = z3.If(a.n < b2.n, a.n, b2.n)
        i = z3.Int(fresh_name("i"))
        r = result
        return [("range", z3.And(0 <= r, r <= n)),
                ("equal-before", z3.ForAll([i], z3.Implies(z3.And(0 <= i, i < r), at(a, i) == at(b2, i)))),
                ("differs-at", z3.Implies(r < n, at(a, r) != at(b2, r)))]

    @staticmethod
    def loop(st):
        a, b2 = st.loc("iterable1"), st.loc("iterable2")
        idx = st.loc("index")
        i = z3.Int(fresh_name("i"))
        return [("index", idx == z3.If(st.k == 0, 0, st.k - 1)),
                ("equal-before", z3.ForAll([i], z3.Implies(z3.And(0 <= i, i < st.k), at(a, i) == at(b2, i))))]


def tilde_upper(mn, mx):
    """mx is the first version of the release series after mn's, mn's last segment dropped: same epoch, release
    (mn.release[:-2], mn.release[-2] + 1) up to trailing zeros, no pre/post/dev segment"""
    k = V.n(mn)
    i = z3.Int(fresh_name("i"))
    expect = z3.If(i < k - 2, z3.Select(V.rel(mn), i), z3.If(i == k - 2, z3.Select(V.rel(mn), k - 2) + 1, 0))
    return z3.And(suffix_free(mx), V.epoch(mx) == V.epoch(mn), z3.ForAll([i], z3.Implies(i >= 0, pad(V.rel(mx), V.n(mx), i) == expect)))


def wildcard_bounds(epoch, prefix, lo, hi):
    """lo == <epoch>!<prefix>.0 and hi == <epoch>!<prefix with its last segment + 1>.0 (up to trailing zeros), both without suffix"""
    i = z3.Int(fresh_name("i"))
    m = prefix.n
    lo_expect = z3.If(i < m, at(prefix, i), 0)
    hi_expect = z3.If(i < m - 1, at(prefix, i), z3.If(i == m - 1, at(prefix, m - 1) + 1, 0))
    return z3.And(m >= 1, suffix_free(lo), suffix_free(hi), V.epoch(lo) == epoch, V.epoch(hi) == epoch,
                  z3.ForAll([i], z3.Implies(i >= 0, z3.And(pad(V.rel(lo), V.n(lo), i) == lo_expect, pad(V.rel(hi), V.n(hi), i) == hi_expect))))


def b(x):
    return x if z3.is_expr(x) else z3.BoolVal(bool(x))


def range_form_clauses(r, res, prefix="C06.range"):
    """what each rendered form of a single range must mean"""
    mn, mx = r.fields["min"], r.fields["max"]
    imin, imax = b(r.fields["include_min"]), b(r.fields["include_max"])
    if res is None:
        return [(f"{prefix}.unsimplified-has-both-bounds", z3.And(mn.has, mx.has))]
    if isinstance(res, str):
        return [(f"{prefix}.empty-text-is-universal", z3.And(b(res == ""), z3.Not(mn.has), z3.Not(mx.has)))]
    if not isinstance(res, SpecText):
        return [(f"{prefix}.renders-text", z3.BoolVal(False))]
    if len(res.clauses) == 2:
        (o1, v1), (o2, v2) = res.clauses
        return [(f"{prefix}.two-clauses", z3.And(mn.has, mx.has, v1 == mn.val, v2 == mx.val, b(o1 in (">", ">=")), b(o2 in ("<", "<=")),
                                                 imin == b(o1 == ">="), imax == b(o2 == "<=")))]
    if len(res.clauses) != 1:
        return [(f"{prefix}.clause-count", z3.BoolVal(False))]
    op, v = res.clauses[0]
    if op in ("<", "<="):
        return [(f"{prefix}.upper-half-line", z3.And(z3.Not(mn.has), mx.has, v == mx.val, imax == b(op == "<=")))]
    if op in (">", ">="):
        return [(f"{prefix}.lower-half-line", z3.And(z3.Not(mx.has), mn.has, v == mn.val, imin == b(op == ">=")))]
    if op == "==":
        return [(f"{prefix}.single-version", z3.And(mn.has, mx.has, v == mn.val, V.ord(mn.val) == V.ord(mx.val), imin, imax))]
    if op == "~=":
        return [(f"{prefix}.tilde.shape", z3.And(mn.has, mx.has, v == mn.val, imin, z3.Not(imax), V.n(mn.val) >= 2)),
                (f"{prefix}.tilde.upper-is-next-series", z3.Implies(z3.Not(V.post(mx.val)), tilde_upper(mn.val, mx.val))),
                (f"{prefix}.tilde.upper-has-no-post-release", z3.Not(V.post(mx.val)))]
    return [(f"{prefix}.known-form", z3.BoolVal(False))]


class RangeRender:
    def __init__(self, th, which):
        self.th, self.which = th, which
        self.target = RNG + which

    def cases(self, th):
        f = th.index.func(self.target)
        r = th.sym_range("self")
        yield {"name": "computed-range", "pre": [th.range_pre(r)], "thunk": (lambda ex: ex.call_function(f, [r], inline=True)),
               "post": (lambda ex, res: range_form_clauses(r, res)), "args": (r,), "describe": describe}


def describe(m, args, result=None):
    def ver(t):
        n = m.eval(V.n(t), model_completion=True).as_long()
        rel = [m.eval(z3.Select(V.rel(t), i), model_completion=True).as_long() for i in range(max(0, min(n, 6)))]
        flags = {k: z3.is_true(m.eval(f(t), model_completion=True)) for k, f in (("pre", V.pre), ("post", V.post), ("dev", V.dev))}
        return {"epoch": m.eval(V.epoch(t), model_completion=True).as_long(), "release": rel, **{k: v for k, v in flags.items() if v}}
    out = {}
    for n, a in zip(("self", "other"), args or ()):
        if isinstance(a, Obj) and a.cls.name == "RangeSpecifier":
            d = {}
            for k in ("min", "max"):
                o = a.fields[k]
                d[k] = ver(o.val) if z3.is_true(m.eval(o.has, model_completion=True)) else None
            for k in ("include_min", "include_max"):
                d[k] = z3.is_true(m.eval(b(a.fields[k]), model_completion=True))
            out[n] = d
    return out


def loop_specs(th):
    return {(U + "first_different_index", 0): LoopSpec({"index": INT}, FirstDifferent.loop)}


def all_contracts(th):
    cs = [PadZeros(), FirstDifferent(), RangeRender(th, "_simplified_form"), RangeRender(th, "__str__")]
    return {c.target: c for c in cs}
