"""C02 / C11, text arithmetic of python_version atoms: _normalize_python_version_specifier(atom) returns the specifier over *full* versions
X.Y.Z that admits exactly those whose python_version (X.Y) satisfies the atom - for every operator, every value `X`, `X.Y` (and the
re-rendered `X.Y.0`), all integers.  Also the plumbing of the bridge C11 (a): _get_specifier hands the atom's own `op value` clause to the parser.

Values are dotted integer texts (token `Dotted`), clauses `op + dotted text` (token `Clause`); parse_version_specifier is used through its
contract (returns the specifier *of that clause*; what a clause denotes is C04.leaf).  The meaning of a clause on release-only versions
(all interpreter versions) is written out below from PEP 440: zero padding, lexicographic order, prefix match for `.*` and `~=`."""
from __future__ import annotations

import z3

from pyvc.engine import Contract
from pyvc.values import Obj, OutsideSubset, fresh_name

S = "dep_logic.markers.single:"
NORM = S + "_normalize_python_version_specifier"
GETSPEC = S + "MarkerExpression._get_specifier"
PARSE = "dep_logic.specifiers:parse_version_specifier"
OPS = ["==", "!=", "<", "<=", ">", ">=", "~="]


class IntText:
    def __init__(self, term):
        self.term = term


class Dotted:
    """'.'.join(segments); a segment is an IntText or the text '*'"""

    def __init__(self, segs):
        self.segs = list(segs)


class Clause:
    def __init__(self, op, dotted):
        self.op, self.dotted = op, dotted


class CommaList:
    """the value of an in / not in atom: items separated by ', '"""

    def __init__(self, items):
        self.items = list(items)


class ClauseList:
    """clauses joined by '||' (alternatives) or ',' (all must hold)"""

    def __init__(self, glue, clauses):
        self.glue, self.clauses = glue, list(clauses)


class ParsedSpec:
    """what parse_version_specifier returns for a one-clause text: the specifier of that clause"""

    def __init__(self, clause):
        self.clause = clause


class SpecObj:
    """packaging.specifiers.Specifier(clause text)"""

    def __init__(self, clause):
        self.clause = clause


class _SpecifierCtor:
    pass


class EnvMapping:
    """the `environment` argument of _evaluate(): environment[name] is the dotted text of the ghost interpreter version"""

    def __init__(self, values):
        self.values = values


class PyvTheory:
    text_tokens = ("Dotted", "IntText", "Clause", "CommaList", "ClauseList")

    def __init__(self, index):
        self.index = index
        self.laws = {}

    def index_env(self, ex, key):
        return self.env_value

    def call_other(self, ex, f, args, kw):
        if isinstance(f, _SpecifierCtor):
            if len(args) == 1 and isinstance(args[0], Clause):
                return SpecObj(args[0])
            raise OutsideSubset("Specifier() of something that is not a clause")
        return NotImplemented

    def law(self, ex, op, *vals):
        return None

    def external(self, ex, mod, name):
        if mod.startswith("packaging") and name == "Specifier":
            return _SpecifierCtor()
        return None

    def getattr_other(self, ex, o, attr):
        from pyvc.expr import BoundBuiltin
        if isinstance(o, (Dotted, IntText, SpecObj, CommaList)):
            return BoundBuiltin(o, attr)
        return None

    def method_builtin(self, ex, recv, name, args, kw):
        if isinstance(recv, Dotted) and name == "split" and args == ["."]:
            return list(recv.segs)
        if isinstance(recv, CommaList) and name == "split" and args == [","]:
            return list(recv.items)
        if isinstance(recv, Dotted) and name == "strip" and not args:
            return recv
        if isinstance(recv, str) and recv in ("||", ",") and name == "join" and len(args) == 1 and isinstance(args[0], list) and all(isinstance(c, Clause) for c in args[0]):
            return ClauseList(recv, args[0])
        if isinstance(recv, IntText) and name == "strip" and not args:
            return recv
        if isinstance(recv, IntText) and name == "isdigit" and not args:
            return True          # the decimal text of a non-negative integer (preconditions of the cases)
        if isinstance(recv, str) and name == "isdigit" and not args:
            return recv.isdigit()
        if isinstance(recv, SpecObj) and name == "contains" and len(args) >= 1 and isinstance(args[0], Dotted):
            # A-PKG-CONTAINS: Specifier(clause).contains(version text) is the PEP 440 meaning of the clause on release-only versions
            cand = seg_terms(args[0].segs)
            cand = cand + [z3.IntVal(0)] * (3 - len(cand))
            return clause_admits(recv.clause.op, recv.clause.dotted.segs, tuple(cand))
        if recv == "." and name == "join" and len(args) == 1 and isinstance(args[0], list):
            return Dotted(args[0])
        return NotImplemented

    def coerce_eq(self, l, r):
        for a, c, flip in ((l, r, False), (r, l, True)):
            if isinstance(a, IntText) and isinstance(c, str):
                other = z3.IntVal(int(c)) if c.isdigit() and (c == "0" or not c.startswith("0")) else a.term + 1     # a different text never equals
                return (other, a.term) if flip else (a.term, other)
        return l, r

    def to_int(self, ex, v):
        if isinstance(v, IntText):
            return v.term
        if isinstance(v, str) and v.isdigit():
            return int(v)
        raise OutsideSubset("int() of a non-numeric segment")

    def to_str(self, ex, x):
        if z3.is_expr(x) and z3.is_int(x):
            return IntText(x)
        if isinstance(x, (Dotted, IntText, Clause)):
            return x
        return None

    def str_concat(self, ex, parts):
        parts = [p for p in parts if p != ""]
        if len(parts) == 2 and isinstance(parts[0], str) and isinstance(parts[1], Dotted):
            return Clause(parts[0], parts[1])
        return None


class ParseClause(Contract):
    target = PARSE

    def __init__(self, th):
        self.th = th

    def result(self, ex, args):
        if not isinstance(args[0], (Clause, ClauseList)):
            raise OutsideSubset("parse_version_specifier on something that is not a clause text")
        return ParsedSpec(args[0])

    def ensures(self, ex, args, result):
        return []

    def allowed_raise(self, ex, args, exc):
        return z3.BoolVal(False)


# ---------------------------------------------------------------- PEP 440 on release-only versions
def seg_terms(segs):
    out = []
    for s in segs:
        if isinstance(s, IntText):
            out.append(s.term)
        elif isinstance(s, str) and s.isdigit():
            out.append(z3.IntVal(int(s)))
        elif s == "*":
            out.append("*")
        else:
            raise OutsideSubset(f"segment {s!r}")
    return out


def lex_lt(x, y):
    return z3.Or(x[0] < y[0], z3.And(x[0] == y[0], z3.Or(x[1] < y[1], z3.And(x[1] == y[1], x[2] < y[2]))))


def clause_admits(op, segs, cand):
    """does the three-segment release `cand` satisfy `op segs` (PEP 440; segs: one to three integers, optionally followed by '*')"""
    t = seg_terms(segs)
    wild = bool(t) and isinstance(t[-1], str)
    nums = t[:-1] if wild else t
    if not 1 <= len(nums) <= 3 or any(isinstance(x, str) for x in nums):
        raise OutsideSubset("clause shape")
    pad = list(nums) + [z3.IntVal(0)] * (3 - len(nums))
    eq = z3.And(*[cand[i] == pad[i] for i in range(3)])
    prefix = lambda k: z3.And(*[cand[i] == nums[i] for i in range(k)]) if k else z3.BoolVal(True)
    if wild:
        if op == "==":
            return prefix(len(nums))
        if op == "!=":
            return z3.Not(prefix(len(nums)))
        raise OutsideSubset("wildcard with an ordering operator")
    if op == "==":
        return eq
    if op == "!=":
        return z3.Not(eq)
    if op == "<":
        return lex_lt(cand, pad)
    if op == "<=":
        return z3.Not(lex_lt(pad, cand))
    if op == ">":
        return lex_lt(pad, cand)
    if op == ">=":
        return z3.Not(lex_lt(cand, pad))
    if op == "~=":
        if len(nums) < 2:
            raise OutsideSubset("~= with a single segment")
        return z3.And(z3.Not(lex_lt(cand, pad)), prefix(len(nums) - 1))
    raise OutsideSubset(f"operator {op}")


def spec_admits(ps, cand):
    """PEP 440 / dep-logic text semantics of a parsed text: one clause, or clauses joined by '||' (any) / ',' (all)"""
    c = ps.clause
    if isinstance(c, Clause):
        return clause_admits(c.op, c.dotted.segs, cand)
    parts = [clause_admits(x.op, x.dotted.segs, cand) for x in c.clauses]
    return (z3.Or if c.glue == "||" else z3.And)(*parts) if parts else z3.BoolVal(c.glue != "||")


def atom(th, op, segs, reversed_=False):
    return Obj(th.index.cls("MarkerExpression"), {"name": "python_version", "op": op, "value": Dotted(segs), "reversed": reversed_, "_specifier": None})


def value_shapes():
    X, Y = z3.Int("X"), z3.Int("Y")
    Z = z3.Int("Z")
    return [("X", [IntText(X)], [X >= 0]), ("X.Y", [IntText(X), IntText(Y)], [X >= 0, Y >= 0]), ("X.Y.0", [IntText(X), IntText(Y), "0"], [X >= 0, Y >= 0]),
            # a literal longer than python_version's own X.Y (`python_version >= "3.8.1"` selects 3.9 and later; D25)
            ("X.Y.Z", [IntText(X), IntText(Y), IntText(Z)], [X >= 0, Y >= 0, Z >= 1])]


def cases(th):
    f = th.index.func(NORM)
    g = th.index.func(GETSPEC)
    A, B, C = z3.Int("a!full"), z3.Int("b!full"), z3.Int("c!full")      # an arbitrary interpreter version A.B.C; its python_version is A.B
    for op in OPS:
        for shape, segs, pre in value_shapes():
            if op == "~=" and shape == "X":
                continue        # packaging rejects `~= X`
            m = atom(th, op, segs)

            def post(ex, res, op=op, segs=segs):
                if res is None:
                    # "cannot be expressed as a bound on python_full_version": the caller leaves the two atoms unmerged
                    return [("C11.normalize.none-leaves-the-atoms-unmerged", z3.BoolVal(True))]
                if not isinstance(res, ParsedSpec):
                    return [("C11.normalize.returns-a-parsed-clause", z3.BoolVal(False))]
                c = res.clause
                on_full = clause_admits(c.op, c.dotted.segs, (A, B, C))
                on_python_version = clause_admits(op, segs, (A, B, z3.IntVal(0)))
                return [("C11.normalize.admits-the-full-versions-whose-python_version-satisfies-the-atom", on_full == on_python_version)]
            yield {"name": f"normalize|{op}|{shape}", "pre": pre + [A >= 0, B >= 0, C >= 0], "thunk": (lambda ex, m=m: ex.call_function(f, [m], inline=True)), "post": post, "args": ()}
            # the same atom after its own specifier view has been computed and cached (the lazily filled `_specifier`): the result must not depend on that
            m2 = atom(th, op, segs)
            m2.fields["_specifier"] = ParsedSpec(Clause(op, Dotted(segs)))
            yield {"name": f"normalize|{op}|{shape}|view-cached", "pre": pre + [A >= 0, B >= 0, C >= 0], "thunk": (lambda ex, m=m2: ex.call_function(f, [m], inline=True)), "post": post, "args": ()}
    # the bridge plumbing: the specifier view of a version atom is the parse of its own clause, whatever the variable
    for name in ("python_version", "python_full_version", "platform_release"):
        for op in OPS:
            X, Y = z3.Int("X"), z3.Int("Y")
            segs = [IntText(X), IntText(Y)]
            m = atom(th, op, segs)
            m.fields["name"] = name

            def post2(ex, res, op=op, segs=segs):
                ok = isinstance(res, ParsedSpec) and res.clause.op == op and res.clause.dotted.segs == segs
                return [("C11.view.is-the-parse-of-the-atoms-own-clause", z3.BoolVal(bool(ok)))]
            yield {"name": f"view|{name}|{op}", "pre": [X >= 0, Y >= 0], "thunk": (lambda ex, m=m: ex.call_function(g, [m], inline=True)), "post": post2, "args": ()}


def list_view_cases(th):
    """C11, in / not in lists: the specifier view of `python_version in "X.Y, U.V"` admits exactly the full versions A.B.C whose A.B is listed (the view is
    used unchanged in merges with python_full_version atoms), and of `python_full_version in "X.Y.Z, ..."` exactly the listed versions; `not in` the complements"""
    g = th.index.func(GETSPEC)
    A, B, C = z3.Int("a!full"), z3.Int("b!full"), z3.Int("c!full")
    for name, width in (("python_version", 2), ("python_full_version", 3)):
        for op in ("in", "not in"):
            for count in (1, 2, 3):
                items, pre = [], [A >= 0, B >= 0, C >= 0]
                for k in range(count):
                    vs = [z3.Int(f"i{k}_{j}") for j in range(width)]
                    pre += [v >= 0 for v in vs]
                    items.append(vs)
                m = Obj(th.index.cls("MarkerExpression"), {"name": name, "op": op, "value": CommaList([Dotted([IntText(v) for v in vs]) for vs in items]),
                                                           "reversed": False, "_specifier": None})

                def post(ex, res, items=items, op=op, width=width):
                    if not isinstance(res, ParsedSpec):
                        return [("C11.list-view.returns-a-parsed-text", z3.BoolVal(False))]
                    got = spec_admits(res, (A, B, C))
                    cand = (A, B, C)[:width]
                    listed = z3.Or(*[z3.And(*[cand[j] == vs[j] for j in range(width)]) for vs in items])
                    return [("C11.list-view.admits-exactly-the-listed-series", got == (listed if op == "in" else z3.Not(listed)))]
                yield {"name": f"list-view|{name}|{op}|{count}", "pre": pre, "thunk": (lambda ex, m=m: ex.call_function(g, [m], inline=True)), "post": post, "args": ()}


def bridge_cases(th):
    """C11 (a): MarkerExpression._evaluate on a version atom = the environment's value lies in the atom's specifier view, both operand orders"""
    ev_f = th.index.func(S + "MarkerExpression._evaluate")
    g = th.index.func(GETSPEC)
    A, B, C = z3.Int("a!env"), z3.Int("b!env"), z3.Int("c!env")
    envs = {"python_full_version": [IntText(A), IntText(B), IntText(C)], "python_version": [IntText(A), IntText(B)], "platform_release": [IntText(A), IntText(B), IntText(C)]}
    for name, env_segs in envs.items():
        for rev in (False, True):
            for op in OPS:
                if rev and op == "~=":
                    continue          # `"V" ~= variable` is outside the well-defined atoms
                for shape, segs, pre in value_shapes()[:2] + [("X.Y.Z", [IntText(z3.Int("X")), IntText(z3.Int("Y")), IntText(z3.Int("Z"))], [z3.Int("X") >= 0, z3.Int("Y") >= 0, z3.Int("Z") >= 0])]:
                    if op == "~=" and shape == "X":
                        continue
                    m = atom(th, op, segs, rev)
                    m.fields["name"] = name

                    def thunk(ex, m=m, name=name, env_segs=env_segs):
                        th.env_value = Dotted(env_segs)
                        got = ex.call_function(ev_f, [m, EnvMapping({name: Dotted(env_segs)})], inline=True)
                        view = ex.call_function(g, [m], inline=True)
                        return (got, view)

                    def post(ex, v, env_segs=env_segs):
                        got, view = v
                        if not isinstance(view, ParsedSpec):
                            return [("C11.bridge.view-is-a-parsed-clause", z3.BoolVal(False))]
                        cand = seg_terms(env_segs)
                        cand = tuple(cand + [z3.IntVal(0)] * (3 - len(cand)))
                        in_view = clause_admits(view.clause.op, view.clause.dotted.segs, cand)
                        got = got if z3.is_expr(got) else z3.BoolVal(bool(got))
                        return [("C11.bridge.evaluate-iff-value-in-specifier-view", got == in_view)]
                    yield {"name": f"bridge|{name}|{op}|{shape}|reversed={rev}", "pre": pre + [A >= 0, B >= 0, C >= 0], "thunk": thunk, "post": post, "args": ()}


def setup(ix):
    th = PyvTheory(ix)
    return th, {PARSE: ParseClause(th)}
