"""C03, structural part: dep_logic.markers._build_markers folds packaging's parse tree exactly as packaging's own
`_evaluate_markers` folds it (an `or` of `and`-groups, nested lists recursively), and turns a parsed (lhs, op, rhs) triple into
an atom carrying the same triple (literal-on-the-left atoms: variable / literal swapped, operator mirrored exactly once).

Parse-tree nodes are an abstract sort: tag(node) in {or, and, sub-tree}, pk(node) = the truth value packaging assigns to
the sub-tree at the ghost environment.  packaging's list semantics is transcribed as a recursion over the item list:
    D(0) = False, G(0) = True
    item k is "or"      : D(k+1) = D(k) or G(k),  G(k+1) = True
    item k is "and"     : unchanged
    item k is a sub-tree: G(k+1) = G(k) and pk(item k)
    value of the list   = D(n) or G(n)                       (= any(all(group) for group in groups))
"""
from __future__ import annotations

import z3

from pyvc.engine import Contract, LoopSpec
from pyvc.theories.marker import MK, MarkerTheory, ev
from pyvc.values import AbsObj, AList, ListS, Obj, OutsideSubset, Shape, fresh_name

from . import markers as CM

Q = "dep_logic.markers:_build_markers"
PT = z3.DeclareSort("ParseNode")
tag = z3.Function("pt_tag", PT, z3.IntSort())
pk = z3.Function("pk", PT, z3.BoolSort())
T_OR, T_AND, T_SUB = 0, 1, 2
MIRROR = {"<": ">", "<=": ">=", ">": "<", ">=": "<=", "==": "==", "!=": "!=", "===": "===", "~=": "~=", "in": "in", "not in": "not in"}


class NodeShape(Shape):
    sort = PT

    def __init__(self, theory):
        self.theory = theory

    def fresh(self, name):
        return AbsObj(z3.Const(fresh_name(name), PT), self.theory)

    def enc(self, v):
        if isinstance(v, AbsObj) and v.term.sort() == PT:
            return v.term
        raise OutsideSubset(f"not a parse-tree node: {v!r}")

    def dec(self, t):
        return AbsObj(t, self.theory)

    def eq_terms(self, ex, a, b):
        return a == b


class Token:
    """a packaging Variable / Value / Op object of a parsed triple: its class and its text"""

    def __init__(self, kind, text):
        self.kind, self.text = kind, text


class _PkgClass:
    def __init__(self, name):
        self.name = name


class TreeTheory(MarkerTheory):
    def __init__(self, index):
        super().__init__(index)
        self.nshape = NodeShape(self)
        self.nlshape = ListS(self.nshape)

    def external(self, ex, mod, name):
        if mod.startswith("packaging") and name in ("Variable", "Value", "Op"):
            return _PkgClass(name)
        return None

    def isinstance_other(self, ex, v, c):
        if isinstance(v, Token) and isinstance(c, _PkgClass):
            return v.kind == c.name
        return None

    def to_str(self, ex, x):
        if isinstance(x, Token):
            return x.text
        if isinstance(x, QuotedText):
            return x
        return super().to_str(ex, x)

    def str_concat(self, ex, parts):
        t = atom_text_of(parts)
        if t is not None:
            return t
        return super().str_concat(ex, parts)

    def equals(self, ex, l, r):
        for a, c in ((l, r), (r, l)):
            if isinstance(a, AbsObj) and a.term.sort() == PT and isinstance(c, str):
                return tag(a.term) == {"or": T_OR, "and": T_AND}[c] if c in ("or", "and") else False
        return super().equals(ex, l, r)


def series(items):
    """the arrays D, G of the transcription above, with their defining axioms"""
    # functions, not arrays: the recursion D(k+1) = f(D(k)) must only be unfolded at the index terms of the problem (the loop counter),
    # not along the chain k, k+1, k+2, ... an array-read trigger would follow
    fD = z3.Function(fresh_name("D"), z3.IntSort(), z3.BoolSort())
    fG = z3.Function(fresh_name("G"), z3.IntSort(), z3.BoolSort())

    class _F:
        def __init__(self, f):
            self.f = f
    D, G = _F(fD), _F(fG)
    k = z3.Int(fresh_name("k"))
    it = z3.Select(items.arr, k)
    step = z3.And(
        z3.Implies(tag(it) == T_OR, z3.And(D.f(k + 1) == z3.Or(D.f(k), G.f(k)), G.f(k + 1))),
        z3.Implies(tag(it) == T_AND, z3.And(D.f(k + 1) == D.f(k), G.f(k + 1) == G.f(k))),
        z3.Implies(tag(it) == T_SUB, z3.And(D.f(k + 1) == D.f(k), G.f(k + 1) == z3.And(G.f(k), pk(it)))))
    ax = [z3.Not(D.f(0)), G.f(0),
          z3.ForAll([k], z3.Implies(z3.And(0 <= k, k < items.n), step))]
    return D, G, ax


class BuildMarkers(Contract):
    target = Q
    recursive = True

    def __init__(self, th):
        self.th = th
        self.state = {}

    # ---- call sites (the recursive call on a sub-tree): a marker that evaluates as packaging evaluates the sub-tree
    def requires(self, ex, *args):
        a = args[0]
        if isinstance(a, AbsObj) and a.term.sort() == PT:
            return tag(a.term) == T_SUB
        return z3.BoolVal(True)

    def result(self, ex, args):
        return self.th.shape.fresh("built")

    def allowed_raise(self, ex, args, exc):
        return z3.BoolVal(False)

    # ---- the function itself
    def cases(self, th):
        items = th.nlshape.fresh("markers")
        k = z3.Int(fresh_name("k"))
        D, G, ax = series(items)
        wf = z3.ForAll([k], z3.Implies(z3.And(0 <= k, k < items.n), z3.And(tag(z3.Select(items.arr, k)) >= 0, tag(z3.Select(items.arr, k)) <= 2)))
        self.state["list"] = (items, D, G)
        yield "list", [items], [items.n >= 0, wf] + ax
        for op in MIRROR:
            for var_first in (True, False):
                name, value = z3.String(fresh_name("name")), z3.String(fresh_name("value"))
                triple = (Token("Variable", name), Token("Op", op), Token("Value", value)) if var_first else (Token("Value", value), Token("Op", op), Token("Variable", name))
                self.state[f"atom.{op}.{'var-first' if var_first else 'literal-first'}"] = (name, op, value, var_first)
                yield f"atom.{op}.{'var-first' if var_first else 'literal-first'}", [triple], []

    def ensures(self, ex, args, result):
        a = args[0]
        if isinstance(a, AbsObj) and a.term.sort() == PT:
            # the recursive call on a sub-tree: the definition of pk on nodes (packaging evaluates a nested list / triple recursively)
            return [("C03.tree.sub-tree", ev(result.term) == pk(a.term))]
        if isinstance(a, AList):
            items, D, G = self.state["list"]
            if not isinstance(result, AbsObj):
                return [("C03.tree.returns-marker", z3.BoolVal(False))]
            return [("C03.tree.or-of-and-groups", ev(result.term) == z3.Or(D.f(items.n), G.f(items.n)))]
        lhs, op_tok, rhs = a
        var_first = lhs.kind == "Variable"
        name, value = (lhs.text, rhs.text) if var_first else (rhs.text, lhs.text)
        if not (isinstance(result, Obj) and result.cls.name == "MarkerExpression"):
            return [("C03.atom.returns-atom", z3.BoolVal(False))]
        f = result.fields
        rev = f.get("reversed")
        rev_ok = (rev is False or (z3.is_expr(rev) and z3.is_false(z3.simplify(rev)))) if var_first else (rev is True or (z3.is_expr(rev) and z3.is_true(z3.simplify(rev))))
        op = f.get("op")
        op_ok = isinstance(op, str) and (op == op_tok.text if var_first else MIRROR.get(op) == op_tok.text)
        return [("C03.atom.variable-kept", f.get("name") == name if z3.is_expr(f.get("name")) else z3.BoolVal(False)),
                ("C03.atom.literal-kept", f.get("value") == value if z3.is_expr(f.get("value")) else z3.BoolVal(False)),
                ("C03.atom.operand-order-recorded", z3.BoolVal(bool(rev_ok))),
                ("C03.atom.operator-mirrored-exactly-when-swapped", z3.BoolVal(bool(op_ok)))]

    # ---- loop invariant: closed groups mean D(k), the open group means G(k)
    def inv(self, st):
        items, D, G = self.state["list"]
        groups = st.loc("or_groups")
        j = z3.Int(fresh_name("j"))
        closed = z3.Exists([j], z3.And(0 <= j, j < groups.n - 1, ev(z3.Select(groups.arr, j))))
        return [("nonempty", groups.n >= 1),
                ("closed-groups", closed == D.f(st.k)),
                ("open-group", ev(z3.Select(groups.arr, groups.n - 1)) == G.f(st.k))]


class AtomText:
    """the text MarkerExpression.__str__ produced: `<variable> <op> <q><literal><q>` or `<q><literal><q> <op> <variable>`, q one of the two quote characters"""

    def __init__(self, var, op, lit, var_first, quote='"'):
        self.var, self.op, self.lit, self.var_first, self.quote = var, op, lit, var_first, quote


class QuotedText:
    """<q><literal><q> built on its own (a quoting helper)"""

    def __init__(self, lit, quote):
        self.lit, self.quote = lit, quote


def atom_text_of(parts):
    """recognises the two renderings from the pieces of the f-string (adjacent constant pieces merged)"""
    import re
    merged = []
    for p in parts:
        if isinstance(p, str) and merged and isinstance(merged[-1], str):
            merged[-1] += p
        else:
            merged.append(p)
    sym = lambda x: z3.is_expr(x) and z3.is_string(x)
    # a quoted literal on its own
    if len(merged) == 3 and merged[0] in ('"', "'") and merged[2] == merged[0] and sym(merged[1]):
        return QuotedText(merged[1], merged[0])
    # ... spliced into the atom text
    if len(merged) == 3 and sym(merged[0]) and isinstance(merged[1], str) and isinstance(merged[2], QuotedText):
        m = re.fullmatch(r' (\S+(?: in)?) ', merged[1])
        if m:
            return AtomText(merged[0], m.group(1), merged[2].lit, True, merged[2].quote)
    if len(merged) == 3 and isinstance(merged[0], QuotedText) and isinstance(merged[1], str) and sym(merged[2]):
        m = re.fullmatch(r' (\S+(?: in)?) ', merged[1])
        if m:
            return AtomText(merged[2], m.group(1), merged[0].lit, False, merged[0].quote)
    for q in ('"', "'"):
        if len(merged) == 4 and sym(merged[0]) and isinstance(merged[1], str) and sym(merged[2]) and merged[3] == q:
            m = re.fullmatch(r' (\S+(?: in)?) ' + q, merged[1])
            if m:
                return AtomText(merged[0], m.group(1), merged[2], True, q)
        if len(merged) == 4 and merged[0] == q and sym(merged[1]) and isinstance(merged[2], str) and sym(merged[3]):
            m = re.fullmatch(q + r' (\S+(?: in)?) ', merged[2])
            if m:
                return AtomText(merged[3], m.group(1), merged[1], False, q)
    return None


def roundtrip_cases(th):
    """C07, atoms: _build_markers(parse(str(atom))) is the atom again (same variable, operator, literal, operand order), for the ten operators and both
    operand orders.  A-PKG-PARSE: packaging reads `V op "L"` as the triple (Variable V, Op op, Value L) and `"L" op V` as (Value L, Op op, Variable V)."""
    f = th.index.func(Q)
    ME = th.index.cls("MarkerExpression")
    str_f, _ = th.index.find_method(ME, "__str__")
    for op in MIRROR:
        for rev in (False, True):
            name, value = z3.String(fresh_name("name")), z3.String(fresh_name("value"))
            a = Obj(ME, {"name": name, "op": op, "value": value, "reversed": rev, "_specifier": None})

            def thunk(ex, a=a):
                text = ex.call_function(str_f, [a], inline=True)
                if not isinstance(text, AtomText):
                    return (text, None)
                triple = (Token("Variable", text.var), Token("Op", text.op), Token("Value", text.lit)) if text.var_first else \
                         (Token("Value", text.lit), Token("Op", text.op), Token("Variable", text.var))
                return (text, ex.call_function(f, [triple], inline=True))

            def post(ex, v, a=a, op=op, rev=rev):
                text, back = v
                if not isinstance(text, AtomText):
                    return [("C07.atom.renders-as-an-atom", z3.BoolVal(False))]
                if not (isinstance(back, Obj) and back.cls.name == "MarkerExpression"):
                    return [("C07.atom.reparses-to-an-atom", z3.BoolVal(False))]
                fb = back.fields
                same_rev = fb.get("reversed") is rev or (z3.is_expr(fb.get("reversed")) and z3.is_true(z3.simplify(fb["reversed"] == rev)))
                # PEP 508 strings have no escapes: the literal is readable only if the quote character around it does not occur in it
                return [("C07.atom.quote-does-not-occur-in-the-literal", z3.Not(z3.Contains(a.fields["value"], z3.StringVal(text.quote)))),
                        ("C07.atom.written-operand-order", z3.BoolVal(text.var_first == (not rev))),
                        ("C07.atom.roundtrip-same-variable", fb["name"] == a.fields["name"]),
                        ("C07.atom.roundtrip-same-literal", fb["value"] == a.fields["value"]),
                        ("C07.atom.roundtrip-same-operator", z3.BoolVal(fb.get("op") == op)),
                        ("C07.atom.roundtrip-same-operand-order", z3.BoolVal(bool(same_rev)))]
            # a PEP 508 literal is written in one of the two quote characters and cannot contain that one: it never holds both
            lit_pre = [z3.Not(z3.And(z3.Contains(value, z3.StringVal('"')), z3.Contains(value, z3.StringVal("'"))))]
            yield {"name": f"roundtrip.{op}.{'literal-first' if rev else 'var-first'}", "pre": lit_pre, "thunk": thunk, "post": post, "args": ()}


def setup(ix):
    th = TreeTheory(ix)
    from pyvc.engine import Exec
    ax = th.axioms(lambda: Exec(ix, th), with_names=False)
    contracts = CM.all_contracts(th)
    c = BuildMarkers(th)
    contracts[Q] = c
    CM.install(th, contracts)
    specs = CM.loop_specs(th)
    specs[(Q, 0)] = LoopSpec({"or_groups": th.lshape}, c.inv)
    return th, ax, contracts, c, specs
