"""Combinator layer of the marker algebra (C02 / C12 / C15): contracts and loop invariants over abstract markers (T-MARK).
`ev` is evaluation at the ghost environment, `uses` mention of the ghost variable; both are pointwise ghosts."""
from __future__ import annotations

import z3

from pyvc.engine import Contract, LoopSpec
from pyvc.theories import marker as M
from pyvc.theories.marker import MK, ev, uses, cls_of, kids, nkids, eqm, is_cls, CID
from pyvc.values import AbsObj, AList, ClassRef, ListS, Obj, Opt, OutsideSubset, fresh_name

U = "dep_logic.utils:"
MM = "dep_logic.markers.multi:MultiMarker."
MU = "dep_logic.markers.union:MarkerUnion."


def at(l, i):
    return z3.Select(l.arr, i)


def fa(l, f, lo=0, hi=None):
    i = z3.Int(fresh_name("i"))
    return z3.ForAll([i], z3.Implies(z3.And(lo <= i, i < (l.n if hi is None else hi)), f(at(l, i))))


def ex_(l, f, lo=0, hi=None):
    i = z3.Int(fresh_name("e"))
    return z3.Exists([i], z3.And(lo <= i, i < (l.n if hi is None else hi), f(at(l, i))))


def fold(kind, l, f=ev, lo=0, hi=None):
    """conjunction (MultiMarker) / disjunction (MarkerUnion) of f over l[lo:hi]"""
    return fa(l, f, lo, hi) if kind == "MultiMarker" else ex_(l, f, lo, hi)


def distinct(l):
    i, j = z3.Int(fresh_name("p")), z3.Int(fresh_name("q"))
    return z3.ForAll([i, j], z3.Implies(z3.And(0 <= i, i < j, j < l.n), z3.Not(eqm(at(l, i), at(l, j)))))


def kind_of(c):
    return c.cinfo.name if isinstance(c, ClassRef) else None


def items_list(x):
    """the sequence a function iterates: an abstract list, or the children of an abstract compound"""
    if isinstance(x, AList):
        return x
    if isinstance(x, AbsObj):
        return AList(None, kids(x.term), z3.IntVal(0), nkids(x.term), True)
    raise OutsideSubset(f"items {x!r}")


def flat_facts(kind, L, items):
    """what C02 / C12 need of flatten_items: same meaning, same variables.  (That the result has no nested same-kind member and no
    duplicates is deliberately not part of the contract: of() removes duplicates itself, no listed property depends on it here.)"""
    src = items_list(items)
    return [("len", L.n >= 0),
            ("fold", fold(kind, L) == fold(kind, src)),
            ("uses", ex_(L, uses) == ex_(src, uses)),
            ("empty-iff", (L.n == 0) == fa(src, lambda t: z3.And(is_cls(t, kind), nkids(t) == 0)) if False else z3.BoolVal(True))]


class FlattenItems(Contract):
    target = U + "flatten_items"
    recursive = True

    def __init__(self, th):
        self.th = th

    def result(self, ex, args):
        return self.th.lshape.fresh("flat")

    def ensures(self, ex, args, result):
        kind = kind_of(args[1])
        if kind not in ("MultiMarker", "MarkerUnion") or not isinstance(result, AList):
            return [("flatten-class", z3.BoolVal(False))]
        return flat_facts(kind, result, args[0])

    def allowed_raise(self, ex, args, exc):
        return z3.BoolVal(False)

    def cases(self, th):
        for kind in ("MultiMarker", "MarkerUnion"):
            c = ClassRef(th.index.cls(kind))
            yield f"list-{kind}", [th.lshape.fresh("items"), c], []
            m = th.shape.fresh("compound")
            yield f"compound-{kind}", [m, c], [is_cls(m.term, kind)]

    @staticmethod
    def outer(st):
        kind = kind_of(st.loc("flatten_cls"))
        F = st.loc("flattened")
        src = items_list(st.loc("items"))
        return [("len", F.n >= 0), ("fold", fold(kind, F) == fold(kind, src, hi=st.k)),
                ("uses", ex_(F, uses) == ex_(src, uses, hi=st.k))]

    @staticmethod
    def inner(st):
        kind = kind_of(st.loc("flatten_cls"))
        F = st.loc("flattened")
        src = items_list(st.loc("items"))
        p = st.loc("__k0")
        S = st.seqs           # the recursive result being iterated
        comb = z3.And if kind == "MultiMarker" else z3.Or
        return [("len", F.n >= 0), ("outer-index", z3.And(0 <= p, p < src.n)),
                ("fold", fold(kind, F) == comb(fold(kind, src, hi=p), fold(kind, S, hi=st.k))),
                ("uses", ex_(F, uses) == z3.Or(ex_(src, uses, hi=p), ex_(S, uses, hi=st.k)))]


def comb_of(kind):
    return z3.And if kind == "MultiMarker" else z3.Or


class Of(Contract):
    """MultiMarker.of / MarkerUnion.of: the result evaluates as the conjunction / disjunction of the arguments and
    mentions only variables the arguments mention"""

    def __init__(self, th, kind):
        self.th, self.kind = th, kind
        self.target = (MM if kind == "MultiMarker" else MU) + "of"

    def result(self, ex, args):
        return self.th.shape.fresh("of")

    def ensures(self, ex, args, result):
        ms = args[1].alist if hasattr(args[1], "alist") else args[1]
        if not isinstance(result, AbsObj):
            return [("returns-marker", z3.BoolVal(False))]
        r = result.term
        return [("C02.ev", ev(r) == fold(self.kind, ms)), ("C12.uses", z3.Implies(uses(r), ex_(ms, uses)))]

    def allowed_raise(self, ex, args, exc):
        return z3.BoolVal(False)

    def cases(self, th):
        from pyvc.calls import StarArgs
        yield self.kind, [ClassRef(th.index.cls(self.kind)), StarArgs(th.lshape.fresh("markers"))], []

    # ---- invariants
    def outer(self, st):
        ms, new = st.pre("markers"), st.loc("new_markers")
        return [("len", new.n >= 0), ("fold", fold(self.kind, new) == fold(self.kind, ms)), ("uses", z3.Implies(ex_(new, uses), ex_(ms, uses)))]

    def middle(self, st):
        old, new = st.loc("old_markers"), st.loc("new_markers")
        return [("len", new.n >= 0), ("fold", comb_of(self.kind)(fold(self.kind, new), fold(self.kind, old, lo=st.k)) == fold(self.kind, old)),
                ("uses", z3.Implies(ex_(new, uses), ex_(old, uses)))]

    def inner(self, st):
        new, pre = st.loc("new_markers"), st.pre("new_markers")
        flag = st.loc("intersected" if self.kind == "MultiMarker" else "included")
        return [("unchanged", z3.And(new.arr == pre.arr, new.n == pre.n)), ("flag", z3.Not(flag) if z3.is_expr(flag) else z3.BoolVal(flag is False))]


def simplify_contract(th, kind):
    """MarkerUnion.intersect_simplify / MultiMarker.union_simplify at a call site: None, or a marker with the combined meaning"""
    comb = z3.And if kind == "MarkerUnion" else z3.Or      # intersect_simplify lives on MarkerUnion and intersects

    def fn(ex, self_obj, args):
        other = args[0]
        has = z3.Bool(fresh_name("simplified"))
        r = z3.Const(fresh_name("simp"), MK)
        ex.assume(z3.Implies(has, z3.And(ev(r) == comb(ev(self_obj.term), ev(other.term)), z3.Implies(uses(r), z3.Or(uses(self_obj.term), uses(other.term))))))
        return Opt(has, r, "marker")
    return fn


def binop_law(th):
    def law(ex, name, a, b):
        if not (isinstance(a, AbsObj) and isinstance(b, AbsObj)):
            raise OutsideSubset("marker operator with a non-marker operand")
        r = th.shape.fresh("op")
        comb = z3.And if name in ("__and__", "__rand__") else z3.Or
        ex.assume(ev(r.term) == comb(ev(a.term), ev(b.term)))
        ex.assume(z3.Implies(uses(r.term), z3.Or(uses(a.term), uses(b.term))))
        return r
    return law


def construct_compound(th, kind):
    """MultiMarker(*xs) / MarkerUnion(*xs): runs the real __init__ on a scratch object, then names the result"""
    def build(ex, args):
        cls = th.index.cls(kind)
        init, _ = th.index.find_method(cls, "__init__")
        o = Obj(cls)
        ex.call_function(init, [o] + list(args))
        L = o.fields["markers"]
        if not isinstance(L, AList):
            raise OutsideSubset("compound built from a concrete list")
        m = th.shape.fresh(kind.lower())
        ex.assume(z3.And(cls_of(m.term) == CID[kind], kids(m.term) == L.arr, nkids(m.term) == L.n))
        return m
    return build



# ---------------------------------------------------------------- C12: only / exclude / without_extras
from pyvc.theories.marker import X, name_of, in_names, inside, SINGLE, ANY, EMPTY   # noqa: E402
from pyvc.values import STR   # noqa: E402

SM = "dep_logic.markers.single:SingleMarker."
NAMES_SHAPE = ListS(STR, is_tuple=True)


def names_axiom(names):
    """definition of `in_names` for the marker_names tuple of this call"""
    s = z3.String(fresh_name("nm"))
    i = z3.Int(fresh_name("ni"))
    return z3.ForAll([s], in_names(s) == z3.Exists([i], z3.And(0 <= i, i < names.n, z3.Select(names.arr, i) == s)))


def exclude_law(ex, m, N):
    """what exclude(N) promises at a call site (the part of C12 proved for every class): the result never mentions N and
    mentions nothing m does not mention"""
    r = z3.Const(fresh_name("excl"), MK)
    ex.assume(z3.Implies(N == X, z3.Not(uses(r))))
    ex.assume(z3.Implies(uses(r), uses(m)))
    return r


def only_law(ex, m):
    r = z3.Const(fresh_name("only"), MK)
    ex.assume(z3.Implies(z3.Not(in_names(X)), z3.Not(uses(r))))
    ex.assume(z3.Implies(uses(r), uses(m)))
    ex.assume(z3.Implies(ev(m), ev(r)))
    ex.assume(z3.Implies(inside(m), ev(r) == ev(m)))
    return r


class Exclude(Contract):
    def __init__(self, th, owner, kinds, q, method="exclude"):
        self.th, self.kinds, self.method = th, kinds, method
        self.target = q + method
        self.owner = owner

    def cases(self, th):
        for k in self.kinds:
            m = th.shape.fresh("self")
            if self.method == "exclude":
                yield k, [m, z3.String(fresh_name("N"))], [is_cls(m.term, k)]
            else:
                yield k, [m], [is_cls(m.term, k)]

    def allowed_raise(self, ex, args, exc):
        return z3.BoolVal(False)

    def ensures(self, ex, args, result):
        if not isinstance(result, AbsObj):
            return [("returns-marker", z3.BoolVal(False))]
        m, r = args[0].term, result.term
        N = args[1] if self.method == "exclude" else z3.StringVal("extra")
        cl = [("C12.exclude.never-mentions-removed", z3.Implies(N == X, z3.Not(uses(r)))),
              ("C12.exclude.mentions-nothing-new", z3.Implies(uses(r), uses(m)))]
        if self.owner == "single":
            cl.append(("C12.exclude.unchanged-when-absent", z3.Implies(name_of(m) != N, r == m)))
        if self.owner in ("any", "empty"):
            cl.append(("C12.exclude.unchanged-when-absent", r == m))
        return cl

    def result(self, ex, args):
        return self.th.shape.fresh("excl")

    def loop0(self, st):
        new = st.loc("new_markers")
        N = st.loc("marker_name")
        return [("len", new.n >= 0), ("never-mentions-removed", z3.Implies(N == X, fa(new, lambda t: z3.Not(uses(t))))),
                ("mentions-nothing-new", z3.Implies(ex_(new, uses), uses(st.loc("self").term)))]


class Only(Contract):
    def __init__(self, th, owner, kinds, q):
        self.th, self.kinds, self.owner = th, kinds, owner
        self.target = q + "only"

    def cases(self, th):
        from pyvc.calls import StarArgs
        for k in self.kinds:
            m = th.shape.fresh("self")
            names = NAMES_SHAPE.fresh("marker_names")
            yield k, [m, StarArgs(names)], [is_cls(m.term, k), names.n >= 0, names_axiom(names)]

    def allowed_raise(self, ex, args, exc):
        return z3.BoolVal(False)

    def ensures(self, ex, args, result):
        if not isinstance(result, AbsObj):
            return [("returns-marker", z3.BoolVal(False))]
        m, r = args[0].term, result.term
        cl = [("C12.only.mentions-only-given-names", z3.Implies(z3.Not(in_names(X)), z3.Not(uses(r)))),
              ("C12.only.mentions-nothing-new", z3.Implies(uses(r), uses(m))),
              ("C12.only.implied-by-marker", z3.Implies(ev(m), ev(r))),
              ("C12.only.same-when-only-those-names", z3.Implies(inside(m), ev(r) == ev(m)))]
        return cl

    def result(self, ex, args):
        return self.th.shape.fresh("only")

    def comp(self, st):
        kind = self.kinds[0]
        acc = st.loc("__acc")
        me = st.loc("self").term
        K = AList(None, kids(me), z3.IntVal(0), nkids(me))
        k = st.k
        i = z3.Int(fresh_name("ci"))
        mono = z3.Implies(fold(kind, K, hi=k), fold(kind, acc)) if kind == "MultiMarker" else z3.Implies(ex_(K, ev, hi=k), ex_(acc, ev))
        return [("len", acc.n == k), ("only-given-names", z3.Implies(z3.Not(in_names(X)), fa(acc, lambda t: z3.Not(uses(t))))),
                ("nothing-new", z3.Implies(ex_(acc, uses), ex_(K, uses, hi=k))), ("implied", mono),
                ("same", z3.Implies(fa(K, inside, hi=k), z3.ForAll([i], z3.Implies(z3.And(0 <= i, i < k), ev(at(acc, i)) == ev(at(K, i))))))]


def c12_contracts(th):
    out = [Exclude(th, "single", SINGLE, SM), Exclude(th, "single", SINGLE, SM, "without_extras"), Only(th, "single", SINGLE, SM)]
    for owner, kind, q in (("multi", "MultiMarker", MM), ("union", "MarkerUnion", MU)):
        out += [Exclude(th, owner, [kind], q), Exclude(th, owner, [kind], q, "without_extras"), Only(th, owner, [kind], q)]
    for owner, kind, q in (("any", "AnyMarker", "dep_logic.markers.any:AnyMarker."), ("empty", "EmptyMarker", "dep_logic.markers.empty:EmptyMarker.")):
        out += [Exclude(th, owner, [kind], q), Exclude(th, owner, [kind], q, "without_extras"), Only(th, owner, [kind], q)]
    return out



# ---------------------------------------------------------------- C02: utils.intersection / union / cnf / dnf, class operators
def star(l):
    from pyvc.calls import StarArgs
    return StarArgs(l)


def alist_of(x):
    x = x.alist if hasattr(x, "alist") else x
    if isinstance(x, (tuple, list)):
        arr = z3.K(z3.IntSort(), ANY)
        for i, m in enumerate(x):
            arr = z3.Store(arr, i, m.term)
        return AList(None, arr, z3.IntVal(0), z3.IntVal(len(x)), True)
    return x


class NormalForm(Contract):
    """cnf(m) / dnf(m): same meaning, no new variables.  Verified for compounds of the *same* kind and for leaves;
    the distributive branch (itertools.product over the children's children) is an assumed contract guarded by the bounded part."""
    assumed_cases = ["distributive branch: cnf of a MarkerUnion / dnf of a MultiMarker"]

    def __init__(self, th, which):
        self.th, self.which = th, which
        self.target = U + which
        self.recursive = True

    def result(self, ex, args):
        return self.th.shape.fresh(self.which)

    def ensures(self, ex, args, result):
        if not isinstance(result, AbsObj):
            return [("returns-marker", z3.BoolVal(False))]
        m, r = args[0].term, result.term
        return [("C02.ev", ev(r) == ev(m)), ("C12.uses", z3.Implies(uses(r), uses(m)))]

    def allowed_raise(self, ex, args, exc):
        return z3.BoolVal(False)

    def cases(self, th):
        same = "MultiMarker" if self.which == "cnf" else "MarkerUnion"
        for k in [same, "MarkerExpression", "EqualityMarkerUnion", "InequalityMultiMarker", "AnyMarker", "EmptyMarker"]:
            m = th.shape.fresh("marker")
            yield k, [m], [is_cls(m.term, k)]

    def comp(self, st):
        acc = st.loc("__acc")
        me = st.loc("marker").term
        K = AList(None, kids(me), z3.IntVal(0), nkids(me))
        i = z3.Int(fresh_name("ci"))
        return [("len", acc.n == st.k), ("pointwise", z3.ForAll([i], z3.Implies(z3.And(0 <= i, i < st.k), z3.And(ev(at(acc, i)) == ev(at(K, i)), z3.Implies(uses(at(acc, i)), uses(at(K, i)))))))]


# ---------------------------------------------------------------- the distributive branch of cnf / dnf
from pyvc.values import Shape   # noqa: E402

MListDT = z3.Datatype("MarkerList")
MListDT.declare("mk", ("items", z3.ArraySort(z3.IntSort(), MK)), ("len", z3.IntSort()))
MListDT = MListDT.create()


class MListShape(Shape):
    """a list / tuple of markers as one value (element of a list of lists)"""
    sort = MListDT

    def __init__(self, th):
        self.th = th

    def fresh(self, name):
        return self.dec(z3.Const(fresh_name(name), MListDT))

    def enc(self, v):
        if isinstance(v, AList):
            return MListDT.mk(v.arr, v.n)
        if isinstance(v, (list, tuple)) and len(v) == 1:
            return MListDT.mk(z3.K(z3.IntSort(), self.th.shape.enc(v[0])), z3.IntVal(1))
        if z3.is_expr(v) and v.sort() == MListDT:
            return v
        raise OutsideSubset(f"not a list of markers: {v!r}")

    def dec(self, t):
        return AList(self.th.shape, MListDT.items(t), z3.IntVal(0), MListDT.len(t), True)


def mem_ml(t, x):
    i = z3.Int(fresh_name("pm"))
    return z3.Exists([i], z3.And(0 <= i, i < MListDT.len(t), z3.Select(MListDT.items(t), i) == x))


def all_ml(t, f):
    i = z3.Int(fresh_name("pa"))
    return z3.ForAll([i], z3.Implies(z3.And(0 <= i, i < MListDT.len(t)), f(z3.Select(MListDT.items(t), i))))


def any_ml(t, f):
    i = z3.Int(fresh_name("pe"))
    return z3.Exists([i], z3.And(0 <= i, i < MListDT.len(t), f(z3.Select(MListDT.items(t), i))))


def product_contract(th):
    """A-STDLIB, itertools.product(*lists) over an abstract list of marker lists: every tuple has one member of each list in order (P1); the
    product is empty iff some list is (P0); and it contains the tuple picked by a choice function - stated for the two choice functions the
    distributive law needs: `a member that evaluates false if there is one` and `a member that evaluates true if there is one` (P2, instances of
    'the product contains every choice')."""
    mlshape = th.mlshape

    def product(ex, lists):
        P = ListS(mlshape, is_tuple=False).fresh("product")
        K = lists.n
        j, k = z3.Int(fresh_name("pj")), z3.Int(fresh_name("pk"))
        Lk = z3.Select(lists.arr, k)
        Pj = z3.Select(P.arr, j)
        ex.assume(P.n >= 0)
        ex.assume(z3.ForAll([j], z3.Implies(z3.And(0 <= j, j < P.n), z3.And(MListDT.len(Pj) == K,
                  z3.ForAll([k], z3.Implies(z3.And(0 <= k, k < K), mem_ml(Lk, z3.Select(MListDT.items(Pj), k))))))))
        some_empty = z3.Exists([k], z3.And(0 <= k, k < K, MListDT.len(Lk) <= 0))
        ex.assume((P.n == 0) == some_empty)
        for tag_, want in (("F", False), ("T", True)):
            pick = z3.Function(fresh_name("pick" + tag_), z3.IntSort(), MK)
            lit = (lambda x: z3.Not(ev(x))) if not want else ev
            ex.assume(z3.ForAll([k], z3.Implies(z3.And(0 <= k, k < K, MListDT.len(Lk) >= 1),
                                                z3.And(mem_ml(Lk, pick(k)), z3.Implies(any_ml(Lk, lit), lit(pick(k)))))))
            ex.assume(z3.Implies(z3.Not(some_empty), z3.Exists([j], z3.And(0 <= j, j < P.n,
                                 z3.ForAll([k], z3.Implies(z3.And(0 <= k, k < K), z3.Select(MListDT.items(Pj), k) == pick(k)))))))
        return P
    return product


class Distribute(NormalForm):
    """the distributive branch: cnf of a MarkerUnion / dnf of a MultiMarker"""
    assumed_cases = []

    def __init__(self, th, which):
        super().__init__(th, which)
        self.key = self.target + "@distributive"
        self.outer = "MarkerUnion" if which == "cnf" else "MultiMarker"        # class of the input handled by this branch
        self.inner = "MultiMarker" if which == "cnf" else "MarkerUnion"        # class whose members are spread

    def cases(self, th):
        m = th.shape.fresh("marker")
        yield self.outer, [m], [is_cls(m.term, self.outer)]

    # comprehension 0: [cnf(m) for m in marker.markers] - NormalForm.comp
    # comprehension 1: [m.markers if isinstance(m, Inner) else [m] for m in cnf_markers]
    def comp_lists(self, st):
        acc = st.loc("__acc")
        src = st.loc(self.which + "_markers")
        i = z3.Int(fresh_name("li"))
        si = at(src, i)
        li = z3.Select(acc.arr, i)
        inner_all = all_ml if self.inner == "MultiMarker" else any_ml
        rng = z3.And(0 <= i, i < st.k)
        return [("len", acc.n == st.k),
                ("lengths", z3.ForAll([i], z3.Implies(rng, MListDT.len(li) >= 0))),
                ("pointwise.ev", z3.ForAll([i], z3.Implies(rng, inner_all(li, ev) == ev(si)))),
                ("pointwise.uses", z3.ForAll([i], z3.Implies(rng, z3.Implies(any_ml(li, uses), uses(si)))))]

    # comprehension 2: [Outer.of(*c) for c in itertools.product(*sub_marker_lists)]
    def comp_product(self, st):
        acc = st.loc("__acc")
        P = st.seqs
        j = z3.Int(fresh_name("qj"))
        pj = z3.Select(P.arr, j)
        outer_any = any_ml if self.outer == "MarkerUnion" else all_ml
        rng = z3.And(0 <= j, j < st.k)
        return [("len", acc.n == st.k),
                ("pointwise.ev", z3.ForAll([j], z3.Implies(rng, ev(at(acc, j)) == outer_any(pj, ev)))),
                ("pointwise.uses", z3.ForAll([j], z3.Implies(rng, z3.Implies(uses(at(acc, j)), any_ml(pj, uses)))))]


class Intersection(Contract):
    target = U + "intersection"

    def __init__(self, th):
        self.th = th

    def result(self, ex, args):
        return self.th.shape.fresh("inter")

    def ensures(self, ex, args, result):
        ms = alist_of(args[0])
        if not isinstance(result, AbsObj):
            return [("returns-marker", z3.BoolVal(False))]
        return [("C02.ev", ev(result.term) == fold("MultiMarker", ms)), ("C12.uses", z3.Implies(uses(result.term), ex_(ms, uses)))]

    def allowed_raise(self, ex, args, exc):
        return z3.BoolVal(False)

    def cases(self, th):
        yield "markers", [star(th.lshape.fresh("markers"))], []


class UnionFn(Contract):
    target = U + "union"

    def __init__(self, th):
        self.th = th

    def result(self, ex, args):
        return self.th.shape.fresh("union")

    def ensures(self, ex, args, result):
        ms = alist_of(args[0])
        if not isinstance(result, AbsObj):
            return [("returns-marker", z3.BoolVal(False))]
        return [("C02.ev", ev(result.term) == fold("MarkerUnion", ms)), ("C12.uses", z3.Implies(uses(result.term), ex_(ms, uses)))]

    def allowed_raise(self, ex, args, exc):
        return z3.BoolVal(False)

    def cases(self, th):
        yield "markers", [star(th.lshape.fresh("markers"))], []

    @staticmethod
    def filt(st):
        """generator `m for m in markers if not m.is_empty()`"""
        acc, ms = st.loc("__acc"), st.loc("markers")
        return [("len", acc.n >= 0), ("ev", ex_(acc, ev) == ex_(ms, ev, hi=st.k)), ("uses", z3.Implies(ex_(acc, uses), ex_(ms, uses, hi=st.k)))]

    @staticmethod
    def unwrap(st):
        u = st.loc("unnormalized")
        ms = st.loc("markers")
        if not isinstance(u, AbsObj):
            return [("is-marker", z3.BoolVal(False))]
        return [("ev", ev(u.term) == ex_(ms, ev)), ("uses", z3.Implies(uses(u.term), ex_(ms, uses)))]


class ClassOp(Contract):
    """__and__ / __or__ of AnyMarker, EmptyMarker, MultiMarker, MarkerUnion on an arbitrary marker operand"""

    def __init__(self, th, q, kind, op):
        self.th, self.kind, self.op = th, kind, op
        self.target = q + op

    def result(self, ex, args):
        return self.th.shape.fresh("op")

    def ensures(self, ex, args, result):
        if not isinstance(result, AbsObj):
            return [("returns-marker", z3.BoolVal(False))]
        a, b2, r = args[0].term, args[1].term, result.term
        comb = z3.And if self.op == "__and__" else z3.Or
        return [("C02.ev", ev(r) == comb(ev(a), ev(b2))), ("C12.uses", z3.Implies(uses(r), z3.Or(uses(a), uses(b2))))]

    def allowed_raise(self, ex, args, exc):
        return z3.BoolVal(False)

    def cases(self, th):
        a, b2 = th.shape.fresh("self"), th.shape.fresh("other")
        yield self.kind, [a, b2], [is_cls(a.term, self.kind)]


class Simplify(Contract):
    """MultiMarker.union_simplify / MarkerUnion.intersect_simplify: None, or a marker that evaluates as the union / intersection of
    self and other and mentions no new variable (the contract the of() loops assume at their call sites)"""

    def __init__(self, th, kind):
        self.th, self.kind = th, kind
        self.target = (MM + "union_simplify") if kind == "MultiMarker" else (MU + "intersect_simplify")
        self.comb = z3.Or if kind == "MultiMarker" else z3.And

    def cases(self, th):
        me, other = th.shape.fresh("self"), th.shape.fresh("other")
        yield self.kind, [me, other], [is_cls(me.term, self.kind)]

    def allowed_raise(self, ex, args, exc):
        return z3.BoolVal(False)

    def result(self, ex, args):
        raise OutsideSubset("simplify contracts are used through the method contract at call sites")

    def ensures(self, ex, args, result):
        if result is None:
            return [("C02.simplify.none-allowed", z3.BoolVal(True))]
        if not isinstance(result, AbsObj):
            return [("returns-marker-or-none", z3.BoolVal(False))]
        a, o, r = args[0].term, args[1].term, result.term
        return [("C02.simplify.ev", ev(r) == self.comb(ev(a), ev(o))), ("C12.simplify.uses", z3.Implies(uses(r), z3.Or(uses(a), uses(o))))]

    def comp(self, st):
        """common_markers = [m for m in self.markers if m in shared_markers]: exactly the members of self seen so far that are shared"""
        acc = st.loc("__acc")
        me = st.loc("self").term
        K = AList(self.th.shape, kids(me), z3.IntVal(0), nkids(me))
        S = st.loc("shared_markers").lst
        k = st.k
        c, i, j, q = (z3.Int(fresh_name(n)) for n in ("cc", "ci", "cj", "cq"))
        mem_S = lambda x: z3.Exists([j], z3.And(0 <= j, j < S.n, eqm(at(S, j), x)))
        return [("len", acc.n >= 0),
                ("members-of-self-and-shared", z3.ForAll([c], z3.Implies(z3.And(0 <= c, c < acc.n),
                                                                       z3.And(z3.Exists([i], z3.And(0 <= i, i < k, eqm(at(K, i), at(acc, c)))), mem_S(at(acc, c)))))),
                ("all-shared-members-kept", z3.ForAll([i], z3.Implies(z3.And(0 <= i, i < k, mem_S(at(K, i))),
                                                                    z3.Exists([q], z3.And(0 <= q, q < acc.n, eqm(at(acc, q), at(K, i)))))))]


def c02_contracts(th):
    out = [NormalForm(th, "cnf"), NormalForm(th, "dnf"), Intersection(th), UnionFn(th)]
    for q, kind in (("dep_logic.markers.any:AnyMarker.", "AnyMarker"), ("dep_logic.markers.empty:EmptyMarker.", "EmptyMarker"), (MM, "MultiMarker"), (MU, "MarkerUnion")):
        out += [ClassOp(th, q, kind, "__and__"), ClassOp(th, q, kind, "__or__")]
    return out



# ---------------------------------------------------------------- C07: parenthesisation of compound renderings
from pyvc.theories.marker import DOC, doc_of, paren, dkind, dsem, K_ATOM, K_AND, K_OR, K_PAREN, K_EMPTYTOK, K_ANYTOK, Joined   # noqa: E402


def ok_in_and(d):
    """an operand of an `and`-join must not be an unparenthesised `or`-join, nor the <empty>/'' tokens"""
    return z3.Or(dkind(d) == K_ATOM, dkind(d) == K_AND, dkind(d) == K_PAREN)


def ok_in_or(d):
    return z3.Or(dkind(d) == K_ATOM, dkind(d) == K_AND, dkind(d) == K_OR, dkind(d) == K_PAREN)


def ok_under_paren(d):
    return z3.Or(dkind(d) == K_ATOM, dkind(d) == K_AND, dkind(d) == K_OR, dkind(d) == K_PAREN)


class Str(Contract):
    """MultiMarker.__str__ / MarkerUnion.__str__ on a normal-form compound (no empty/universal child): the text is a join whose
    operands parse, under PEP 508 precedence, to the children's meanings (so the join parses to the compound's meaning)"""

    def __init__(self, th, kind, q):
        self.th, self.kind = th, kind
        self.target = q + "__str__"

    def cases(self, th):
        m = th.shape.fresh("self")
        K = AList(None, kids(m.term), z3.IntVal(0), nkids(m.term))
        yield self.kind, [m], [is_cls(m.term, self.kind), fa(K, lambda t: z3.Not(is_cls(t, "AnyMarker", "EmptyMarker")))]

    def allowed_raise(self, ex, args, exc):
        return z3.BoolVal(False)

    def ensures(self, ex, args, result):
        m = args[0].term
        if not isinstance(result, Joined):
            return [("C07.returns-a-join", z3.BoolVal(False))]
        docs = result.docs
        K = AList(None, kids(m), z3.IntVal(0), nkids(m))
        i = z3.Int(fresh_name("i"))
        ok = ok_in_and if self.kind == "MultiMarker" else ok_in_or
        return [("C07.join-operator", z3.BoolVal(result.op == ("and" if self.kind == "MultiMarker" else "or"))),
                ("C07.one-operand-per-child", docs.n == K.n),
                ("C07.operands-parse-at-this-precedence", z3.ForAll([i], z3.Implies(z3.And(0 <= i, i < docs.n), ok(at(docs, i))))),
                ("C07.operands-mean-the-children", z3.ForAll([i], z3.Implies(z3.And(0 <= i, i < docs.n), dsem(at(docs, i)) == ev(at(K, i)))))]

    def inv(self, st):
        docs = st.loc("elements" if self.kind == "MultiMarker" else "__acc")
        m = st.loc("self").term
        K = AList(None, kids(m), z3.IntVal(0), nkids(m))
        i = z3.Int(fresh_name("i"))
        ok = ok_in_and if self.kind == "MultiMarker" else ok_in_or
        return [("len", docs.n == st.k), ("parse", z3.ForAll([i], z3.Implies(z3.And(0 <= i, i < docs.n), ok(at(docs, i))))),
                ("mean", z3.ForAll([i], z3.Implies(z3.And(0 <= i, i < docs.n), dsem(at(docs, i)) == ev(at(K, i)))))]


def c07_contracts(th):
    return [Str(th, "MultiMarker", MM), Str(th, "MarkerUnion", MU)]


def all_contracts(th):
    th.mlshape = getattr(th, "mlshape", None) or MListShape(th)
    cs = [FlattenItems(th), Of(th, "MultiMarker"), Of(th, "MarkerUnion"), Simplify(th, "MultiMarker"), Simplify(th, "MarkerUnion")] + c12_contracts(th) + c02_contracts(th) + c07_contracts(th)
    cs += [Distribute(th, "cnf"), Distribute(th, "dnf")]
    return {getattr(c, "key", c.target): c for c in cs}


def install(th, contracts):
    """hooks the law/method contracts used at call sites on abstract markers into the theory"""
    th.binop_law = binop_law(th)
    th.method_contracts["intersect_simplify"] = simplify_contract(th, "MarkerUnion")
    th.method_contracts["union_simplify"] = simplify_contract(th, "MultiMarker")
    th.construct_law["MultiMarker"] = construct_compound(th, "MultiMarker")
    th.construct_law["MarkerUnion"] = construct_compound(th, "MarkerUnion")
    th.method_contracts["exclude"] = lambda ex, o, args: AbsObj(exclude_law(ex, o.term, args[0] if not isinstance(args[0], str) else z3.StringVal(args[0])), th)
    th.method_contracts["without_extras"] = lambda ex, o, args: AbsObj(exclude_law(ex, o.term, z3.StringVal("extra")), th)
    th.method_contracts["only"] = lambda ex, o, args: AbsObj(only_law(ex, o.term), th)
    for kind, q in (("MultiMarker", MM), ("MarkerUnion", MU)):
        pass
    th.method_contracts["of"] = None
    th.mlshape = MListShape(th)
    th.product_contract = product_contract(th)


def loop_specs(th):
    from pyvc.values import BOOL
    L = th.lshape
    specs = {(U + "flatten_items", 0): LoopSpec({"flattened": L}, FlattenItems.outer),
             (U + "flatten_items", 1): LoopSpec({"flattened": L}, FlattenItems.inner)}
    for kind, q, flag in (("MultiMarker", MM, "intersected"), ("MarkerUnion", MU, "included")):
        c = Of(th, kind)
        specs[(q + "of", 0)] = LoopSpec({"old_markers": L, "new_markers": L}, c.outer)
        specs[(q + "of", 1)] = LoopSpec({"new_markers": L}, c.middle)
        specs[(q + "of", 2)] = LoopSpec({"new_markers": L, flag: BOOL}, c.inner)
    nf_c, nf_d = NormalForm(th, "cnf"), NormalForm(th, "dnf")
    # cnf: ordinals 0,1,2 = the three comprehensions of the MarkerUnion branch (assumed), 3 = the MultiMarker branch; dnf dually
    specs[(U + "cnf", 3)] = (L, [LoopSpec({"__acc": L}, nf_c.comp)])
    specs[(U + "dnf", 3)] = (L, [LoopSpec({"__acc": L}, nf_d.comp)])
    for which, nf in (("cnf", nf_c), ("dnf", nf_d)):
        d = Distribute(th, which)
        ML = ListS(th.mlshape)
        specs[(U + which, 0)] = (L, [LoopSpec({"__acc": L}, nf.comp)])
        specs[(U + which, 1)] = (ML, [LoopSpec({"__acc": ML}, d.comp_lists)])
        specs[(U + which, 2)] = (L, [LoopSpec({"__acc": L}, d.comp_product)])
    specs[(U + "union", 1)] = (L, [LoopSpec({"__acc": L}, UnionFn.filt)])
    specs[(U + "union", 2)] = LoopSpec({"unnormalized": th.shape}, UnionFn.unwrap)
    for kind in ("MultiMarker", "MarkerUnion"):
        sc = Simplify(th, kind)
        specs[(sc.target, 0)] = (L, [LoopSpec({"__acc": L}, sc.comp)])
    DL = ListS(th.dshape)
    sm, su = c07_contracts(th)
    specs[(sm.target, 0)] = LoopSpec({"elements": DL}, sm.inv)
    specs[(su.target, 0)] = (DL, [LoopSpec({"__acc": DL}, su.inv)])
    for c in c12_contracts(th):
        if c.owner in ("multi", "union"):
            if isinstance(c, Exclude) and c.method == "exclude":
                specs[(c.target, 0)] = LoopSpec({"new_markers": L}, c.loop0)
            if isinstance(c, Only):
                specs[(c.target, 0)] = (L, [LoopSpec({"__acc": L}, c.comp)])
    return specs
