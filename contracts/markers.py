"""Combinator layer of the marker algebra (C02 / C12 / C15): contracts and loop invariants over abstract markers (T-MARK).
`ev` is evaluation at the ghost environment, `uses` mention of the ghost variable; both are pointwise ghosts."""
from __future__ import annotations

import z3

from pyvc.engine import Contract, LoopSpec
from pyvc.theories import marker as M
from pyvc.theories.marker import MK, ev, uses, cls_of, kids, nkids, eqm, is_cls, CID
from pyvc.values import AbsObj, AList, ClassRef, ListS, Obj, Opt, OutsideSubset, fresh_name

U = "dep_logic.utils:"
MM = "dep_logic.markers.multi:MultiMarker."
MU = "dep_logic.markers.union:MarkerUnion."


def at(l, i):
    return z3.Select(l.arr, i)


def fa(l, f, lo=0, hi=None):
    i = z3.Int(fresh_name("i"))
    return z3.ForAll([i], z3.Implies(z3.And(lo <= i, i < (l.n if hi is None else hi)), f(at(l, i))))


def ex_(l, f, lo=0, hi=None):
    i = z3.Int(fresh_name("e"))
    return z3.Exists([i], z3.And(lo <= i, i < (l.n if hi is None else hi), f(at(l, i))))


def fold(kind, l, f=ev, lo=0, hi=None):
    """conjunction (MultiMarker) / disjunction (MarkerUnion) of f over l[lo:hi]"""
    return fa(l, f, lo, hi) if kind == "MultiMarker" else ex_(l, f, lo, hi)


def distinct(l):
    i, j = z3.Int(fresh_name("p")), z3.Int(fresh_name("q"))
    return z3.ForAll([i, j], z3.Implies(z3.And(0 <= i, i < j, j < l.n), z3.Not(eqm(at(l, i), at(l, j)))))


def kind_of(c):
    return c.cinfo.name if isinstance(c, ClassRef) else None


def items_list(x):
    """the sequence a function iterates: an abstract list, or the children of an abstract compound"""
    if isinstance(x, AList):
        return x
    if isinstance(x, AbsObj):
        return AList(None, kids(x.term), z3.IntVal(0), nkids(x.term), True)
    raise OutsideSubset(f"items {x!r}")


def flat_facts(kind, L, items):
    src = items_list(items)
    return [("len", L.n >= 0),
            ("fold", fold(kind, L) == fold(kind, src)),
            ("no-nested", fa(L, lambda t: z3.Not(is_cls(t, kind)))),
            ("distinct", distinct(L)),
            ("uses", ex_(L, uses) == ex_(src, uses)),
            ("empty-iff", (L.n == 0) == fa(src, lambda t: z3.And(is_cls(t, kind), nkids(t) == 0)) if False else z3.BoolVal(True))]


class FlattenItems(Contract):
    target = U + "flatten_items"
    recursive = True

    def __init__(self, th):
        self.th = th

    def result(self, ex, args):
        return self.th.lshape.fresh("flat")

    def ensures(self, ex, args, result):
        kind = kind_of(args[1])
        if kind not in ("MultiMarker", "MarkerUnion") or not isinstance(result, AList):
            return [("flatten-class", z3.BoolVal(False))]
        return flat_facts(kind, result, args[0])

    def allowed_raise(self, ex, args, exc):
        return z3.BoolVal(False)

    def cases(self, th):
        for kind in ("MultiMarker", "MarkerUnion"):
            c = ClassRef(th.index.cls(kind))
            yield f"list-{kind}", [th.lshape.fresh("items"), c], []
            m = th.shape.fresh("compound")
            yield f"compound-{kind}", [m, c], [is_cls(m.term, kind)]

    @staticmethod
    def outer(st):
        kind = kind_of(st.loc("flatten_cls"))
        F = st.loc("flattened")
        src = items_list(st.loc("items"))
        return [("len", F.n >= 0), ("fold", fold(kind, F) == fold(kind, src, hi=st.k)),
                ("no-nested", fa(F, lambda t: z3.Not(is_cls(t, kind)))), ("distinct", distinct(F)),
                ("uses", ex_(F, uses) == ex_(src, uses, hi=st.k))]

    @staticmethod
    def inner(st):
        kind = kind_of(st.loc("flatten_cls"))
        F = st.loc("flattened")
        src = items_list(st.loc("items"))
        p = st.loc("__k0")
        S = st.seqs           # the recursive result being iterated
        comb = z3.And if kind == "MultiMarker" else z3.Or
        return [("len", F.n >= 0), ("outer-index", z3.And(0 <= p, p < src.n)),
                ("fold", fold(kind, F) == comb(fold(kind, src, hi=p), fold(kind, S, hi=st.k))),
                ("no-nested", fa(F, lambda t: z3.Not(is_cls(t, kind)))), ("distinct", distinct(F)),
                ("uses", ex_(F, uses) == z3.Or(ex_(src, uses, hi=p), ex_(S, uses, hi=st.k)))]


def loop_specs(th):
    L = th.lshape
    return {(U + "flatten_items", 0): LoopSpec({"flattened": L}, FlattenItems.outer),
            (U + "flatten_items", 1): LoopSpec({"flattened": L}, FlattenItems.inner)}


def all_contracts(th):
    cs = [FlattenItems(th)]
    return {c.target: c for c in cs}


def install(th, contracts):
    """hooks the law/method contracts used at call sites on abstract markers into the theory"""
    pass
