"""C09: Platform.compatible_tags against the set-builder rules of PEP 600 / PEP 656 / macOS, for *all* integer
versions (no bound), on abstract tags (T-TAG).  One case per (OS class, architecture); loops over symbolic version
ranges carry invariants (sound / ordered / complete), loops over concrete format lists are unrolled."""
from __future__ import annotations

import z3

from pyvc.engine import LoopSpec
from pyvc.theories.tags import FmtDT, is_template, tag, tid_of
from pyvc.values import AList, ListS, Obj, fresh_name

Q = "dep_logic.tags.platform:Platform.compatible_tags"
ARCHS = {"Aarch64": "aarch64", "Armv6L": "armv6l", "Armv7L": "armv7l", "Powerpc64Le": "ppc64le", "Powerpc64": "ppc64", "X86": "x86", "X86_64": "x86_64",
         "S390X": "s390x", "RISCV64": "riscv64", "LoongArch64": "loongarch64"}
FLOOR = {"aarch64": 17, "armv7l": 17, "ppc64": 17, "ppc64le": 17, "s390x": 17, "riscv64": 17, "x86": 5, "x86_64": 5}   # PEP 600 / 599 / 571 / 513
ALIAS = {17: "manylinux2014_{a}", 12: "manylinux2010_{a}", 5: "manylinux1_{a}"}
MAC_FORMATS = {"x86_64": ["x86_64", "intel", "fat64", "fat32", "universal2", "universal"], "aarch64": ["arm64", "universal2"]}
CLAIMED_RANK = {"x86_64": 5, "arm64": 5, "intel": 4, "universal2": 1, "universal": 0}      # fat* formats are not claimed


def at(l, i):
    return z3.Select(l.arr, i)


def forall(l, f):
    i = z3.Int(fresh_name("i"))
    return z3.ForAll([i], z3.Implies(z3.And(0 <= i, i < l.n), f(at(l, i))))


def ordered(l, rank, claimed=None):
    i, j = z3.Int(fresh_name("p")), z3.Int(fresh_name("q"))
    body = rank(at(l, i)) > rank(at(l, j))
    if claimed is not None:
        body = z3.Implies(z3.And(claimed(at(l, i)), claimed(at(l, j))), body)
    return z3.ForAll([i, j], z3.Implies(z3.And(0 <= i, i < j, j < l.n), body))


def complete(l, rule):
    t = z3.Const(fresh_name("t"), FmtDT)
    i = z3.Int(fresh_name("w"))
    return z3.ForAll([t], z3.Implies(rule(t), z3.Exists([i], z3.And(0 <= i, i < l.n, at(l, i) == t))))


# ---------------------------------------------------------------- rules (from the property statement)
class Manylinux:
    def __init__(self, a, major, M):
        self.a, self.major, self.M = a, major, M
        self.floor = FLOOR.get(a)
        self.ml = f"manylinux_{{}}_{{}}_{a}"

    def rule(self, t, lo=None):
        """tags with minor K, lo < K <= M (lo=None: the whole rule incl. linux_<arch>)"""
        cl = []
        if self.floor is not None:
            low = self.floor - 1 if lo is None else lo
            K = FmtDT.a2(t)
            cl.append(z3.And(is_template(t, self.ml), FmtDT.a1(t) == self.major, FmtDT.a3(t) == 0, K >= self.floor, K > low, K <= self.M))
            for k, al in ALIAS.items():
                cl.append(z3.And(t == tag(al.format(a=self.a)), k >= self.floor, k > low, k <= self.M))
        if lo is None:
            cl.append(t == tag(f"linux_{self.a}"))
        return z3.Or(*cl) if cl else z3.BoolVal(False)

    def rank(self, t):
        r = z3.If(is_template(t, self.ml), 2 * FmtDT.a2(t) + 1, z3.IntVal(-1))
        for k, al in ALIAS.items():
            r = z3.If(t == tag(al.format(a=self.a)), z3.IntVal(2 * k), r)
        return r

    def invariant(self, st):
        T = st.loc("platform_tags")
        cur = self.M - st.k          # next minor to be processed; minors in (cur, M] are done
        return [("len", T.n >= 0), ("progress", z3.Or(cur >= self.floor - 1, st.k == 0)),
                ("sound", forall(T, lambda t: self.rule(t, cur))), ("ordered", ordered(T, self.rank)),
                ("complete", complete(T, lambda t: self.rule(t, cur)))]


class Musllinux:
    def __init__(self, a, major, M):
        self.a, self.major, self.M = a, major, M
        self.mu = f"musllinux_{{}}_{{}}_{a}"

    def rule(self, t, hi=None):
        hi = self.M if hi is None else hi
        K = FmtDT.a2(t)
        return z3.Or(t == tag(f"linux_{self.a}"), z3.And(is_template(t, self.mu), FmtDT.a1(t) == self.major, FmtDT.a3(t) == 0, 1 <= K, K <= hi))

    def invariant(self, st):
        T = st.loc("platform_tags")
        done = st.k                   # minors 1..k are done
        return [("len", T.n >= 0), ("sound", forall(T, lambda t: self.rule(t, done))), ("complete", complete(T, lambda t: self.rule(t, done)))]


class Mac:
    """macosx_A_B_<fmt>: releases 10.4 .. 10.<m> (major 10) or 11 .. <M> plus all of 10.4 .. 10.16 (major >= 11)"""

    def __init__(self, arch, major, minor):
        self.arch, self.major, self.minor = arch, major, minor
        self.fmts = MAC_FORMATS[arch]

    def t10(self, f):
        return f"macosx_10_{{}}_{f}"

    def tK(self, f):
        return f"macosx_{{}}_0_{f}"

    def fmts10(self):
        return self.fmts if self.arch == "x86_64" else ["universal2"]

    def rule10(self, t, lo, hi):
        """10.K tags with lo < K <= hi"""
        K = FmtDT.a1(t)
        return z3.Or(*[z3.And(is_template(t, self.t10(f)), K > lo, K <= hi, FmtDT.a2(t) == 0, FmtDT.a3(t) == 0) for f in self.fmts10()])

    def ruleK(self, t, lo, hi):
        K = FmtDT.a1(t)
        return z3.Or(*[z3.And(is_template(t, self.tK(f)), K > lo, K <= hi, FmtDT.a2(t) == 0, FmtDT.a3(t) == 0) for f in self.fmts])

    def claimed(self, t):
        return z3.Or(*[is_template(t, tm(f)) for f in CLAIMED_RANK if f in self.fmts for tm in (self.t10, self.tK)])

    def rank(self, t):
        r = z3.IntVal(-1)
        for f in self.fmts:
            fr = CLAIMED_RANK.get(f, 2)
            r = z3.If(is_template(t, self.t10(f)), FmtDT.a1(t) * 8 + fr, z3.If(is_template(t, self.tK(f)), (FmtDT.a1(t) + 100) * 8 + fr, r))
        return r

    # major == 10: loop over minor from `minor` down to 4
    def inv10(self, st):
        T = st.loc("platform_tags")
        cur = self.minor - st.k
        return [("len", T.n >= 0), ("progress", z3.Or(cur >= 3, st.k == 0)), ("sound", forall(T, lambda t: self.rule10(t, cur, self.minor))),
                ("ordered", ordered(T, self.rank, self.claimed)),
                ("complete", complete(T, lambda t: z3.And(self.claimed(t), self.rule10(t, cur, self.minor))))]

    # major >= 11: loop over major from `major` down to 11
    def invK(self, st):
        T = st.loc("platform_tags")
        cur = self.major - st.k
        return [("len", T.n >= 0), ("progress", z3.Or(cur >= 10, st.k == 0)), ("sound", forall(T, lambda t: self.ruleK(t, cur, self.major))),
                ("ordered", ordered(T, self.rank, self.claimed)),
                ("complete", complete(T, lambda t: z3.And(self.claimed(t), self.ruleK(t, cur, self.major))))]

    def inv10tail(self, st):
        T = st.loc("platform_tags")
        cur = 16 - st.k
        rule = lambda t: z3.Or(self.ruleK(t, 10, self.major), self.rule10(t, cur, 16))
        return [("len", T.n >= 0), ("progress", cur >= 3), ("sound", forall(T, rule)), ("ordered", ordered(T, self.rank, self.claimed)),
                ("complete", complete(T, lambda t: z3.And(self.claimed(t), rule(t))))]

    def final_rule(self, t):
        if isinstance(self.major, int) and self.major == 10:
            return self.rule10(t, 3, self.minor)
        return z3.Or(self.ruleK(t, 10, self.major), self.rule10(t, 3, 16))


WINDOWS = {"X86": "win32", "X86_64": "win_amd64", "Aarch64": "win_arm64"}


def never_any(T):
    return forall(T, lambda t: t != tag("any"))


def post_list(T, rule, rank=None, claimed=None):
    if isinstance(T, list):
        arr = z3.K(z3.IntSort(), tag("<none>"))
        for i, x in enumerate(T):
            arr = z3.Store(arr, i, x if z3.is_expr(x) else tag(x))
        T = AList(None, arr, z3.IntVal(0), z3.IntVal(len(T)))
    cl = [("C09.never-any", never_any(T)), ("C09.sound", forall(T, rule)), ("C09.complete", complete(T, (lambda t: z3.And(claimed(t), rule(t))) if claimed else rule))]
    if rank is not None:
        cl.append(("C09.ordered", ordered(T, rank, claimed)))
    return cl


def cases(th):
    ix = th.index
    P, A = ix.cls("Platform"), ix.cls("Arch")

    def platform(ex, oscls, member, **fields):
        return Obj(P, {"os": Obj(ix.cls(oscls), fields), "arch": ex.class_attr(A, member)})
    for member, a in ARCHS.items():
        major, M = z3.Int(fresh_name("major")), z3.Int(fresh_name("minor"))
        ml = Manylinux(a, major, M)
        spec = {(Q, 0): LoopSpec({"platform_tags": ListS(th.fshape)}, ml.invariant)}
        yield {"name": f"manylinux-{a}", "pre": [], "loop_specs": spec,
               "thunk": (lambda ex, member=member, major=major, M=M: ex.getattr(platform(ex, "Manylinux", member, major=major, minor=M), "compatible_tags")),
               "post": (lambda ex, T, ml=ml: post_list(T, ml.rule, ml.rank)),
               "describe": describe(("major", major), ("minor", M), platform=f"manylinux_{{major}}_{{minor}}_{a}")}
        mu = Musllinux(a, major, M)
        spec = {(Q, 1): LoopSpec({"platform_tags": ListS(th.fshape)}, mu.invariant)}
        yield {"name": f"musllinux-{a}", "pre": [], "loop_specs": spec,
               "thunk": (lambda ex, member=member, major=major, M=M: ex.getattr(platform(ex, "Musllinux", member, major=major, minor=M), "compatible_tags")),
               "post": (lambda ex, T, mu=mu: post_list(T, mu.rule)),
               "describe": describe(("major", major), ("minor", M), platform=f"musllinux_{{major}}_{{minor}}_{a}")}
    # macOS x86_64, 10.x
    m = z3.Int(fresh_name("minor"))
    mac = Mac("x86_64", 10, m)
    yield {"name": "macos10-x86_64", "pre": [], "loop_specs": {(Q, 2): LoopSpec({"platform_tags": ListS(th.fshape)}, mac.inv10)},
           "thunk": (lambda ex, m=m: ex.getattr(platform(ex, "Macos", "X86_64", major=10, minor=m), "compatible_tags")),
           "post": (lambda ex, T, mac=mac: post_list(T, mac.final_rule, mac.rank, mac.claimed)),
           "describe": describe(("minor", m), platform="macos_10_{minor}_x86_64")}
    for member, arch, ordn in (("X86_64", "x86_64", 4), ("Aarch64", "aarch64", 8)):
        Mj, mn = z3.Int(fresh_name("major")), z3.Int(fresh_name("minor"))
        mac = Mac(arch, Mj, mn)
        yield {"name": f"macos11+-{arch}", "pre": [Mj >= 11], "loop_specs": {(Q, ordn): LoopSpec({"platform_tags": ListS(th.fshape)}, mac.invK),
                                                                             (Q, ordn + 2): LoopSpec({"platform_tags": ListS(th.fshape)}, mac.inv10tail)},
               "thunk": (lambda ex, member=member, Mj=Mj, mn=mn: ex.getattr(platform(ex, "Macos", member, major=Mj, minor=mn), "compatible_tags")),
               "post": (lambda ex, T, mac=mac: post_list(T, mac.final_rule, mac.rank, mac.claimed)),
               "describe": describe(("major", Mj), ("minor", mn), platform="macos_{major}_{minor}_" + ("x86_64" if arch == "x86_64" else "arm64"))}
    for member, a in ARCHS.items():
        exp = WINDOWS.get(member)
        yield {"name": f"windows-{a}", "pre": [],
               "thunk": (lambda ex, member=member: ex.getattr(platform(ex, "Windows", member), "compatible_tags")),
               "post": (lambda ex, T, exp=exp: [("C09.windows", z3.BoolVal(isinstance(T, list) and T == [exp]))]),
               "allowed_raise": (lambda exc, exp=exp: z3.BoolVal(exc == "PlatformError" and exp is None)),
               "describe": describe(platform=f"windows_{a}")}


def score_cases(th):
    """EnvSpec._evaluate_platform: score = len(tags + ['any']) - first index; None iff the tag is not accepted"""
    ix = th.index
    E, P = ix.cls("EnvSpec"), ix.cls("Platform")
    t = z3.Const(fresh_name("tag"), FmtDT)

    def mk(ex, with_platform):
        plat = None
        L = None
        if with_platform:
            L = ListS(th.fshape).fresh("tags")
            plat = Obj(P, {"os": None, "arch": None})
            plat.cache["compatible_tags"] = L        # = the result promised by the contract of compatible_tags
            ex.assume(L.n >= 0)
            ex.assume(never_any(L))
        spec = Obj(E, {"requires_python": None, "platform": plat, "implementation": None})
        f = ix.func("dep_logic.tags.tags:EnvSpec._evaluate_platform")
        return ex.call_function(f, [spec, t]), L

    def post_none(ex, v):
        r, _ = v
        return [("C09.score.no-platform", z3.BoolVal(isinstance(r, int) and r == -1))]

    def post(ex, v):
        r, L = v
        i, j = z3.Int(fresh_name("i")), z3.Int(fresh_name("j"))
        member = z3.Or(t == tag("any"), z3.Exists([i], z3.And(0 <= i, i < L.n, at(L, i) == t)))
        if r is None:
            return [("C09.score.none-iff-not-accepted", z3.Not(member))]
        if not (z3.is_expr(r) and z3.is_int(r)):
            return [("C09.score.type", z3.BoolVal(False))]
        idx = L.n + 1 - r
        first = z3.And(0 <= idx, idx <= L.n, z3.If(idx < L.n, at(L, idx) == t, t == tag("any")),
                       z3.ForAll([j], z3.Implies(z3.And(0 <= j, j < idx, j < L.n), at(L, j) != t)))
        return [("C09.score.none-iff-not-accepted", member), ("C09.score.len-minus-first-index", first)]
    yield {"name": "score-no-platform", "pre": [], "thunk": (lambda ex: mk(ex, False)), "post": post_none}
    yield {"name": "score-platform", "pre": [], "thunk": (lambda ex: mk(ex, True)), "post": post}


def describe(*syms, platform=""):
    def d(m, args, result=None):
        vals = {n: m.eval(t, model_completion=True).as_long() for n, t in syms}
        return {"platform": platform.format(**vals) if vals else platform, **vals}
    return d
