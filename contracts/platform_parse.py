"""C18, platform names: every name of Platform.choices() (the list is read from the real function; `X_Y` stands for any two non-negative
integers) parses to the documented target, and Platform.parse(str(p)) == p for the parsed p.

Platform strings with integer holes are T-TAG terms Fmt.mk(template, X, Y).  What is assumed of the standard library (A-REGEX): the match
of `_platform_major_minor_re` on a template instance has the same group structure for all digit strings in the holes - obtained by running
the real `re` on two sample instantiations and requiring that they agree (the bounded part sweeps X, Y over a grid on the real function)."""
from __future__ import annotations

import re

import z3

from pyvc.theories.tags import FmtDT, TEMPLATES, TagTheory, tag
from pyvc.values import Obj, OutsideSubset

Q = "dep_logic.tags.platform:Platform.parse"
EXPECT = {
    "linux": ("Manylinux", (2, 17), "X86_64"), "windows": ("Windows", None, "X86_64"), "macos": ("Macos", (14, 0), "Aarch64"),
    "alpine": ("Musllinux", (1, 2), "X86_64"), "windows_amd64": ("Windows", None, "X86_64"), "windows_x86": ("Windows", None, "X86"),
    "windows_arm64": ("Windows", None, "Aarch64"), "macos_arm64": ("Macos", (14, 0), "Aarch64"), "macos_x86_64": ("Macos", (14, 0), "X86_64"),
    "macos_X_Y_arm64": ("Macos", "XY", "Aarch64"), "macos_X_Y_x86_64": ("Macos", "XY", "X86_64"),
    "manylinux_X_Y_x86_64": ("Manylinux", "XY", "X86_64"), "manylinux_X_Y_aarch64": ("Manylinux", "XY", "Aarch64"),
    "musllinux_X_Y_x86_64": ("Musllinux", "XY", "X86_64"), "musllinux_X_Y_aarch64": ("Musllinux", "XY", "Aarch64"),
}


class IntTok:
    """the text of an integer hole (a regex group that covers exactly one hole)"""

    def __init__(self, term):
        self.term = term


class RegexObj:
    def __init__(self, pattern):
        self.pattern = pattern


class MatchObj:
    def __init__(self, groups):
        self._groups = groups


def template_of(t):
    t = z3.simplify(t)
    if not (z3.is_app(t) and t.decl().name() == "mk" and z3.is_int_value(t.arg(0))):
        return None
    tid = t.arg(0).as_long()
    text = next((k for k, v in TEMPLATES.items() if v == tid), None)
    return None if text is None else (text, [t.arg(i) for i in range(1, 1 + text.count("{}"))])


class PlatformTheory(TagTheory):
    def builtin(self, ex, name, args, kw):
        if name == "re.compile" and len(args) == 1 and isinstance(args[0], str):
            return RegexObj(args[0])
        return NotImplemented

    def getattr_other(self, ex, o, attr):
        from pyvc.expr import BoundBuiltin
        if isinstance(o, (RegexObj, MatchObj)):
            return BoundBuiltin(o, attr)
        return None

    def to_int(self, ex, v):
        if isinstance(v, IntTok):
            return v.term
        raise OutsideSubset("int() of a symbolic text")

    def method_builtin(self, ex, recv, name, args, kw):
        if isinstance(recv, MatchObj) and name == "groups" and not args:
            return recv._groups
        if isinstance(recv, RegexObj) and name == "match" and len(args) == 1:
            s = args[0]
            if isinstance(s, str):
                m = re.compile(recv.pattern).match(s)
                return None if m is None else MatchObj(tuple(m.groups()))
            tt = template_of(s) if z3.is_expr(s) and s.sort() == FmtDT else None
            if tt is None:
                raise OutsideSubset("regex match on a symbolic string")
            text, holes = tt
            return self.match_template(recv.pattern, text, holes)
        if z3.is_expr(recv) and recv.sort() == FmtDT and name == "startswith" and len(args) == 1 and isinstance(args[0], str):
            tt = template_of(recv)
            if tt is None:
                raise OutsideSubset("startswith on a symbolic string")
            prefix = tt[0].split("{}")[0]
            if len(prefix) >= len(args[0]) or not args[0].startswith(prefix):
                return prefix.startswith(args[0])
            raise OutsideSubset("startswith reaching into a hole")
        return NotImplemented

    def match_template(self, pattern, text, holes):
        """A-REGEX: run the real regex on two instantiations of the template with different digit strings; the groups must have the same
        structure in both (a group is a hole's text, or a hole-free literal)"""
        samples = [["7", "45", "3"], ["123", "6", "89"]]
        results = []
        for smp in samples:
            parts = text.split("{}")
            inst = parts[0]
            spans = []
            for i, h in enumerate(holes):
                spans.append((len(inst), len(inst) + len(smp[i])))
                inst += smp[i] + parts[i + 1]
            m = re.compile(pattern).match(inst)
            if m is None:
                results.append(None)
                continue
            shape = []
            for gi in range(1, (m.lastindex or 0) + 1):
                sp = m.span(gi)
                if sp in spans:
                    shape.append(("hole", spans.index(sp)))
                elif all(sp[1] <= a or sp[0] >= b for a, b in spans):
                    shape.append(("lit", m.group(gi)))
                else:
                    raise OutsideSubset("regex group that cuts through an integer hole")
            results.append(shape)
        if results[0] != results[1]:
            raise OutsideSubset("regex match depends on the digits in the holes")
        if results[0] is None:
            return None
        return MatchObj(tuple(IntTok(holes[i]) if kind == "hole" else i for kind, i in results[0]))

    def str_concat(self, ex, parts):
        flat = []
        for p in parts:
            tt = template_of(p) if z3.is_expr(p) and p.sort() == FmtDT else None
            if tt is not None:
                pieces = tt[0].split("{}")
                for i, piece in enumerate(pieces):
                    if piece:
                        flat.append(piece)
                    if i < len(tt[1]):
                        flat.append(tt[1][i])
            else:
                flat.append(p)
        return super().str_concat(ex, flat)


def cases(th):
    from pyvc.engine import Exec
    from pyvc.values import ClassRef
    f = th.index.func(Q)
    P = th.index.cls("Platform")
    choices = Exec(th.index, th).explore(lambda e: e.call_function(th.index.func("dep_logic.tags.platform:Platform.choices"), [ClassRef(P)], inline=True))[0][0].value
    choices = list(choices)
    str_f, _ = th.index.find_method(P, "__str__")
    variants = []
    for name in choices:
        variants.append((name, None))
        if "X_Y" in name:
            # concrete instances with one to five digits per part: the regular expression is run by the real `re` on them (what A-REGEX generalises from)
            variants += [(name, xy) for xy in ((7, 45), (123, 6), (0, 0), (10, 12345), (2026, 100))]
    for name, xy in variants:
        X, Y = (z3.Int("X"), z3.Int("Y")) if xy is None else (z3.IntVal(xy[0]), z3.IntVal(xy[1]))
        if xy is None:
            arg = tag(name.replace("X_Y", "{}_{}"), X, Y) if "X_Y" in name else name
        else:
            arg = name.replace("X_Y", f"{xy[0]}_{xy[1]}")
        pre = [X >= 0, Y >= 0]

        def thunk(ex, arg=arg):
            p = ex.call_function(f, [ClassRef(P), arg], inline=True)
            text = ex.call_function(str_f, [p], inline=True)
            back = ex.call_function(f, [ClassRef(P), text], inline=True)
            return (p, back, ex.equals(back, p))

        def post(ex, v, name=name, X=X, Y=Y):
            p, back, same = v
            exp = EXPECT.get(name)
            if exp is None:
                return [("C18.platform.documented-choice", z3.BoolVal(False))]
            if not (isinstance(p, Obj) and p.cls.name == "Platform"):
                return [("C18.platform.returns-platform", z3.BoolVal(False))]
            os_, arch = p.fields["os"], p.fields["arch"]
            cl = [("C18.platform.os-family", z3.BoolVal(isinstance(os_, Obj) and os_.cls.name == exp[0])),
                  ("C18.platform.architecture", z3.BoolVal(isinstance(arch, Obj) and arch.fields.get("_name_") == exp[2]))]
            if exp[1] is not None and isinstance(os_, Obj) and "major" in os_.fields:
                ma, mi = (X, Y) if exp[1] == "XY" else exp[1]
                cl.append(("C18.platform.version", z3.And(os_.fields["major"] == ma, os_.fields["minor"] == mi)))
            cl.append(("C18.platform.parse-of-str-is-identity", same if z3.is_expr(same) else z3.BoolVal(bool(same))))
            return cl
        yield {"name": name if xy is None else name.replace("X_Y", f"{xy[0]}_{xy[1]}"), "pre": pre, "thunk": thunk, "post": post, "args": ()}
