"""Atom layer of the marker algebra (C02 / C15 on single markers): EqualityMarkerUnion / InequalityMultiMarker operators and
OrderedSet, over symbolic string fields (T-ATOM).  Meaning = evaluation at the ghost environment, obtained by executing the
real `_evaluate` / `specifier` / `GenericSpecifier.__contains__` code; the post-condition is the C02 statement."""
from __future__ import annotations

import z3

from pyvc.engine import Contract, LoopSpec
from pyvc.theories.atoms import ENV, OPS4, STRL, EnvMapping, distinct, mem
from pyvc.values import AList, NOTIMPL, Obj, OutsideSubset, fresh_name

S = "dep_logic.markers.single:"
VERSION_LIKE = ["python_version", "python_full_version", "platform_release"]


def b(x):
    return x if z3.is_expr(x) else z3.BoolVal(bool(x))


def string_name(n):
    """the variable is a plain string variable (well-defined string atoms): not version-like, not `extra`, not set-valued"""
    return z3.And(*[n != z3.StringVal(v) for v in VERSION_LIKE + ["extra", "extras", "dependency_groups"]])


def meaning(ex, o):
    """ev(o) at the ghost environment, by running the real code"""
    if o is NOTIMPL or not isinstance(o, Obj):
        return None
    c = o.cls.name
    if c == "AnyMarker":
        return z3.BoolVal(True)
    if c == "EmptyMarker":
        return z3.BoolVal(False)
    if c == "MarkerExpression":
        # bridge B2 (proved separately): a string atom holds iff ENV[name] lies in its GenericSpecifier
        spec = ex.getattr(o, "specifier")
        return b(ex.contains(spec, ENV(o.fields["name"])))
    if c in ("EqualityMarkerUnion", "InequalityMultiMarker"):
        f, _ = ex.index.find_method(o.cls, "_evaluate")
        return b(ex.call_function(f, [o, EnvMapping()]))
    if c in ("MultiMarker", "MarkerUnion"):
        kids = o.fields["markers"]
        if not isinstance(kids, (tuple, list)):
            return None
        ms = [meaning(ex, k) for k in kids]
        if any(m is None for m in ms):
            return None
        return (z3.And if c == "MultiMarker" else z3.Or)(*ms) if ms else z3.BoolVal(c == "MultiMarker")
    return None


def normal(o):
    """C15 on atom-level results: a group has at least two values; a compound has two distinct single children"""
    if not isinstance(o, Obj):
        return z3.BoolVal(False)
    c = o.cls.name
    if c in ("EqualityMarkerUnion", "InequalityMultiMarker"):
        return o.fields["values"].fields["_data"].n >= 2
    return z3.BoolVal(True)


class OSetInit(Contract):
    target = "dep_logic.utils:OrderedSet.__init__"

    def __init__(self, th):
        self.th = th

    def requires(self, ex, self_, iterable):
        return z3.BoolVal(True)

    def result(self, ex, args):
        o, it = args
        d = STRL.fresh("data")
        o.fields["_data"] = d
        return None

    def ensures(self, ex, args, result):
        o, it = args
        d = o.fields.get("_data")
        if not isinstance(d, AList):
            return [("data-is-list", z3.BoolVal(False))]
        src = it if isinstance(it, AList) else None
        s = z3.String(fresh_name("s"))
        cl = [("len", d.n >= 0), ("distinct", distinct(d))]
        if src is not None:
            cl.append(("same-elements", z3.ForAll([s], mem(d, s) == mem(src, s))))
        else:
            items = ex.to_pylist(it)
            cl.append(("same-elements", z3.ForAll([s], mem(d, s) == (z3.Or(*[s == (x if z3.is_expr(x) else z3.StringVal(x)) for x in items]) if items else z3.BoolVal(False)))))
        return cl

    def allowed_raise(self, ex, args, exc):
        return z3.BoolVal(False)

    def cases(self, th):
        yield "abstract-list", [Obj(th.oset_cls), STRL.fresh("iterable")], []

    @staticmethod
    def loop(st):
        d = st.loc("self").fields["_data"]
        it = st.pre("iterable")
        s = z3.String(fresh_name("s"))
        i = z3.Int(fresh_name("i"))
        return [("len", d.n >= 0), ("distinct", distinct(d)),
                ("same-elements", z3.ForAll([s], mem(d, s) == z3.Exists([i], z3.And(0 <= i, i < st.k, z3.Select(it.arr, i) == s))))]


class GroupOp:
    """__and__ / __or__ of EqualityMarkerUnion / InequalityMultiMarker; the meanings are computed inside the explored run"""

    def __init__(self, th, cname, op):
        self.th, self.cname, self.op = th, cname, op
        self.target = f"{S}{cname}.{op}"

    def operands(self, th):
        for o in OPS4:
            g, a = th.sym_group(self.cname, "self"), th.sym_atom(o, "other")
            yield f"atom[{o}]", [g, a], [th.oset_wf(g.fields["values"], 2), string_name(g.fields["name"]), string_name(a.fields["name"])]
        for oc in ("EqualityMarkerUnion", "InequalityMultiMarker"):
            g, h = th.sym_group(self.cname, "self"), th.sym_group(oc, "other")
            yield f"group[{oc}]", [g, h], [th.oset_wf(g.fields["values"], 2), th.oset_wf(h.fields["values"], 2), string_name(g.fields["name"]), string_name(h.fields["name"])]
        g = th.sym_group(self.cname, "self")
        yield "non-single", [g, Obj(th.index.cls("AnyMarker"))], [th.oset_wf(g.fields["values"], 2), string_name(g.fields["name"])]

    def cases(self, th):
        f = th.index.func(self.target)
        comb = z3.And if self.op == "__and__" else z3.Or
        for name, args, pre in self.operands(th):
            me, other = args

            def thunk(ex, me=me, other=other):
                r = ex.call_function(f, [me, other], inline=True)
                if r is NOTIMPL or other.cls.name == "AnyMarker":
                    return (r, None, None, None)
                return (r, meaning(ex, r), meaning(ex, me), meaning(ex, other))

            def post(ex, v, me=me, other=other):
                r, mr, ma, mb2 = v
                oc = other.cls.name
                if oc == "AnyMarker":
                    return [("notimplemented-for-non-single", b(r is NOTIMPL))]
                if r is NOTIMPL:
                    ok = self.cname == "EqualityMarkerUnion" and oc == "InequalityMultiMarker"
                    return [("notimplemented-only-when-deferred", z3.And(z3.BoolVal(ok), me.fields["name"] == other.fields["name"]))]
                if mr is None:
                    return [("result-is-a-marker", z3.BoolVal(False))]
                return [("C02.ev", mr == comb(ma, mb2)), ("C15.group-has-two-values", normal(r))]
            yield {"name": name, "pre": pre, "thunk": thunk, "post": post, "args": (me, other), "describe": describe}

    def comp(self, st):
        """[v for v in self.values if v (not) in other.specifier]"""
        acc = st.loc("__acc")
        me, other = st.loc("self"), st.loc("other")
        d = me.fields["values"].fields["_data"]
        s = z3.String(fresh_name("s"))
        i = z3.Int(fresh_name("i"))
        spec = st.ex.getattr(other, "specifier")
        st.ex.nofork += 1
        try:
            keep = b(st.ex.contains(spec, s))
        finally:
            st.ex.nofork -= 1
        if self.cname == "InequalityMultiMarker":
            keep = z3.Not(keep)
        return [("len", acc.n >= 0), ("distinct", distinct(acc)),
                ("elements", z3.ForAll([s], mem(acc, s) == z3.And(keep, z3.Exists([i], z3.And(0 <= i, i < st.k, z3.Select(d.arr, i) == s)))))]


class GroupReplace:
    def __init__(self, th, cname):
        self.th, self.cname = th, cname
        self.target = f"{S}{cname}.replace"

    def cases(self, th):
        f = th.index.func(self.target)
        g, v = th.sym_group(self.cname, "self"), th.sym_oset("values")
        pre = [th.oset_wf(g.fields["values"], 2), th.oset_wf(v), string_name(g.fields["name"])]

        def thunk(ex):
            r = ex.call_function(f, [g, v], inline=True)
            probe = Obj(g.cls, {"name": g.fields["name"], "values": v})      # what the group would mean with the new values
            return (r, meaning(ex, r), meaning(ex, probe))

        def post(ex, val):
            r, mr, mp = val
            if mr is None:
                return [("result-is-a-marker", z3.BoolVal(False))]
            return [("C02.ev", mr == mp), ("C15.group-has-two-values", normal(r))]
        yield {"name": "values", "pre": pre, "thunk": thunk, "post": post, "args": (g, v), "describe": describe}


class MergeSingle:
    """_merge_single_markers on two string atoms (same or different variable), both merge classes; MarkerExpression.__and__/__or__"""

    def __init__(self, th, which):
        self.th, self.which = th, which
        self.target = {"merge": S + "_merge_single_markers", "and": S + "MarkerExpression.__and__", "or": S + "MarkerExpression.__or__"}[which]

    def cases(self, th):
        f = th.index.func(self.target)
        MMc, MUc = th.index.cls("MultiMarker"), th.index.cls("MarkerUnion")
        from pyvc.values import ClassRef
        kinds = [("MultiMarker", MMc), ("MarkerUnion", MUc)] if self.which == "merge" else [("MultiMarker", MMc)] if self.which == "and" else [("MarkerUnion", MUc)]
        for o1 in OPS4:
            for o2 in OPS4:
                for kname, kcls, r1, r2 in [(kn, kc, x, y) for kn, kc in kinds for x in (False, True) for y in (False, True)]:
                    a, c = th.sym_atom(o1, "m1"), th.sym_atom(o2, "m2")
                    a.fields["reversed"], c.fields["reversed"] = r1, r2
                    pre = [string_name(a.fields["name"]), string_name(c.fields["name"])]
                    comb = z3.And if kname == "MultiMarker" else z3.Or

                    def thunk(ex, a=a, c=c, kcls=kcls):
                        args = [a, c, ClassRef(kcls)] if self.which == "merge" else [a, c]
                        r = ex.call_function(f, args, inline=True)
                        if r is None or r is NOTIMPL:
                            return (r, None, None, None)
                        return (r, meaning(ex, r), meaning(ex, a), meaning(ex, c))

                    def post(ex, v, comb=comb):
                        r, mr, ma, mc = v
                        if r is None:
                            return [("merge.none-allowed", z3.BoolVal(self.which == "merge"))]
                        if mr is None:
                            return [("result-is-a-marker", z3.BoolVal(False))]
                        return [("C02.ev", mr == comb(ma, mc)), ("C15.group-has-two-values", normal(r))]
                    yield {"name": f"{o1}|{o2}|{kname}|{int(r1)}{int(r2)}", "pre": pre, "thunk": thunk, "post": post, "args": (a, c), "describe": describe}


class BridgeB2:
    """MarkerExpression._evaluate on a well-defined string atom agrees with its GenericSpecifier view (bridge B2), for both operand
    orders.  'Well-defined string atom' = Specifier(op + literal) is not a valid PEP 440 specifier, modelled as: it raises InvalidSpecifier."""
    target = S + "MarkerExpression._evaluate"

    def __init__(self, th):
        self.th = th

    def cases(self, th):
        f = th.index.func(self.target)
        for o in OPS4:
            for rev in (False, True):
                a = th.sym_atom(o, "atom")
                a.fields["reversed"] = rev

                def thunk(ex, a=a):
                    got = ex.call_function(f, [a, EnvMapping()], inline=True)
                    spec = ex.getattr(a, "specifier")
                    return (got, ex.contains(spec, ENV(a.fields["name"])))
                def post(ex, v, a=a, o=o, rev=rev):
                    # C03, atom level on string variables: packaging's _eval_op applies the *written* operator to (lhs, rhs) in the written order
                    # (transcribed from packaging.markers._eval_op / _operators for keys that are not version-like; in / not in are substring tests)
                    env, lit = ENV(a.fields["name"]), a.fields["value"]
                    lhs, rhs = (lit, env) if rev else (env, lit)
                    written = {"==": "==", "!=": "!=", "in": "in", "not in": "not in"}[o]      # these four are their own mirror image
                    pk = {"==": lhs == rhs, "!=": lhs != rhs, "in": z3.Contains(rhs, lhs), "not in": z3.Not(z3.Contains(rhs, lhs))}[written]
                    return [("bridge.B2.evaluate-equals-specifier-view", b(v[0]) == b(v[1])),
                            ("C03.atom.evaluate-equals-packaging-eval-op", b(v[0]) == pk)]
                yield {"name": f"{o}|reversed={rev}", "pre": [string_name(a.fields["name"])], "thunk": thunk,
                       "post": post, "args": (a,), "describe": describe}


def describe(m, args, result=None):
    out = {}

    def sv(t):
        e = m.eval(t, model_completion=True)
        return e.as_string() if z3.is_string_value(e) else str(e)

    def obj(o):
        if not isinstance(o, Obj):
            return repr(o)
        d = {"cls": o.cls.name}
        for k, v in o.fields.items():
            if z3.is_expr(v):
                d[k] = sv(v)
            elif isinstance(v, Obj) and "_data" in v.fields:
                l = v.fields["_data"]
                n = m.eval(l.n, model_completion=True)
                n = n.as_long() if z3.is_int_value(n) else 0
                d[k] = [sv(z3.Select(l.arr, i)) for i in range(max(0, min(n, 6)))]
            elif isinstance(v, (str, bool)):
                d[k] = v
        return d
    for n, a in zip(("self", "other"), args or ()):
        out[n] = obj(a)
    names = {o.fields["name"] for o in (args or ()) if isinstance(o, Obj) and "name" in o.fields and z3.is_expr(o.fields["name"])}
    out["env"] = {sv(n): sv(ENV(n)) for n in names}
    return out


def all_contracts(th):
    cs = [OSetInit(th)]
    for cname in ("EqualityMarkerUnion", "InequalityMultiMarker"):
        cs += [GroupReplace(th, cname), GroupOp(th, cname, "__and__"), GroupOp(th, cname, "__or__")]
    cs += [MergeSingle(th, "merge"), MergeSingle(th, "and"), MergeSingle(th, "or"), BridgeB2(th)]
    return {c.target: c for c in cs}


def loop_specs(th):
    specs = {("dep_logic.utils:OrderedSet.__init__", 0): LoopSpec({"self._data": STRL}, OSetInit.loop)}
    for cname in ("EqualityMarkerUnion", "InequalityMultiMarker"):
        op = "__and__" if cname == "EqualityMarkerUnion" else "__or__"
        c = GroupOp(th, cname, op)
        specs[(c.target, 0)] = (STRL, [LoopSpec({"__acc": STRL}, c.comp)])
    return specs
