"""Atom layer of the marker algebra (C02 / C15 on single markers): EqualityMarkerUnion / InequalityMultiMarker operators and
OrderedSet, over symbolic string fields (T-ATOM).  Meaning = evaluation at the ghost environment, obtained by executing the
real `_evaluate` / `specifier` / `GenericSpecifier.__contains__` code; the post-condition is the C02 statement."""
from __future__ import annotations

import z3

from pyvc.engine import Contract, LoopSpec
from pyvc.theories.atoms import ENV, OPS4, STRL, EnvMapping, distinct, mem
from pyvc.values import AList, NOTIMPL, Obj, OutsideSubset, fresh_name  # noqa: F401

S = "dep_logic.markers.single:"
VERSION_LIKE = ["python_version", "python_full_version", "platform_release"]


def b(x):
    return x if z3.is_expr(x) else z3.BoolVal(bool(x))


PKG_VERSION_KEYS = ["implementation_version", "platform_release", "python_full_version", "python_version"]      # packaging.markers.MARKERS_REQUIRING_VERSION


def string_name(n):
    """the variable is a plain string variable (well-defined string atoms): not version-like, not `extra`, not set-valued"""
    # (implementation_version is neither: packaging compares it as a version, the library's algebra views it as a string - outside the well-defined atoms)
    return z3.And(*[n != z3.StringVal(v) for v in VERSION_LIKE + ["implementation_version", "extra", "extras", "dependency_groups"]])


def meaning(ex, o):
    """ev(o) at the ghost environment, by running the real code"""
    if o is NOTIMPL or not isinstance(o, Obj):
        return None
    c = o.cls.name
    if c == "AnyMarker":
        return z3.BoolVal(True)
    if c == "EmptyMarker":
        return z3.BoolVal(False)
    if c == "MarkerExpression":
        # bridge B2 (proved separately): a string atom holds iff ENV[name] lies in its GenericSpecifier
        spec = ex.getattr(o, "specifier")
        return b(ex.contains(spec, ENV(o.fields["name"])))
    if c in ("EqualityMarkerUnion", "InequalityMultiMarker"):
        f, _ = ex.index.find_method(o.cls, "_evaluate")
        return b(ex.call_function(f, [o, EnvMapping()]))
    if c in ("MultiMarker", "MarkerUnion"):
        kids = o.fields["markers"]
        if not isinstance(kids, (tuple, list)):
            return None
        ms = [meaning(ex, k) for k in kids]
        if any(m is None for m in ms):
            return None
        return (z3.And if c == "MultiMarker" else z3.Or)(*ms) if ms else z3.BoolVal(c == "MultiMarker")
    return None


def normal(o):
    """C15 on atom-level results: a group has at least two values; a compound has two distinct single children"""
    if not isinstance(o, Obj):
        return z3.BoolVal(False)
    c = o.cls.name
    if c in ("EqualityMarkerUnion", "InequalityMultiMarker"):
        return o.fields["values"].fields["_data"].n >= 2
    return z3.BoolVal(True)


class OSetInit(Contract):
    target = "dep_logic.utils:OrderedSet.__init__"

    def __init__(self, th):
        self.th = th

    def requires(self, ex, self_, iterable):
        return z3.BoolVal(True)

    def result(self, ex, args):
        o, it = args
        d = STRL.fresh("data")
        o.fields["_data"] = d
        return None

    def ensures(self, ex, args, result):
        o, it = args
        d = o.fields.get("_data")
        if not isinstance(d, AList):
            return [("data-is-list", z3.BoolVal(False))]
        src = it if isinstance(it, AList) else None
        s = z3.String(fresh_name("s"))
        cl = [("len", d.n >= 0), ("distinct", distinct(d))]
        if src is not None:
            cl.append(("same-elements", z3.ForAll([s], mem(d, s) == mem(src, s))))
        else:
            items = ex.to_pylist(it)
            cl.append(("same-elements", z3.ForAll([s], mem(d, s) == (z3.Or(*[s == (x if z3.is_expr(x) else z3.StringVal(x)) for x in items]) if items else z3.BoolVal(False)))))
        return cl

    def allowed_raise(self, ex, args, exc):
        return z3.BoolVal(False)

    def cases(self, th):
        yield "abstract-list", [Obj(th.oset_cls), STRL.fresh("iterable")], []

    @staticmethod
    def loop(st):
        d = st.loc("self").fields["_data"]
        it = st.pre("iterable")
        s = z3.String(fresh_name("s"))
        i = z3.Int(fresh_name("i"))
        return [("len", d.n >= 0), ("distinct", distinct(d)),
                ("same-elements", z3.ForAll([s], mem(d, s) == z3.Exists([i], z3.And(0 <= i, i < st.k, z3.Select(it.arr, i) == s))))]


class GroupOp:
    """__and__ / __or__ of EqualityMarkerUnion / InequalityMultiMarker; the meanings are computed inside the explored run"""

    def __init__(self, th, cname, op):
        self.th, self.cname, self.op = th, cname, op
        self.target = f"{S}{cname}.{op}"

    def operands(self, th):
        for o in OPS4:
            g, a = th.sym_group(self.cname, "self"), th.sym_atom(o, "other")
            yield f"atom[{o}]", [g, a], [th.oset_wf(g.fields["values"], 2), string_name(g.fields["name"]), string_name(a.fields["name"])]
        for oc in ("EqualityMarkerUnion", "InequalityMultiMarker"):
            g, h = th.sym_group(self.cname, "self"), th.sym_group(oc, "other")
            yield f"group[{oc}]", [g, h], [th.oset_wf(g.fields["values"], 2), th.oset_wf(h.fields["values"], 2), string_name(g.fields["name"]), string_name(h.fields["name"])]
        g = th.sym_group(self.cname, "self")
        yield "non-single", [g, Obj(th.index.cls("AnyMarker"))], [th.oset_wf(g.fields["values"], 2), string_name(g.fields["name"])]

    def cases(self, th):
        f = th.index.func(self.target)
        comb = z3.And if self.op == "__and__" else z3.Or
        for name, args, pre in self.operands(th):
            me, other = args

            def thunk(ex, me=me, other=other):
                r = ex.call_function(f, [me, other], inline=True)
                if r is NOTIMPL or other.cls.name == "AnyMarker":
                    return (r, None, None, None)
                return (r, meaning(ex, r), meaning(ex, me), meaning(ex, other))

            def post(ex, v, me=me, other=other):
                r, mr, ma, mb2 = v
                oc = other.cls.name
                if oc == "AnyMarker":
                    return [("notimplemented-for-non-single", b(r is NOTIMPL))]
                if r is NOTIMPL:
                    ok = self.cname == "EqualityMarkerUnion" and oc == "InequalityMultiMarker"
                    return [("notimplemented-only-when-deferred", z3.And(z3.BoolVal(ok), me.fields["name"] == other.fields["name"]))]
                if mr is None:
                    return [("result-is-a-marker", z3.BoolVal(False))]
                return [("C02.ev", mr == comb(ma, mb2)), ("C15.group-has-two-values", normal(r))]
            yield {"name": name, "pre": pre, "thunk": thunk, "post": post, "args": (me, other), "describe": describe}

    def comp(self, st):
        """[v for v in self.values if v (not) in other.specifier]"""
        acc = st.loc("__acc")
        me, other = st.loc("self"), st.loc("other")
        d = me.fields["values"].fields["_data"]
        s = z3.String(fresh_name("s"))
        i = z3.Int(fresh_name("i"))
        spec = st.ex.getattr(other, "specifier")
        st.ex.nofork += 1
        try:
            keep = b(st.ex.contains(spec, s))
        finally:
            st.ex.nofork -= 1
        if self.cname == "InequalityMultiMarker":
            keep = z3.Not(keep)
        return [("len", acc.n >= 0), ("distinct", distinct(acc)),
                ("elements", z3.ForAll([s], mem(acc, s) == z3.And(keep, z3.Exists([i], z3.And(0 <= i, i < st.k, z3.Select(d.arr, i) == s)))))]


class GroupReplace:
    def __init__(self, th, cname):
        self.th, self.cname = th, cname
        self.target = f"{S}{cname}.replace"

    def cases(self, th):
        f = th.index.func(self.target)
        g, v = th.sym_group(self.cname, "self"), th.sym_oset("values")
        pre = [th.oset_wf(g.fields["values"], 2), th.oset_wf(v), string_name(g.fields["name"])]

        def thunk(ex):
            r = ex.call_function(f, [g, v], inline=True)
            probe = Obj(g.cls, {"name": g.fields["name"], "values": v})      # what the group would mean with the new values
            return (r, meaning(ex, r), meaning(ex, probe))

        def post(ex, val):
            r, mr, mp = val
            if mr is None:
                return [("result-is-a-marker", z3.BoolVal(False))]
            return [("C02.ev", mr == mp), ("C15.group-has-two-values", normal(r))]
        yield {"name": "values", "pre": pre, "thunk": thunk, "post": post, "args": (g, v), "describe": describe}


class MergeSingle:
    """_merge_single_markers on two string atoms (same or different variable), both merge classes; MarkerExpression.__and__/__or__"""

    def __init__(self, th, which):
        self.th, self.which = th, which
        self.target = {"merge": S + "_merge_single_markers", "and": S + "MarkerExpression.__and__", "or": S + "MarkerExpression.__or__"}[which]

    def cases(self, th):
        f = th.index.func(self.target)
        MMc, MUc = th.index.cls("MultiMarker"), th.index.cls("MarkerUnion")
        from pyvc.values import ClassRef
        kinds = [("MultiMarker", MMc), ("MarkerUnion", MUc)] if self.which == "merge" else [("MultiMarker", MMc)] if self.which == "and" else [("MarkerUnion", MUc)]
        for o1 in OPS4:
            for o2 in OPS4:
                for kname, kcls, r1, r2 in [(kn, kc, x, y) for kn, kc in kinds for x in (False, True) for y in (False, True)]:
                    a, c = th.sym_atom(o1, "m1"), th.sym_atom(o2, "m2")
                    a.fields["reversed"], c.fields["reversed"] = r1, r2
                    pre = [string_name(a.fields["name"]), string_name(c.fields["name"])]
                    comb = z3.And if kname == "MultiMarker" else z3.Or

                    def thunk(ex, a=a, c=c, kcls=kcls):
                        args = [a, c, ClassRef(kcls)] if self.which == "merge" else [a, c]
                        r = ex.call_function(f, args, inline=True)
                        if r is None or r is NOTIMPL:
                            return (r, None, None, None)
                        return (r, meaning(ex, r), meaning(ex, a), meaning(ex, c))

                    def post(ex, v, comb=comb):
                        r, mr, ma, mc = v
                        if r is None:
                            return [("merge.none-allowed", z3.BoolVal(self.which == "merge"))]
                        if mr is None:
                            return [("result-is-a-marker", z3.BoolVal(False))]
                        return [("C02.ev", mr == comb(ma, mc)), ("C15.group-has-two-values", normal(r))]
                    yield {"name": f"{o1}|{o2}|{kname}|{int(r1)}{int(r2)}", "pre": pre, "thunk": thunk, "post": post, "args": (a, c), "describe": describe}


class BridgeB2:
    """MarkerExpression._evaluate on a well-defined string atom agrees with its GenericSpecifier view (bridge B2), for both operand
    orders, whether or not `op + literal` happens to be a valid PEP 440 specifier (packaging >= 25 compares only its MARKERS_REQUIRING_VERSION as versions)."""
    target = S + "MarkerExpression._evaluate"

    def __init__(self, th):
        self.th = th

    def cases(self, th):
        f = th.index.func(self.target)
        for o in OPS4:
            for rev in (False, True):
                a = th.sym_atom(o, "atom")
                a.fields["reversed"] = rev

                def thunk(ex, a=a):
                    got = ex.call_function(f, [a, EnvMapping()], inline=True)
                    spec = ex.getattr(a, "specifier")
                    return (got, ex.contains(spec, ENV(a.fields["name"])))
                def post(ex, v, a=a, o=o, rev=rev):
                    # C03, atom level on string variables: packaging's _eval_op applies the *written* operator to (lhs, rhs) in the written order
                    # (transcribed from packaging.markers._eval_op / _operators for keys that are not version-like; in / not in are substring tests)
                    env, lit = ENV(a.fields["name"]), a.fields["value"]
                    lhs, rhs = (lit, env) if rev else (env, lit)
                    written = {"==": "==", "!=": "!=", "in": "in", "not in": "not in"}[o]      # these four are their own mirror image
                    pk = {"==": lhs == rhs, "!=": lhs != rhs, "in": z3.Contains(rhs, lhs), "not in": z3.Not(z3.Contains(rhs, lhs))}[written]
                    return [("bridge.B2.evaluate-equals-specifier-view", b(v[0]) == b(v[1])),
                            ("C03.atom.evaluate-equals-packaging-eval-op", b(v[0]) == pk)]
                yield {"name": f"{o}|reversed={rev}", "pre": [string_name(a.fields["name"])], "thunk": thunk,
                       "post": post, "args": (a,), "describe": describe}
        # version-valued atoms (the variables packaging lists in MARKERS_REQUIRING_VERSION) whose literal makes `op + literal` a valid specifier:
        # packaging._eval_op answers Specifier(written_op + rhs).contains(lhs) with the operands in the *written* order; PEP 440's exclusive
        # ordering is not mirror-symmetric (pre-/post-releases of the bound), so the stored (mirrored) operator may not be applied the other way round
        from pyvc.theories.atoms import PKG_CONTAINS
        MIRROR = {"<": ">", "<=": ">=", ">": "<", ">=": "<=", "==": "==", "!=": "!=", "~=": "~=", "===": "==="}
        for o in MIRROR:
            for rev in (False, True):
                a = th.sym_atom(o, "atom")
                a.fields["reversed"] = rev
                name = a.fields["name"]

                def vthunk(ex, a=a):
                    th.pkg_valid = True
                    try:
                        return ex.call_function(f, [a, EnvMapping()], inline=True)
                    finally:
                        th.pkg_valid = False
                def vpost(ex, v, a=a, o=o, rev=rev):
                    env, lit = ENV(a.fields["name"]), a.fields["value"]
                    lhs, rhs = (lit, env) if rev else (env, lit)
                    written = MIRROR[o] if rev else o
                    return [("C03.atom.version.evaluate-equals-packaging-eval-op", b(v) == PKG_CONTAINS(z3.Concat(z3.StringVal(written), rhs), lhs))]
                yield {"name": f"version|{o}|reversed={rev}", "pre": [z3.Or(*[name == z3.StringVal(n) for n in PKG_VERSION_KEYS])], "thunk": vthunk,
                       "post": vpost, "args": (a,), "describe": describe}


# ---------------------------------------------------------------- version-valued atoms: the merge logic over abstract specifier views
class FromSpecifierAtCallSite(Contract):
    """MarkerExpression.from_specifier used modularly: None, the universal / empty marker exactly for a universal / empty set, or an atom
    that carries the given specifier as its view (obligations C11.from_specifier.* of the C11 check; is_any()/is_empty() exact by C05)"""
    target = S + "MarkerExpression.from_specifier"

    def __init__(self, th):
        self.th = th

    def result(self, ex, args):
        from pyvc.theories import spec as T
        from pyvc.theories.spec import V
        _, name, s = args
        k = ex.choose(4)
        if k == 0:
            return None
        if k == 1:
            ex.assume(T.den(s, V))
            return Obj(ex.index.cls("AnyMarker"), {})
        if k == 2:
            ex.assume(z3.Not(T.den(s, V)))
            return Obj(ex.index.cls("EmptyMarker"), {})
        return Obj(ex.index.cls("MarkerExpression"), {"name": name, "op": z3.String(fresh_name("op")), "value": z3.String(fresh_name("value")), "reversed": False, "_specifier": s})

    def ensures(self, ex, args, result):
        return []

    def allowed_raise(self, ex, args, exc):
        return z3.BoolVal(False)


class NormalizeAtCallSite(Contract):
    """_normalize_python_version_specifier used modularly: a canonical specifier over full versions; what it denotes *is* the meaning of the
    python_version atom on a consistent environment (python_version = the X.Y of python_full_version) - string arithmetic, bounded part"""
    target = S + "_normalize_python_version_specifier"

    def __init__(self, th):
        self.th = th
        self.of = {}

    def result(self, ex, args):
        from pyvc.theories import spec as T
        # None ("the literal cannot be read as a bound on python_full_version": obligation C11.normalize.none-leaves-the-atoms-unmerged) is followed too
        if ex.branch(z3.Bool(fresh_name("normalize_gives_none"))):
            return None
        key = id(args[0])
        if key not in self.of:
            self.of[key] = (self.th.sshape.fresh("normalized"), args[0])
        return self.of[key][0]

    def ensures(self, ex, args, result):
        from pyvc.theories import spec as T
        if result is None:
            return []
        return [("normalized.canonical", T.wf(result))]

    def allowed_raise(self, ex, args, exc):
        return z3.BoolVal(False)


def eq_law(ex, a, c):
    """law.C13 / C05 on specifiers: equal objects admit the same versions"""
    from pyvc.theories import spec as T
    from pyvc.theories.spec import V
    e = z3.Bool(fresh_name("spec_eq"))
    ex.assume(z3.Implies(e, T.den(a, V) == T.den(c, V)))
    return e


class MergeVersion:
    """_merge_single_markers on two version-valued atoms: same variable (python_full_version, python_version, platform_release) and the
    python_version x python_full_version pair, both merge classes.  Meaning of an atom = its specifier view admits the environment's
    value (the bridge C11 a, bounded); `&`, `|`, `==` on the views by their C01/C05/C13 laws; from_specifier by its C11 contract."""
    target = S + "_merge_single_markers"
    key = S + "_merge_single_markers@versions"

    def __init__(self, th):
        self.th = th

    def cases(self, th):
        from pyvc.theories import spec as T
        from pyvc.theories.spec import V
        from pyvc.values import ClassRef
        from contracts import laws_spec as L
        th.laws = dict(L.LAWS, __eq__=eq_law)
        f = th.index.func(self.target)
        ME = th.index.cls("MarkerExpression")
        norm = th.norm_contract

        def atom(name, tag):
            return Obj(ME, {"name": name, "op": z3.String(fresh_name(tag + "_op")), "value": z3.String(fresh_name(tag + "_value")), "reversed": False,
                            "_specifier": th.sshape.fresh(tag + "_view")})

        def meaning(ex, o, cross):
            if o is None or not isinstance(o, Obj):
                return None
            if o.cls.name == "AnyMarker":
                return z3.BoolVal(True)
            if o.cls.name == "EmptyMarker":
                return z3.BoolVal(False)
            if o.cls.name != "MarkerExpression":
                return None
            if cross and o.fields["name"] == "python_version":
                hit = norm.of.get(id(o))
                if hit is None:
                    return None
                return T.den(hit[0], V)
            return T.den(ex.getattr(o, "specifier"), V)

        pairs = [(n, n) for n in ("python_full_version", "python_version", "platform_release")] + [("python_version", "python_full_version"), ("python_full_version", "python_version")]
        for kname in ("MultiMarker", "MarkerUnion"):
            comb = z3.And if kname == "MultiMarker" else z3.Or
            for n1, n2 in pairs:
                a, c = atom(n1, "m1"), atom(n2, "m2")
                cross = n1 != n2
                pre = [T.wf(a.fields["_specifier"]), T.wf(c.fields["_specifier"])]

                def thunk(ex, a=a, c=c, kname=kname, cross=cross):
                    norm.of.clear()
                    r = ex.call_function(f, [a, c, ClassRef(th.index.cls(kname))], inline=True)
                    return (r, meaning(ex, r, cross), meaning(ex, a, cross), meaning(ex, c, cross))

                def post(ex, v, comb=comb):
                    r, mr, ma, mc = v
                    if r is None:
                        return [("merge.none-allowed", z3.BoolVal(True))]
                    if mr is None or ma is None or mc is None:
                        return [("result-is-a-marker-with-a-view", z3.BoolVal(False))]
                    return [("C02.version-atoms.ev", mr == comb(ma, mc))]
                yield {"name": f"{n1}|{n2}|{kname}", "pre": pre, "thunk": thunk, "post": post, "args": ()}


def describe(m, args, result=None):
    out = {}

    def sv(t):
        e = m.eval(t, model_completion=True)
        return e.as_string() if z3.is_string_value(e) else str(e)

    def obj(o):
        if not isinstance(o, Obj):
            return repr(o)
        d = {"cls": o.cls.name}
        for k, v in o.fields.items():
            if z3.is_expr(v):
                d[k] = sv(v)
            elif isinstance(v, Obj) and "_data" in v.fields:
                l = v.fields["_data"]
                n = m.eval(l.n, model_completion=True)
                n = n.as_long() if z3.is_int_value(n) else 0
                d[k] = [sv(z3.Select(l.arr, i)) for i in range(max(0, min(n, 6)))]
            elif isinstance(v, (str, bool)):
                d[k] = v
        return d
    for n, a in zip(("self", "other"), args or ()):
        out[n] = obj(a)
    names = {o.fields["name"] for o in (args or ()) if isinstance(o, Obj) and "name" in o.fields and z3.is_expr(o.fields["name"])}
    out["env"] = {sv(n): sv(ENV(n)) for n in names}
    return out


def all_contracts(th):
    cs = [OSetInit(th)]
    for cname in ("EqualityMarkerUnion", "InequalityMultiMarker"):
        cs += [GroupReplace(th, cname), GroupOp(th, cname, "__and__"), GroupOp(th, cname, "__or__")]
    cs += [MergeSingle(th, "merge"), MergeSingle(th, "and"), MergeSingle(th, "or"), BridgeB2(th)]
    return {c.target: c for c in cs}


def loop_specs(th):
    specs = {("dep_logic.utils:OrderedSet.__init__", 0): LoopSpec({"self._data": STRL}, OSetInit.loop)}
    for cname in ("EqualityMarkerUnion", "InequalityMultiMarker"):
        op = "__and__" if cname == "EqualityMarkerUnion" else "__or__"
        c = GroupOp(th, cname, op)
        specs[(c.target, 0)] = (STRL, [LoopSpec({"__acc": STRL}, c.comp)])
    return specs
