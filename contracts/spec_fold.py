"""C04 composition (and the from_specifierset half of C17): from_specifierset folds the clauses of a SpecifierSet with `&`, starting
from the universal range - the result is canonical, admits exactly the versions every clause admits, and the fold raises nothing.

Clauses are an abstract sort; `leafden(c, v)` is the set of versions clause c admits (what _from_pkg_specifier(c) denotes: its
structure is proved separately over structured versions, C04.leaf.*).  `&` is used through the C01/C05 law contract."""
from __future__ import annotations

import z3

from pyvc.engine import Contract, LoopSpec
from pyvc.theories import spec as T
from pyvc.theories.spec import V
from pyvc.values import AbsObj, AList, ListS, OutsideSubset, Shape, fresh_name

Q = "dep_logic.specifiers:from_specifierset"
LEAF = "dep_logic.specifiers:_from_pkg_specifier"
CL = z3.DeclareSort("Clause")
leafden = z3.Function("leafden", CL, z3.RealSort(), z3.BoolSort())


class ClauseShape(Shape):
    sort = CL

    def __init__(self, theory):
        self.theory = theory

    def fresh(self, name):
        return AbsObj(z3.Const(fresh_name(name), CL), self.theory)

    def enc(self, v):
        if isinstance(v, AbsObj) and v.term.sort() == CL:
            return v.term
        raise OutsideSubset(f"not a clause: {v!r}")

    def dec(self, t):
        return AbsObj(t, self.theory)


class Leaf(Contract):
    """assumed at the call sites of the fold; proved clause by clause over structured versions by the C04.leaf obligations"""
    target = LEAF

    def __init__(self, th):
        self.th = th

    def result(self, ex, args):
        return self.th.sshape.fresh("leaf")

    def ensures(self, ex, args, result):
        c = args[0].term
        return [("leaf.canonical", T.wf(result)), ("leaf.den", T.den(result, V) == leafden(c, V))]

    def allowed_raise(self, ex, args, exc):
        return z3.BoolVal(False)


class Fold(Contract):
    target = Q

    def __init__(self, th):
        self.th = th
        self.items = None

    def cases(self, th):
        self.items = ListS(ClauseShape(th)).fresh("spec")
        yield "clauses", [self.items], [self.items.n >= 0]

    def allowed_raise(self, ex, args, exc):
        return z3.BoolVal(False)

    def meaning(self, hi):
        i = z3.Int(fresh_name("fi"))
        return z3.ForAll([i], z3.Implies(z3.And(0 <= i, i < hi), leafden(z3.Select(self.items.arr, i), V)))

    def ensures(self, ex, args, result):
        return [("C04.compose.canonical", T.wf(result)), ("C04.compose.admits-what-every-clause-admits", T.den(result, V) == self.meaning(self.items.n))]

    def inv(self, st):
        acc = st.loc("__racc")
        return [("canonical", T.wf(acc)), ("den", T.den(acc, V) == self.meaning(st.k))]


def setup(th):
    f = Fold(th)
    contracts = {Q: f, LEAF: Leaf(th)}
    specs = {(Q, "reduce0"): LoopSpec({"__racc": th.sshape}, f.inv)}
    return f, contracts, specs


# ---------------------------------------------------------------- parse_version_specifier (C17 error translation, C04 `||` alternatives)
PQ = "dep_logic.specifiers:parse_version_specifier"
TX = z3.DeclareSort("SpecText")
kind = z3.Function("text_kind", TX, z3.IntSort())                 # 0 "<empty>", 1 contains "||", 2 anything else
accepted = z3.Function("pkg_accepts", TX, z3.BoolSort())          # packaging.SpecifierSet(text) does not raise
clauses = z3.Function("pkg_clauses", TX, z3.ArraySort(z3.IntSort(), CL))
nclauses = z3.Function("pkg_nclauses", TX, z3.IntSort())
parts = z3.Function("alternatives", TX, z3.ArraySort(z3.IntSort(), TX))    # text.split("||")
nparts = z3.Function("n_alternatives", TX, z3.IntSort())
K_EMPTY, K_ALT, K_PLAIN = 0, 1, 2


class TextShape(Shape):
    sort = TX

    def __init__(self, theory):
        self.theory = theory

    def fresh(self, name):
        return AbsObj(z3.Const(fresh_name(name), TX), self.theory)

    def enc(self, v):
        if isinstance(v, AbsObj) and v.term.sort() == TX:
            return v.term
        raise OutsideSubset(f"not a specifier text: {v!r}")

    def dec(self, t):
        return AbsObj(t, self.theory)


class _Split:
    def __init__(self, fn):
        self.fn = fn


class _SpecifierSetCtor:
    pass


def ok(t):
    return z3.Or(kind(t) == K_EMPTY, z3.And(kind(t) == K_PLAIN, accepted(t)))


def tden(t, v):
    i = z3.Int(fresh_name("ti"))
    return z3.And(kind(t) == K_PLAIN, z3.ForAll([i], z3.Implies(z3.And(0 <= i, i < nclauses(t)), leafden(z3.Select(clauses(t), i), v))))


def install_text_theory(th):
    """hooks for abstract specifier texts on the specifier theory (A-STDLIB: `==`, `in`, `split` on str; A-PKG: SpecifierSet(text)
    either raises packaging's InvalidSpecifier or iterates over its clauses)"""
    th.tshape = TextShape(th)
    th.cshape = ClauseShape(th)

    def equals(ex, l, r):
        for a, c in ((l, r), (r, l)):
            if isinstance(a, AbsObj) and a.term.sort() == TX and isinstance(c, str):
                return kind(a.term) == K_EMPTY if c == "<empty>" else False
        raise OutsideSubset("comparison of abstract texts")

    def contains(ex, container, item):
        if isinstance(container, AbsObj) and container.term.sort() == TX and item == "||":
            return kind(container.term) == K_ALT
        raise OutsideSubset("`in` on an abstract text")

    def getattr_(ex, o, attr):
        if o.term.sort() == TX and attr == "split":
            def split(sep):
                if sep != "||":
                    raise OutsideSubset("split of an abstract text")
                return AList(th.tshape, parts(o.term), z3.IntVal(0), nparts(o.term), False)
            return _Split(split)
        raise OutsideSubset(f"attribute {attr} of an abstract text")

    def call_other(ex, f, args, kw):
        if isinstance(f, _Split):
            return f.fn(*args)
        if isinstance(f, _SpecifierSetCtor):
            t = args[0].term
            if ex.branch(z3.Not(accepted(t))):
                from pyvc.values import RaiseEx
                raise RaiseEx("PkgInvalidSpecifier", "invalid specifier")
            return AList(th.cshape, clauses(t), z3.IntVal(0), nclauses(t), False)
        return NotImplemented

    def external(ex, mod, name):
        if mod.startswith("packaging") and name == "SpecifierSet":
            return _SpecifierSetCtor()
        return None

    th.equals, th.contains, th.getattr, th.call_other, th.external = equals, contains, getattr_, call_other, external
    th.to_str = lambda ex, x: None


class FoldAtCallSite(Contract):
    """from_specifierset used modularly (its contract is the obligation set of `Fold` above)"""
    target = Q

    def __init__(self, th):
        self.th = th

    def result(self, ex, args):
        return self.th.sshape.fresh("folded")

    def ensures(self, ex, args, result):
        l = args[0]
        i = z3.Int(fresh_name("fi"))
        return [("canonical", T.wf(result)),
                ("den", T.den(result, V) == z3.ForAll([i], z3.Implies(z3.And(0 <= i, i < l.n), leafden(z3.Select(l.arr, i), V))))]

    def allowed_raise(self, ex, args, exc):
        return z3.BoolVal(False)


class Parse(Contract):
    target = PQ
    recursive = True

    def __init__(self, th):
        self.th = th
        self.tx = None

    def axioms(self, t):
        j = z3.Int(fresh_name("pj"))
        pj = z3.Select(parts(t), j)
        return [z3.And(kind(t) >= 0, kind(t) <= 2), nclauses(t) >= 0,
                z3.Implies(kind(t) == K_ALT, nparts(t) >= 2),
                # the pieces of text.split("||") contain no "||" themselves
                z3.ForAll([j], z3.Implies(z3.And(0 <= j, j < nparts(t)), z3.And(kind(pj) != K_ALT, kind(pj) >= 0, kind(pj) <= 2, nclauses(pj) >= 0)))]

    def cases(self, th):
        self.tx = th.tshape.fresh("spec")
        yield "text", [self.tx], self.axioms(self.tx.term)

    def whole_ok(self, t):
        j = z3.Int(fresh_name("oj"))
        return z3.If(kind(t) == K_ALT, z3.ForAll([j], z3.Implies(z3.And(0 <= j, j < nparts(t)), ok(z3.Select(parts(t), j)))), ok(t))

    def whole_den(self, t, hi=None):
        j = z3.Int(fresh_name("dj"))
        return z3.If(kind(t) == K_ALT, z3.Exists([j], z3.And(0 <= j, j < (nparts(t) if hi is None else hi), tden(z3.Select(parts(t), j), V))), tden(t, V))

    # ---- at the recursive call sites (the pieces of an alternative list; that they contain no "||" themselves is an axiom of split)
    def result(self, ex, args):
        return self.th.sshape.fresh("parsed")

    def raise_cases(self, ex, args):
        return [("InvalidSpecifier", z3.Not(self.whole_ok(args[0].term)))]

    def ensures(self, ex, args, result):
        t = args[0].term
        return [("C17.parse.returns-only-when-packaging-accepts", self.whole_ok(t)),
                ("C04.parse.canonical", T.wf(result)),
                ("C04.parse.admits-some-alternative-all-of-whose-clauses-admit", T.den(result, V) == self.whole_den(t))]

    def allowed_raise(self, ex, args, exc):
        # C17: the only exception is dep_logic's InvalidSpecifier, and only for a text packaging rejects
        return z3.And(z3.BoolVal(exc == "InvalidSpecifier"), z3.Not(self.whole_ok(args[0].term)))

    def inv(self, st):
        t = self.tx.term
        acc = st.loc("__racc")
        j = z3.Int(fresh_name("ij"))
        done = st.k + 1
        return [("canonical", T.wf(acc)), ("den", T.den(acc, V) == self.whole_den_alt(t, done)),
                ("all-accepted-so-far", z3.ForAll([j], z3.Implies(z3.And(0 <= j, j < done), ok(z3.Select(parts(t), j)))))]

    def whole_den_alt(self, t, hi):
        j = z3.Int(fresh_name("dj"))
        return z3.Exists([j], z3.And(0 <= j, j < hi, tden(z3.Select(parts(t), j), V)))


def setup_parse(th):
    install_text_theory(th)
    p = Parse(th)
    contracts = {PQ: p, Q: FoldAtCallSite(th)}
    specs = {(PQ, "reduce0"): LoopSpec({"__racc": th.sshape}, p.inv)}
    return p, contracts, specs
