"""Mathematical lemmas about the canonical shape (C05 exactness, C14 corollaries), each a closed VC discharged on every run.

 * nonempty:      wf(r), r not Empty            =>  some version lies in r            (dense, unbounded order)
 * not-universal: wf(r), r not Any / Range()    =>  some version lies outside r
 * canon-unique:  wf(x), wf(y), same versions   =>  x == y (field-wise, `simplified` aside) - by induction on the range lists:
                  head / tail / base step lemmas are machine-checked here, the list-induction principle that combines them is the
                  one trusted step (stated in DESIGN.md).
The universally quantified hypothesis 'same versions' is used through explicit instances at witness points built from the bounds."""
from __future__ import annotations

import itertools

import z3

from pyvc.theories import spec as T
from pyvc.theories.spec import R, SpecDT
from pyvc.values import AList, fresh_name


def witness_in(r):
    """a point of a valid range"""
    return z3.If(z3.And(R.hmin(r), R.hmax(r)), (R.mn(r) + R.mx(r)) / 2, z3.If(R.hmin(r), R.mn(r) + 1, z3.If(R.hmax(r), R.mx(r) - 1, z3.RealVal(0))))


def lst(name):
    arr = z3.Const(fresh_name(name), z3.ArraySort(z3.IntSort(), T.RangeDT))
    n = z3.Int(fresh_name(name + "_n"))
    return AList(None, arr, z3.IntVal(0), n, True)


def den_l(l, v, lo=0):
    i = z3.Int(fresh_name("d"))
    return z3.Exists([i], z3.And(lo <= i, i < l.n, T.in_range(z3.Select(l.arr, i), v)))


def wf_l(l):
    return T.wf_list(l, min_len=0)


def req(a, b):
    """dataclass equality of two ranges (compare=False for `simplified`)"""
    return z3.And(T.lb_eq(a, b), T.ub_eq(a, b))


def lemmas():
    out = []
    # ---- nonempty / not-universal for single ranges
    r = z3.Const("r", T.RangeDT)
    out.append(("lemma.C05.range-nonempty", [T.valid(r)], T.in_range(r, witness_in(r))))
    out.append(("lemma.C05.range-not-universal", [T.valid(r), z3.Not(T.universal(r))],
                z3.Not(T.in_range(r, z3.If(R.hmin(r), R.mn(r) - 1, R.mx(r) + 1)))))
    # ---- unions: nonempty (first range), not universal (the gap between the first two ranges)
    A = lst("A")
    a0, a1 = z3.Select(A.arr, 0), z3.Select(A.arr, 1)
    out.append(("lemma.C05.union-nonempty", [wf_l(A), A.n >= 1], den_l(A, witness_in(a0))))
    gap = z3.If(R.mx(a0) < R.mn(a1), (R.mx(a0) + R.mn(a1)) / 2, R.mx(a0))
    out.append(("lemma.C05.union-not-universal", [wf_l(A), A.n >= 2], z3.Not(den_l(A, gap))))
    # ---- canonical uniqueness
    B = lst("B")
    b0, b1 = z3.Select(B.arr, 0), z3.Select(B.arr, 1)
    same = lambda v, la=0, lb=0: den_l(A, v, la) == den_l(B, v, lb)
    pts = []
    bounds = [R.mn(a0), R.mx(a0), R.mn(b0), R.mx(b0), R.mn(a1), R.mn(b1)]
    for p in bounds:
        pts += [p, p - 1, p + 1]
    for p, q in itertools.combinations(bounds, 2):
        pts.append((p + q) / 2)
    pts += [witness_in(a0), witness_in(b0), z3.RealVal(0)]
    hyp = [wf_l(A), wf_l(B), A.n >= 1, B.n >= 1] + [same(p) for p in pts]
    out.append(("lemma.C05.canon-unique.head-lower", hyp, T.lb_eq(a0, b0)))
    out.append(("lemma.C05.canon-unique.head-upper", hyp + [T.lb_eq(a0, b0)], T.ub_eq(a0, b0)))
    # base: a non-empty canonical list does not denote the empty set
    out.append(("lemma.C05.canon-unique.base", [wf_l(A), A.n >= 1, B.n == 0, same(witness_in(a0))], z3.BoolVal(False)))
    # tail: equal heads and equal denotations => equal denotations of the tails (pointwise at an arbitrary v)
    v = z3.Real("v!tail")
    out.append(("lemma.C05.canon-unique.tail", [wf_l(A), wf_l(B), A.n >= 1, B.n >= 1, req(a0, b0), same(v)], same(v, 1, 1)))
    return out
