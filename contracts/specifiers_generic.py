"""C19: string-atom specifier algebra (dep_logic/specifiers/generic.py + Empty/Any.__contains__), over SMT strings.
The membership of the ghost candidate string S in operands and result is computed by executing the real
`__contains__` methods; the post-condition is the property statement."""
from __future__ import annotations

import ast

import z3

from pyvc.values import Obj, fresh_name

OPS = ["==", "!=", "in", "not in"]
ALL_OPS = OPS + ["<", "<=", ">", ">="]
S = z3.String("s!ghost")


def generic(ex_index, op, name):
    return Obj(ex_index.cls("GenericSpecifier"), {"op": op, "value": z3.String(fresh_name(name))})


def b(x):
    return x if z3.is_expr(x) else z3.BoolVal(bool(x))


def binop_cases(index, opname):
    op = ast.BitAnd() if opname == "and" else ast.BitOr()
    comb = z3.And if opname == "and" else z3.Or
    for o1 in OPS:
        for o2 in OPS:
            a, c = generic(index, o1, "x"), generic(index, o2, "y")

            def thunk(ex, a=a, c=c):
                r = ex.binop(op, a, c)
                return (r, ex.contains(r, S), ex.contains(a, S), ex.contains(c, S))

            def post(ex, v):
                r, m, ma, mc = v
                ok_cls = isinstance(r, Obj) and r.cls.name in ("GenericSpecifier", "EmptySpecifier", "AnySpecifier")
                return [(f"law.C19.{opname}.returns-specifier", z3.BoolVal(ok_cls)),
                        (f"law.C19.{opname}.member", b(m) == comb(b(ma), b(mc)))]
            yield {"name": f"{o1}|{o2}", "pre": [], "thunk": thunk, "post": post, "args": (a, c),
                   "allowed_raise": (lambda exc: z3.BoolVal(exc == "NotImplementedError")),
                   "describe": describe}
        # aliased operands: the same object on both sides
        a = generic(index, o1, "x")
        yield {"name": f"{o1}|same-object", "pre": [], "thunk": (lambda ex, a=a: (lambda r: (r, ex.contains(r, S), ex.contains(a, S), ex.contains(a, S)))(ex.binop(op, a, a))),
               "post": post, "args": (a, a), "allowed_raise": (lambda exc: z3.BoolVal(exc == "NotImplementedError")), "describe": describe}


def invert_cases(index):
    for o1 in ALL_OPS:
        a = generic(index, o1, "x")

        def thunk(ex, a=a):
            r = ex.invert(a)
            return (r, ex.contains(r, S), ex.contains(a, S))

        def post(ex, v):
            r, m, ma = v
            return [("law.C19.invert.returns-specifier", z3.BoolVal(isinstance(r, Obj) and r.cls.name == "GenericSpecifier")),
                    ("law.C19.invert.member", b(m) == z3.Not(b(ma)))]
        yield {"name": o1, "pre": [], "thunk": thunk, "post": post, "args": (a,), "describe": describe}


def special_cases(index):
    for cname, exp in (("EmptySpecifier", False), ("AnySpecifier", True)):
        o = Obj(index.cls(cname))
        yield {"name": cname, "pre": [], "thunk": (lambda ex, o=o: ex.contains(o, S)),
               "post": (lambda ex, m, exp=exp, cname=cname: [(f"law.C19.{cname}.member", b(m) == z3.BoolVal(exp))]), "args": (o,), "describe": describe}


def post_init_cases(index):
    for o1 in ALL_OPS + ["~=", "===", "=", ""]:
        def thunk(ex, o1=o1):
            return ex.construct(index.cls("GenericSpecifier"), [o1, z3.String(fresh_name("v"))], {})
        yield {"name": repr(o1), "pre": [], "thunk": thunk,
               "post": (lambda ex, r, o1=o1: [("law.C19.constructor.accepts-only-known-operators", z3.BoolVal(o1 in ALL_OPS))]),
               "allowed_raise": (lambda exc, o1=o1: z3.BoolVal(exc == "InvalidSpecifier" and o1 not in ALL_OPS)), "args": ()}


def describe(m, args, result=None):
    out = {"candidate": _s(m, S)}
    for n, a in zip(("a", "b"), args or ()):
        if isinstance(a, Obj) and "value" in a.fields:
            out[n] = {"op": a.fields["op"], "value": _s(m, a.fields["value"])}
        elif isinstance(a, Obj):
            out[n] = {"cls": a.cls.name}
    return out


def _s(m, t):
    v = m.eval(t, model_completion=True)
    return v.as_string() if z3.is_string_value(v) else str(v)
