"""Property-level theorems for the specifier algebra (C01, C05, C14), proved from the callee contracts only:
the operators are resolved through the modelled dispatch protocol over the 4x4 class table."""
from __future__ import annotations

import ast

import z3

from pyvc.theories import spec as T
from pyvc.theories.spec import V
from pyvc.values import NOTIMPL, Obj, SymObj

from .specifiers_range import cls_is, b

CLASSES = ["EmptySpecifier", "AnySpecifier", "RangeSpecifier", "UnionSpecifier"]


def _never(cls, *vals):
    return z3.Not(z3.Or(*[b(cls_is(v, cls)) for v in vals]))


def law_binop(name, combine):
    """law contract used modularly at call sites with a symbolic-class operand"""
    def law(ex, a, c):
        ex.oblige(f"pre@law.{name}", z3.And(T.wf(a), T.wf(c)))
        res = ex.theory.sshape.fresh("law_" + name)
        ex.assume(T.wf(res))
        ex.assume(T.den(res, V) == combine(T.den(a, V), T.den(c, V)))
        if hasattr(ex.theory, "law_log"):
            ex.theory.law_log.append(lambda p, res=res, a=a, c=c: T.den(res, p) == combine(T.den(a, p), T.den(c, p)))
        if name == "or":
            ex.assume(z3.Implies(_never("EmptySpecifier", a, c), z3.Not(b(cls_is(res, "EmptySpecifier")))))
            ex.assume(z3.Implies(_never("AnySpecifier", a, c), z3.Not(b(cls_is(res, "AnySpecifier")))))
        else:
            ex.assume(z3.Implies(_never("AnySpecifier", a, c), z3.Not(b(cls_is(res, "AnySpecifier")))))
        return res
    return law


def law_invert(ex, a):
    ex.oblige("pre@law.invert", T.wf(a))
    res = ex.theory.sshape.fresh("law_invert")
    ex.assume(T.wf(res))
    ex.assume(T.den(res, V) == z3.Not(T.den(a, V)))
    if hasattr(ex.theory, "law_log"):
        ex.theory.law_log.append(lambda p, res=res, a=a: T.den(res, p) == z3.Not(T.den(a, p)))
    return res


LAWS = {"__or__": law_binop("or", z3.Or), "__and__": law_binop("and", z3.And), "invert": law_invert}


def witness_of(res):
    """a point inside a non-empty canonical result / outside a non-universal one (cf. contracts/lemmas_spec.py)"""
    from .lemmas_spec import witness_in
    t = res.term
    r0 = z3.Select(T.SpecDT.rs(t), 0)
    r1 = z3.Select(T.SpecDT.rs(t), 1)
    rr = T.SpecDT.rng(t)
    inside = z3.If(T.SpecDT.is_SRng(t), witness_in(rr), witness_in(r0))
    gap = z3.If(T.R.mx(r0) < T.R.mn(r1), (T.R.mx(r0) + T.R.mn(r1)) / 2, T.R.mx(r0))
    outside = z3.If(T.SpecDT.is_SRng(t), z3.If(T.R.hmin(rr), T.R.mn(rr) - 1, T.R.mx(rr) + 1), gap)
    return inside, outside


def c14_cases(th):
    """Boolean-algebra laws as corollaries of the C01/C05 law contracts (operands of arbitrary class):
    both sides canonical and with the same versions (=> equal objects by canonical uniqueness); a & ~a empty, a | ~a universal"""
    AND, OR = ast.BitAnd(), ast.BitOr()
    a, b2, c = (th.sshape.fresh(n) for n in "abc")
    pre = [T.wf(a), T.wf(b2), T.wf(c)]

    def mk(name, f):
        def thunk(ex):
            ex.theory.law_log = []
            return f(ex)

        def post(ex, v):
            l, r = v
            return [(f"law.C14.{name}.both-canonical", z3.And(T.wf(l), T.wf(r))), (f"law.C14.{name}.same-versions", T.den(l, V) == T.den(r, V))]
        return {"name": name, "pre": pre, "thunk": thunk, "post": post, "args": (a, b2, c)}
    B = lambda ex, op, x, y: ex.binop(op, x, y)
    I = lambda ex, x: ex.invert(x)
    yield mk("commutative-and", lambda ex: (B(ex, AND, a, b2), B(ex, AND, b2, a)))
    yield mk("commutative-or", lambda ex: (B(ex, OR, a, b2), B(ex, OR, b2, a)))
    yield mk("associative-and", lambda ex: (B(ex, AND, B(ex, AND, a, b2), c), B(ex, AND, a, B(ex, AND, b2, c))))
    yield mk("associative-or", lambda ex: (B(ex, OR, B(ex, OR, a, b2), c), B(ex, OR, a, B(ex, OR, b2, c))))
    yield mk("idempotent-and", lambda ex: (B(ex, AND, a, a), a))
    yield mk("idempotent-or", lambda ex: (B(ex, OR, a, a), a))
    yield mk("absorption-1", lambda ex: (B(ex, AND, a, B(ex, OR, a, b2)), a))
    yield mk("absorption-2", lambda ex: (B(ex, OR, a, B(ex, AND, a, b2)), a))
    yield mk("distributive-1", lambda ex: (B(ex, AND, a, B(ex, OR, b2, c)), B(ex, OR, B(ex, AND, a, b2), B(ex, AND, a, c))))
    yield mk("distributive-2", lambda ex: (B(ex, OR, a, B(ex, AND, b2, c)), B(ex, AND, B(ex, OR, a, b2), B(ex, OR, a, c))))
    yield mk("involution", lambda ex: (I(ex, I(ex, a)), a))
    yield mk("de-morgan-1", lambda ex: (I(ex, B(ex, AND, a, b2)), B(ex, OR, I(ex, a), I(ex, b2))))
    yield mk("de-morgan-2", lambda ex: (I(ex, B(ex, OR, a, b2)), B(ex, AND, I(ex, a), I(ex, b2))))

    def excluded(name, op):
        def thunk(ex):
            ex.theory.law_log = []
            r = ex.binop(op, a, ex.invert(a))
            inside, outside = witness_of(r)
            for inst in list(ex.theory.law_log):       # the laws hold at every point: instantiate them at the witnesses of the result
                ex.assume(inst(inside))
                ex.assume(inst(outside))
            return r

        def post(ex, r):
            if name == "and":
                return [("law.C14.complement-and-is-empty", b(cls_is(r, "EmptySpecifier")))]
            return [("law.C14.complement-or-is-universal", z3.Or(b(cls_is(r, "AnySpecifier")), z3.And(b(cls_is(r, "RangeSpecifier")), T.universal(T.SpecDT.rng(r.term)))))]
        return {"name": "complement-" + name, "pre": [T.wf(a)], "thunk": thunk, "post": post, "args": (a,)}
    yield excluded("and", AND)
    yield excluded("or", OR)


def binop_cases(th, opname):
    op = ast.BitAnd() if opname == "and" else ast.BitOr()
    combine = z3.And if opname == "and" else z3.Or
    for ca in CLASSES:
        for cb in CLASSES:
            a, c = th.sym_of_class(ca, "a"), th.sym_of_class(cb, "b")

            def post(ex, r, a=a, c=c):
                if not T.is_spec(r):
                    return [(f"law.C01.{opname}.returns-specifier", z3.BoolVal(False))]
                cl = [(f"law.C05.{opname}.wf", T.wf(r)),
                      (f"law.C01.{opname}.den", T.den(r, V) == combine(T.den(a, V), T.den(c, V)))]
                # the class facts that the modular law contract promises
                cl.append((f"law.C05.{opname}.no-spurious-any", z3.Implies(_never("AnySpecifier", a, c), z3.Not(b(cls_is(r, "AnySpecifier"))))))
                if opname == "or":
                    cl.append((f"law.C05.{opname}.no-spurious-empty", z3.Implies(_never("EmptySpecifier", a, c), z3.Not(b(cls_is(r, "EmptySpecifier"))))))
                return cl
            yield {"name": f"{ca}-{cb}", "pre": [T.wf(a), T.wf(c)], "thunk": (lambda ex, a=a, c=c: ex.binop(op, a, c)),
                   "post": post, "args": (a, c)}


def invert_cases(th):
    for ca in CLASSES:
        a = th.sym_of_class(ca, "a")

        def post(ex, r, a=a):
            if not T.is_spec(r):
                return [("law.C01.invert.returns-specifier", z3.BoolVal(False))]
            return [("law.C05.invert.wf", T.wf(r)), ("law.C01.invert.den", T.den(r, V) == z3.Not(T.den(a, V)))]
        yield {"name": ca, "pre": [T.wf(a)], "thunk": (lambda ex, a=a: ex.invert(a)), "post": post, "args": (a,)}
