"""Property-level theorems for the specifier algebra (C01, C05, C14), proved from the callee contracts only:
the operators are resolved through the modelled dispatch protocol over the 4x4 class table."""
from __future__ import annotations

import ast

import z3

from pyvc.theories import spec as T
from pyvc.theories.spec import V
from pyvc.values import NOTIMPL, Obj, SymObj

from .specifiers_range import cls_is, b

CLASSES = ["EmptySpecifier", "AnySpecifier", "RangeSpecifier", "UnionSpecifier"]


def _never(cls, *vals):
    return z3.Not(z3.Or(*[b(cls_is(v, cls)) for v in vals]))


def law_binop(name, combine):
    """law contract used modularly at call sites with a symbolic-class operand"""
    def law(ex, a, c):
        ex.oblige(f"pre@law.{name}", z3.And(T.wf(a), T.wf(c)))
        res = ex.theory.sshape.fresh("law_" + name)
        ex.assume(T.wf(res))
        ex.assume(T.den(res, V) == combine(T.den(a, V), T.den(c, V)))
        if name == "or":
            ex.assume(z3.Implies(_never("EmptySpecifier", a, c), z3.Not(b(cls_is(res, "EmptySpecifier")))))
            ex.assume(z3.Implies(_never("AnySpecifier", a, c), z3.Not(b(cls_is(res, "AnySpecifier")))))
        else:
            ex.assume(z3.Implies(_never("AnySpecifier", a, c), z3.Not(b(cls_is(res, "AnySpecifier")))))
        return res
    return law


LAWS = {"__or__": law_binop("or", z3.Or), "__and__": law_binop("and", z3.And)}


def binop_cases(th, opname):
    op = ast.BitAnd() if opname == "and" else ast.BitOr()
    combine = z3.And if opname == "and" else z3.Or
    for ca in CLASSES:
        for cb in CLASSES:
            a, c = th.sym_of_class(ca, "a"), th.sym_of_class(cb, "b")

            def post(ex, r, a=a, c=c):
                if not T.is_spec(r):
                    return [(f"law.C01.{opname}.returns-specifier", z3.BoolVal(False))]
                cl = [(f"law.C05.{opname}.wf", T.wf(r)),
                      (f"law.C01.{opname}.den", T.den(r, V) == combine(T.den(a, V), T.den(c, V)))]
                # the class facts that the modular law contract promises
                cl.append((f"law.C05.{opname}.no-spurious-any", z3.Implies(_never("AnySpecifier", a, c), z3.Not(b(cls_is(r, "AnySpecifier"))))))
                if opname == "or":
                    cl.append((f"law.C05.{opname}.no-spurious-empty", z3.Implies(_never("EmptySpecifier", a, c), z3.Not(b(cls_is(r, "EmptySpecifier"))))))
                return cl
            yield {"name": f"{ca}-{cb}", "pre": [T.wf(a), T.wf(c)], "thunk": (lambda ex, a=a, c=c: ex.binop(op, a, c)),
                   "post": post, "args": (a, c)}


def invert_cases(th):
    for ca in CLASSES:
        a = th.sym_of_class(ca, "a")

        def post(ex, r, a=a):
            if not T.is_spec(r):
                return [("law.C01.invert.returns-specifier", z3.BoolVal(False))]
            return [("law.C05.invert.wf", T.wf(r)), ("law.C01.invert.den", T.den(r, V) == z3.Not(T.den(a, V)))]
        yield {"name": ca, "pre": [T.wf(a)], "thunk": (lambda ex, a=a: ex.invert(a)), "post": post, "args": (a,)}
