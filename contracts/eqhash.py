"""C13: == is an equivalence compatible with hash(), equal objects are interchangeable.  Finite case split over the
classes with symbolic fields; `==`/`hash` are resolved by the modelled Python protocol on the real methods
(hand-written __eq__/__hash__ from the AST, dataclass-generated ones synthesised from the field flags)."""
from __future__ import annotations

import ast

import z3

from pyvc.theories import spec as T
from pyvc.theories.spec import V
from pyvc.values import Obj, Opt, fresh_name

from .specifiers_generic import S

SPEC_CLASSES = ["EmptySpecifier", "AnySpecifier", "RangeSpecifier", "UnionSpecifier", "ArbitrarySpecifier", "GenericSpecifier"]
MARKER_CLASSES = ["AnyMarker", "EmptyMarker", "MarkerExpression"]
CLASSES = SPEC_CLASSES + MARKER_CLASSES
GENERIC_OPS = ["==", "!=", "in", "not in", ">", ">=", "<", "<="]


def b(x):
    return x if z3.is_expr(x) else z3.BoolVal(bool(x))


def sym(th, cname, name):
    ix = th.index
    if cname in ("RangeSpecifier", "UnionSpecifier", "EmptySpecifier", "AnySpecifier"):
        o = th.sym_of_class(cname, name)
        return o, [T.wf(o)]
    if cname == "ArbitrarySpecifier":
        return Obj(ix.cls(cname), {"target": z3.String(fresh_name(name + "_t"))}), []
    if cname == "GenericSpecifier":
        op = z3.String(fresh_name(name + "_op"))
        return Obj(ix.cls(cname), {"op": op, "value": z3.String(fresh_name(name + "_v"))}), [z3.Or(*[op == z3.StringVal(o) for o in GENERIC_OPS])]
    if cname == "MarkerExpression":
        return Obj(ix.cls(cname), {"name": z3.String(fresh_name(name + "_n")), "op": z3.String(fresh_name(name + "_o")), "value": z3.String(fresh_name(name + "_v")),
                                   "reversed": z3.Bool(fresh_name(name + "_r")), "_specifier": None}), []
    return Obj(ix.cls(cname)), []


def hash_axiom(ex, x, y):
    """instance of 'the hash of a tuple is a function of the hashes of its items' for two unions' `ranges`"""
    if not (isinstance(x, Obj) and isinstance(y, Obj) and x.cls.name == y.cls.name == "UnionSpecifier"):
        return []
    rx, ry = x.fields["ranges"], y.fields["ranges"]
    i = z3.Int(fresh_name("hi"))
    hr = lambda t: ex.hash_of(ex.theory.rshape.dec(t))
    return [z3.Implies(z3.And(rx.n == ry.n, z3.ForAll([i], z3.Implies(z3.And(0 <= i, i < rx.n), hr(z3.Select(rx.arr, i)) == hr(z3.Select(ry.arr, i))))),
                       ex.theory.hash_alist(ex, rx) == ex.theory.hash_alist(ex, ry))]


def meaning(ex, o):
    """observable meaning of an object at the ghost points (None when covered by the read-set obligation instead)"""
    n = o.cls.name
    if n in ("EmptySpecifier", "AnySpecifier", "RangeSpecifier", "UnionSpecifier"):
        return T.den(o, V)
    if n == "GenericSpecifier":
        return b(ex.contains(o, S))
    if n == "ArbitrarySpecifier":
        return o.fields["target"] == S
    if n == "AnyMarker":
        return z3.BoolVal(True)
    if n == "EmptyMarker":
        return z3.BoolVal(False)
    return None


def pair_cases(th):
    for cx in CLASSES:
        for cy in CLASSES:
            x, px = sym(th, cx, "x")
            y, py = sym(th, cy, "y")

            def thunk(ex, x=x, y=y):
                for ax in hash_axiom(ex, x, y):
                    ex.assume(ax)
                exy, eyx = ex.equals(x, y), ex.equals(y, x)
                if not ex.truth(exy):
                    return (exy, eyx, None, None, None, None)
                mx, my = meaning(ex, x), meaning(ex, y)
                return (exy, eyx, ex.hash_of(x), ex.hash_of(y), mx, my)

            def post(ex, v):
                exy, eyx, hx, hy, mx, my = v
                cl = [("law.C13.symmetric", b(exy) == b(eyx))]
                if hx is not None:
                    cl.append(("law.C13.hash", hx == hy))
                    if mx is not None and my is not None:
                        cl.append(("law.C13.interchangeable", mx == my))
                return cl
            yield {"name": f"{cx}-{cy}", "pre": px + py, "thunk": thunk, "post": post, "args": (x, y), "describe": describe}


def reflexive_cases(th):
    for cx in CLASSES:
        x, px = sym(th, cx, "x")
        yield {"name": cx, "pre": px, "thunk": (lambda ex, x=x: ex.equals(x, x)), "post": (lambda ex, v: [("law.C13.reflexive", b(v))]),
               "args": (x,), "describe": describe}


def triple_cases(th, classes):
    for cx in classes:
        for cy in classes:
            for cz in classes:
                x, px = sym(th, cx, "x")
                y, py = sym(th, cy, "y")
                z, pz = sym(th, cz, "z")

                def thunk(ex, x=x, y=y, z=z):
                    if not ex.truth(ex.equals(x, y)) or not ex.truth(ex.equals(y, z)):
                        return True
                    return ex.equals(x, z)
                yield {"name": f"{cx}-{cy}-{cz}", "pre": px + py + pz, "thunk": thunk, "post": (lambda ex, v: [("law.C13.transitive", b(v))]),
                       "args": (x, y, z), "describe": describe}


def readset_cases(index):
    """frame obligation: the meaning/text of a MarkerExpression is a function of the fields __eq__ compares
    (every attribute of `self` read by _evaluate/__str__/_get_specifier is a compared field; the lazy cache
    `_specifier` is only read through `specifier`, which fills it from _get_specifier)"""
    cls = index.cls("MarkerExpression")
    compared = {f.name for f in index.all_fields(cls) if f.compare}
    out = []
    for meth in ("_evaluate", "__str__", "_get_specifier"):
        f = cls.methods[meth]
        reads = {n.attr for n in ast.walk(f.node) if isinstance(n, ast.Attribute) and isinstance(n.value, ast.Name) and n.value.id == "self"
                 and isinstance(n.ctx, ast.Load)}
        data = {r for r in reads if r in {fl.name for fl in index.all_fields(cls)}}
        out.append((meth, sorted(data - compared)))
    return out


def describe(m, args, result=None):
    out = {}
    for n, a in zip(("x", "y", "z"), args or ()):
        if not isinstance(a, Obj):
            continue
        c = a.cls.name
        if c in ("RangeSpecifier", "UnionSpecifier"):
            out[n] = T.model_value(m, a)
        else:
            d = {"cls": c}
            for k, v in a.fields.items():
                if z3.is_expr(v):
                    e = m.eval(v, model_completion=True)
                    d[k] = e.as_string() if z3.is_string_value(e) else str(e)
            out[n] = d
    return out


# ---------------------------------------------------------------- compound markers and atom groups: the induction step
def compound_theory(ix):
    """T-MARK with hashes: children are abstract markers on which == is assumed to be an equivalence compatible with hash (the induction
    hypothesis of the structural induction over marker depth; its base is the atom-level part above)"""
    from pyvc.theories.marker import MK, MarkerTheory, eqm
    hm = z3.Function("hash_marker", MK, z3.IntSort())
    HLM = z3.Function("hash_tuple_of_markers", z3.ArraySort(z3.IntSort(), MK), z3.IntSort(), z3.IntSort())
    HLS = z3.Function("hash_tuple_of_strings", z3.ArraySort(z3.IntSort(), z3.StringSort()), z3.IntSort(), z3.IntSort())

    class Th(MarkerTheory):
        def hash_of(self, ex, v):
            return hm(v.term)

        def hash_alist(self, ex, l):
            return (HLM if l.shape is self.shape else HLS)(l.arr, l.n)

        def builtin(self, ex, name, args, kw):
            from pyvc.values import AList
            if name == "tuple" and len(args) == 1 and isinstance(args[0], AList):
                l = args[0]
                return AList(l.shape, l.arr, z3.IntVal(0), l.n, True)
            return NotImplemented
    th = Th(ix)
    x, y, zz = z3.Const("x!ih", MK), z3.Const("y!ih", MK), z3.Const("z!ih", MK)
    ih = [z3.ForAll([x], eqm(x, x)), z3.ForAll([x, y], eqm(x, y) == eqm(y, x)),
          z3.ForAll([x, y, zz], z3.Implies(z3.And(eqm(x, y), eqm(y, zz)), eqm(x, zz))),
          z3.ForAll([x, y], z3.Implies(eqm(x, y), hm(x) == hm(y)))]

    def tuple_hash_law(ex, a, c):
        """A-STDLIB: the hash of a tuple is a function of its length and of the hashes of its items"""
        i = z3.Int(fresh_name("hi"))
        if a.shape is th.shape:
            item = lambda l: hm(z3.Select(l.arr, i))
            H = HLM
        else:
            item = lambda l: ex.hash_of(z3.Select(l.arr, i))
            H = HLS
        return z3.Implies(z3.And(a.n == c.n, z3.ForAll([i], z3.Implies(z3.And(0 <= i, i < a.n), item(a) == item(c)))), H(a.arr, a.n) == H(c.arr, c.n))
    return th, ih, tuple_hash_law


COMPOUND_CLASSES = ["MultiMarker", "MarkerUnion", "EqualityMarkerUnion", "InequalityMultiMarker", "MarkerExpression", "AnyMarker"]


def sym_compound(th, cname, name):
    from pyvc.values import ListS, STR
    ix = th.index
    if cname in ("MultiMarker", "MarkerUnion"):
        l = ListS(th.shape, is_tuple=True).fresh(name + "_markers")
        return Obj(ix.cls(cname), {"markers": l}), [l.n >= 0], [l]
    if cname in ("EqualityMarkerUnion", "InequalityMultiMarker"):
        d = ListS(STR).fresh(name + "_values")
        return Obj(ix.cls(cname), {"name": z3.String(fresh_name(name + "_n")), "values": Obj(ix.cls("OrderedSet"), {"_data": d})}), [d.n >= 0], [d]
    o, pre = sym(th, cname, name)
    return o, pre, []


def compound_cases(th, ih, law):
    both = lambda ls1, ls2, ex: [law(ex, a, c) for a in ls1 for c in ls2 if a.shape is c.shape]
    for cx in COMPOUND_CLASSES[:4]:
        x, px, lx = sym_compound(th, cx, "x")
        yield {"name": f"reflexive.{cx}", "pre": px + ih, "thunk": (lambda ex, x=x: ex.equals(x, x)), "post": (lambda ex, v: [("law.C13.step.reflexive", b(v))]), "args": ()}
        for cy in COMPOUND_CLASSES:
            y, py, ly = sym_compound(th, cy, "y")

            def thunk(ex, x=x, y=y, lx=lx, ly=ly):
                for ax in both(lx, ly, ex):
                    ex.assume(ax)
                exy, eyx = ex.equals(x, y), ex.equals(y, x)
                if not ex.truth(exy):
                    return (exy, eyx, None, None)
                return (exy, eyx, ex.hash_of(x), ex.hash_of(y))

            def post(ex, v):
                exy, eyx, hx, hy = v
                cl = [("law.C13.step.symmetric", b(exy) == b(eyx))]
                if hx is not None:
                    cl.append(("law.C13.step.hash", hx == hy))
                return cl
            yield {"name": f"pair.{cx}-{cy}", "pre": px + py + ih, "thunk": thunk, "post": post, "args": ()}
        y, py, ly = sym_compound(th, cx, "y")
        w, pw, lw = sym_compound(th, cx, "w")

        def thunk3(ex, x=x, y=y, w=w):
            if not ex.truth(ex.equals(x, y)) or not ex.truth(ex.equals(y, w)):
                return True
            return ex.equals(x, w)
        yield {"name": f"triple.{cx}", "pre": px + py + pw + ih, "thunk": thunk3, "post": (lambda ex, v: [("law.C13.step.transitive", b(v))]), "args": ()}
