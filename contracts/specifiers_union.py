"""Contracts and loop invariants for dep_logic/specifiers/union.py (DESIGN Appendix A.2).
All invariants are ghost-free: they speak about validity, pairwise separation and the pointwise denotation."""
from __future__ import annotations

import z3

from pyvc.engine import Contract, LoopSpec
from pyvc.theories import spec as T
from pyvc.theories.spec import R, V, SpecDT
from pyvc.values import NOTIMPL, Obj, SymObj, AList, ListS, fresh_name

from .specifiers_range import cls_is, rng_of, b, OTHER_CASES

M = "dep_logic.specifiers.union:UnionSpecifier."


def at(l, i):
    return z3.Select(l.arr, i)


def forall(l, f, lo=0, hi=None):
    i = z3.Int(fresh_name("i"))
    hi = l.n if hi is None else hi
    return z3.ForAll([i], z3.Implies(z3.And(lo <= i, i < hi), f(at(l, i), i)))


def exists(l, f, lo=0, hi=None):
    i = z3.Int(fresh_name("e"))
    hi = l.n if hi is None else hi
    return z3.Exists([i], z3.And(lo <= i, i < hi, f(at(l, i), i)))


def forall_pairs(l, f):
    i, j = z3.Int(fresh_name("p")), z3.Int(fresh_name("q"))
    return z3.ForAll([i, j], z3.Implies(z3.And(0 <= i, i < j, j < l.n), f(at(l, i), at(l, j))))


def seq_exists(seq, f, hi=None):
    """exists over an abstract list or a concrete python list of range objects"""
    if isinstance(seq, AList):
        return exists(seq, lambda x, i: f(x), hi=hi)
    items = list(seq) if hi is None else None
    return z3.Or(*[f(T.rterm(x)) for x in items]) if items else z3.BoolVal(False)


def ranges_of(u):
    return u.fields["ranges"]


def list_ok(N):
    return [("len-nonneg", N.n >= 0), ("elems-valid", forall(N, lambda x, i: T.valid(x))), ("elems-separated", forall_pairs(N, T.sep))]


class UnionContract(Contract):
    def requires(self, ex, self_, *rest):
        cl = [T.wf(self_)]
        for o in rest:
            if isinstance(o, Obj) and o.cls.name in ("RangeSpecifier", "UnionSpecifier"):
                cl.append(T.wf(o))
        return z3.And(*cl)

    def allowed_raise(self, ex, args, exc):
        return z3.BoolVal(False)

    def cases(self, th):
        for oc in OTHER_CASES:
            yield f"union-{oc}", [th.sym_union("self"), th.sym_of_class(oc, "other")], []

    def result(self, ex, args):
        if len(args) > 1 and cls_is(args[1], "RangeSpecifier") is not True and cls_is(args[1], "UnionSpecifier") is not True:
            return NOTIMPL
        return ex.theory.sshape.fresh("ures")


class Invert(UnionContract):
    target = M + "__invert__"

    def cases(self, th):
        yield "union", [th.sym_union("self")], []

    def ensures(self, ex, args, result):
        if not T.is_spec(result):
            return [("returns-specifier", z3.BoolVal(False))]
        return [("wf", T.wf(result)), ("never-any", z3.Not(b(cls_is(result, "AnySpecifier")))),
                ("den", T.den(result, V) == z3.Not(T.den(args[0], V)))]

    @staticmethod
    def inv0(st):
        Rs = ranges_of(st.loc("self"))
        G = st.loc("to_union")
        k = st.k
        h = z3.If(R.hmin(at(Rs, 0)), 1, 0)
        return [("len", z3.And(G.n == h + k, k <= Rs.n - 1, G.off == 0)), *list_ok(G),
                ("below-current", forall(G, lambda x, i: T.below(x, at(Rs, k)))),
                ("den", exists(G, lambda x, i: T.in_range(x, V)) ==
                 z3.And(z3.Not(T.lb_sat(at(Rs, k), V)), z3.Not(exists(Rs, lambda x, i: T.in_range(x, V), hi=k))))]


class And(UnionContract):
    target = M + "__and__"

    def ensures(self, ex, args, result):
        other = args[1]
        if cls_is(other, "RangeSpecifier") is not True and cls_is(other, "UnionSpecifier") is not True:
            return [("notimplemented", b(result is NOTIMPL))]
        if not T.is_spec(result):
            return [("returns-specifier", z3.BoolVal(False))]
        return [("wf", T.wf(result)), ("never-any", z3.Not(b(cls_is(result, "AnySpecifier")))),
                ("den", T.den(result, V) == z3.And(T.den(args[0], V), T.den(other, V)))]

    @staticmethod
    def outer(st):
        Rs = ranges_of(st.loc("self"))
        S = st.loc("to_intersect")
        N = st.loc("__acc")
        i = st.k
        j2 = z3.Int(fresh_name("r"))
        return [("off", N.off == 0), *list_ok(N),
                ("below-rest", forall(N, lambda x, k: z3.ForAll([j2], z3.Implies(z3.And(i <= j2, j2 < Rs.n), T.sep(x, at(Rs, j2)))))),
                ("den", exists(N, lambda x, k: T.in_range(x, V)) ==
                 z3.And(exists(Rs, lambda x, k: T.in_range(x, V), hi=i), seq_exists(S, lambda x: T.in_range(x, V))))]

    @staticmethod
    def inner(st):
        Rs = ranges_of(st.loc("self"))
        S = st.loc("to_intersect")
        N = st.loc("__acc")
        i = st.loc("__k0g0")
        j = st.k
        p, q = z3.Int(fresh_name("r")), z3.Int(fresh_name("s"))
        rest_R = lambda x, lo: z3.ForAll([p], z3.Implies(z3.And(lo <= p, p < Rs.n), T.sep(x, at(Rs, p))))
        rest_S = lambda x: z3.ForAll([q], z3.Implies(z3.And(j <= q, q < S.n), T.sep(x, at(S, q))))
        return [("off", N.off == 0), ("outer-index", z3.And(0 <= i, i < Rs.n)), *list_ok(N),
                ("below-rest", forall(N, lambda x, k: z3.Or(rest_R(x, i), z3.And(rest_S(x), rest_R(x, i + 1))))),
                ("den", exists(N, lambda x, k: T.in_range(x, V)) ==
                 z3.Or(z3.And(exists(Rs, lambda x, k: T.in_range(x, V), hi=i), exists(S, lambda x, k: T.in_range(x, V))),
                       z3.And(T.in_range(at(Rs, i), V), exists(S, lambda x, k: T.in_range(x, V), hi=j))))]


class Or(UnionContract):
    target = M + "__or__"

    def ensures(self, ex, args, result):
        other = args[1]
        if cls_is(other, "RangeSpecifier") is not True and cls_is(other, "UnionSpecifier") is not True:
            return [("notimplemented", b(result is NOTIMPL))]
        if not T.is_spec(result):
            return [("returns-specifier", z3.BoolVal(False))]
        return [("wf", T.wf(result)), ("never-empty", z3.Not(b(cls_is(result, "EmptySpecifier")))),
                ("never-any", z3.Not(b(cls_is(result, "AnySpecifier")))),
                ("den", T.den(result, V) == z3.Or(T.den(args[0], V), T.den(other, V)))]

    @staticmethod
    def merge(st):
        Rs = ranges_of(st.loc("self"))
        N = st.loc("new_ranges")
        o = st.loc("other")
        o0 = T.rterm(st.pre("other"))
        k = st.k
        p = z3.Int(fresh_name("r"))
        ot = rng_of(o)
        return [("other-is-range", b(cls_is(o, "RangeSpecifier"))), ("off", N.off == 0), ("other-valid", T.valid(ot)),
                *list_ok(N),
                ("sep-from-other", forall(N, lambda x, i: T.sep(x, ot))),
                ("below-rest", forall(N, lambda x, i: z3.ForAll([p], z3.Implies(z3.And(k <= p, p < Rs.n), T.sep(x, at(Rs, p)))))),
                ("den", z3.Or(exists(N, lambda x, i: T.in_range(x, V)), T.in_range(ot, V)) ==
                 z3.Or(exists(Rs, lambda x, i: T.in_range(x, V), hi=k), T.in_range(o0, V)))]

    @staticmethod
    def fold(st):
        S = ranges_of(st.loc("other"))
        res = st.loc("result")
        k = st.k
        return [("wf", T.wf(res)), ("is-spec", b(T.is_spec(res))),
                ("not-empty-any", z3.And(z3.Not(b(cls_is(res, "EmptySpecifier"))), z3.Not(b(cls_is(res, "AnySpecifier"))))),
                ("den", T.den(res, V) == z3.Or(T.den(st.loc("self"), V), exists(S, lambda x, i: T.in_range(x, V), hi=k)))]


def loop_specs(th):
    RL = ListS(th.rshape)
    return {
        (M + "__invert__", 0): LoopSpec({"to_union": RL}, Invert.inv0),
        (M + "__and__", 0): (RL, [LoopSpec({"__acc": RL}, And.outer), LoopSpec({"__acc": RL}, And.inner)]),
        (M + "__or__", 0): LoopSpec({"new_ranges": RL, "other": th.rshape}, Or.merge),
        (M + "__or__", 1): LoopSpec({"result": th.sshape}, Or.fold),
    }


ALL = [Invert(), And(), Or()]
