"""C08: EnvSpec._evaluate_python on every (python tag, abi tag) of the finite PEP 425/3149/703 universe (concrete strings),
for *all* requires_python sets (abstract) and the five implementation settings.
Post-condition from the property statement: compatible  <=>  some version admitted by requires_python can load the wheel."""
from __future__ import annotations

import z3

from pyvc.engine import Contract
from pyvc.theories.envspec import parse_by_shape, ver
from pyvc.values import Obj, fresh_name

Q = "dep_logic.tags.tags:EnvSpec._evaluate_python"
IMPLS = [(None, False), ("cpython", False), ("cpython", True), ("pypy", False), ("pyston", False)]
SHORT = {"cpython": "cp", "pypy": "pp", "pyston": "pt"}


class ParseByShape(Contract):
    target = "dep_logic.specifiers:parse_version_specifier"

    def __init__(self, index):
        self.index = index

    def result(self, ex, args):
        if not isinstance(args[0], str):
            from pyvc.values import OutsideSubset
            raise OutsideSubset("parse_version_specifier on a symbolic string")
        return parse_by_shape(self.index, args[0])


def universe():
    tags = []
    for X in (2, 3):
        for Y in range(0, 21):
            for kind in ("cp", "py", "pp"):
                tags.append(f"{kind}{X}{Y}")
        for kind in ("cp", "py", "pp"):
            tags.append(f"{kind}{X}")
    pairs = []
    for t in tags:
        abis = ["none", "abi3"]
        if t[:2] == "cp":
            abis += [t, t + "m", t + "t", "cp39", "cp313t"]
        if t[:2] == "pp":
            abis += [f"pypy{t[2:]}_pp73", "pypy38_pp73"]
        for a in dict.fromkeys(abis):
            pairs.append((t, a))
    return pairs


def loads_interval(py_tag, abi, impl, gil):
    """[lo, hi) of interpreter versions that can load the wheel (hi None = unbounded), or None if none can.
    Transcribed from the statement of C08."""
    kind, digits = py_tag[:2], py_tag[2:]
    if impl is not None and kind not in (SHORT[impl], "py"):
        return None
    if not digits.isdigit():
        return None
    X = int(digits[0])
    Y = int(digits[1:]) if len(digits) > 1 else None
    if abi == "abi3":
        if kind != "cp":
            return None
        return (ver(X, Y or 0), None)
    if abi != "none":
        a = abi.split("_", 1)[0].replace("pypy", "pp").replace("pyston", "pt")
        if not a.startswith(py_tag):
            return None
        if impl is not None and a.endswith("t") != bool(gil):
            return None
    if Y is None:
        return (ver(X), ver(X + 1))
    if kind == "py":
        return (ver(X, Y), ver(X + 1))
    return (ver(X, Y), ver(X, Y + 1))


def score(py_tag, abi):
    digits = py_tag[2:]
    return (int(digits[0]), int(digits[1:]) if len(digits) > 1 else 0, 1 if abi == "abi3" else 0 if abi == "none" else 2)


def cases(th, pairs):
    ix = th.index
    E, I = ix.cls("EnvSpec"), ix.cls("Implementation")
    f = ix.func(Q)
    for impl, gil in IMPLS:
        for t, a in pairs:
            if a == "abi3" and impl == "cpython" and gil and t[:2] == "cp":
                continue     # free-threaded x abi3 is outside the statement
            rp = th.fresh_rp("requires_python")
            impl_obj = None if impl is None else Obj(I, {"name": impl, "gil_disabled": gil})
            spec = Obj(E, {"requires_python": rp, "platform": None, "implementation": impl_obj})
            iv = loads_interval(t, a, impl, gil)
            p = z3.Real(fresh_name("p"))
            if iv is None:
                can = z3.BoolVal(False)
            else:
                lo, hi = iv
                can = z3.Exists([p], z3.And(rp.term.pred(p), p >= lo, (p < hi) if hi is not None else z3.BoolVal(True)))

            def post(ex, r, can=can, t=t, a=a, iv=iv):
                if r is None:
                    return [("C08.compatible-iff-loadable", z3.Not(can))]
                cl = [("C08.compatible-iff-loadable", can)]
                ok = isinstance(r, tuple) and len(r) == 3 and all(isinstance(x, int) for x in r) and iv is not None and tuple(r) == score(t, a)
                cl.append(("C08.score", z3.BoolVal(bool(ok))))
                return cl
            yield {"name": f"{impl}-{gil}-{t}-{a}", "pre": [], "thunk": (lambda ex, spec=spec, t=t, a=a: ex.call_function(f, [spec, t, a])), "post": post,
                   "describe": (lambda m, args, result=None, impl=impl, gil=gil, t=t, a=a: {"implementation": impl, "gil_disabled": gil, "python_tag": t, "abi_tag": a})}
