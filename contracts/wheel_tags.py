"""C18, parse_wheel_tags: for every file name (as the '-'-join of dash-free fields, T-WHEEL) the function returns the '.'-splits of
the lower-cased last three fields (the last one without its '.whl') exactly when the name ends in '.whl' and has 5 or 6 fields
(PEP 427: name-version[-build]-python-abi-platform.whl), and raises InvalidWheelFilename - nothing else - otherwise."""
from __future__ import annotations

import z3

from pyvc.theories.wheel import DotSplit, lower

Q = "dep_logic.tags.tags:parse_wheel_tags"


def cases(th):
    f = th.index.func(Q)
    name, pre = th.sym_name()
    F = name.fields
    last = z3.Select(F.arr, F.n - 1)
    well_formed = z3.And(z3.SuffixOf(z3.StringVal(".whl"), last), z3.Or(F.n == 5, F.n == 6))

    def post(ex, res):
        if not (isinstance(res, tuple) and len(res) == 3 and all(isinstance(x, DotSplit) for x in res)):
            return [("C18.wheel.returns-three-tag-lists", z3.BoolVal(False))]
        py, abi, plat = (x.term for x in res)
        stem = z3.SubString(last, 0, z3.Length(last) - 4)
        return [("C18.wheel.accepted-only-when-well-formed", well_formed),
                ("C18.wheel.python-tags-are-the-third-last-field", py == lower(z3.Select(F.arr, F.n - 3))),
                ("C18.wheel.abi-tags-are-the-second-last-field", abi == lower(z3.Select(F.arr, F.n - 2))),
                ("C18.wheel.platform-tags-are-the-last-field-without-extension", plat == lower(stem))]

    def describe(m, args, result=None):
        n = m.eval(F.n, model_completion=True).as_long()
        if not 0 < n <= 12:
            return {"fields": n}
        fields = [m.eval(z3.Select(F.arr, i), model_completion=True).as_string() for i in range(n)]
        return {"filename": "-".join(fields), "fields": fields}

    yield {"name": "any-file-name", "pre": pre, "describe": describe, "thunk": (lambda ex: ex.call_function(f, [name], inline=True)), "post": post,
           "allowed_raise": (lambda exc: z3.And(z3.BoolVal(exc == "InvalidWheelFilename"), z3.Not(well_formed))), "args": ()}
