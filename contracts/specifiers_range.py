"""Contracts for dep_logic/specifiers/range.py (DESIGN Appendix A.1).  Helper pre-conditions come from the
code; the top-level post-conditions (`den`, `wf`) are the C01/C05 statements."""
from __future__ import annotations

import z3

from pyvc.engine import Contract
from pyvc.theories import spec as T
from pyvc.theories.spec import R, V, SpecDT
from pyvc.values import NOTIMPL, Obj, SymObj, AList

M = "dep_logic.specifiers.range:RangeSpecifier."


def cls_is(x, name):
    if isinstance(x, SymObj):
        return x.shape.tester(x.term, name)
    return isinstance(x, Obj) and x.cls.name == name


def rng_of(x):
    if isinstance(x, SymObj):
        return SpecDT.rng(x.term)
    return T.rterm(x)


def b(x):
    return x if z3.is_expr(x) else z3.BoolVal(bool(x))


def union2(x):
    """(cond that x is a union of exactly two ranges, term0, term1)"""
    if isinstance(x, SymObj):
        t = x.term
        return z3.And(SpecDT.is_SUni(t), SpecDT.n(t) == 2), z3.Select(SpecDT.rs(t), 0), z3.Select(SpecDT.rs(t), 1)
    if isinstance(x, Obj) and x.cls.name == "UnionSpecifier":
        rs = x.fields["ranges"]
        if isinstance(rs, tuple) and len(rs) == 2:
            return z3.BoolVal(True), T.rterm(rs[0]), T.rterm(rs[1])
        if isinstance(rs, AList):
            return rs.n == 2, z3.Select(rs.arr, 0), z3.Select(rs.arr, 1)
    return z3.BoolVal(False), None, None


OTHER_CASES = ["RangeSpecifier", "UnionSpecifier", "EmptySpecifier", "AnySpecifier"]


class RangeContract(Contract):
    arity = 2

    def cases(self, th):
        a = th.sym_range("self")
        if self.arity == 1:
            yield "range", [a], []
            return
        yield "range-range", [a, th.sym_range("other")], []

    def requires(self, ex, *args):
        return z3.And(*[T.post_init_ok(T.rterm(a)) for a in args if isinstance(a, Obj) and a.cls.name == "RangeSpecifier"])

    def allowed_raise(self, ex, args, exc):
        return z3.BoolVal(False)

    def result(self, ex, args):
        return z3.Bool(T.fresh_name("res"))

    def spec(self, a, o):
        raise NotImplementedError

    def ensures(self, ex, args, result):
        a, o = T.rterm(args[0]), T.rterm(args[1])
        return [("iff", b(result) == self.spec(a, o))]


class AllowsLower(RangeContract):
    target = M + "allows_lower"

    def spec(self, a, o):
        return T.lb_lt(a, o)


class AllowsHigher(RangeContract):
    target = M + "allows_higher"

    def spec(self, a, o):
        return T.ub_gt(a, o)


class IsStrictlyLower(RangeContract):
    target = M + "is_strictly_lower"

    def spec(self, a, o):
        return T.below(a, o)


class IsAdjacentTo(RangeContract):
    target = M + "is_adjacent_to"

    def spec(self, a, o):
        return z3.And(R.hmax(a), R.hmin(o), R.mx(a) == R.mn(o), z3.Xor(R.imax(a), R.imin(o)))


class IsSuperset(RangeContract):
    target = M + "is_superset"

    def spec(self, a, o):
        return T.within(o, a)


class IsSubset(RangeContract):
    target = M + "is_subset"

    def spec(self, a, o):
        return T.within(a, o)


class Lt(RangeContract):
    target = M + "__lt__"

    def spec(self, a, o):
        return T.lb_lt(a, o)


class CanCombine(RangeContract):
    target = M + "can_combine"

    def requires(self, ex, a, o):
        return z3.And(T.valid(T.rterm(a)), T.valid(T.rterm(o)))

    def spec(self, a, o):
        return z3.And(z3.Not(T.sep(a, o)), z3.Not(T.sep(o, a)))


class IsAny(RangeContract):
    target = M + "is_any"
    arity = 1

    def ensures(self, ex, args, result):
        return [("iff", b(result) == T.universal(T.rterm(args[0])))]


class PostInit(RangeContract):
    target = M + "__post_init__"
    arity = 1

    def requires(self, ex, a):
        return z3.BoolVal(True)

    def allowed_raise(self, ex, args, exc):
        return z3.And(exc == "InvalidSpecifier", z3.Not(T.post_init_ok(T.rterm(args[0])))) if exc == "InvalidSpecifier" else z3.BoolVal(False)

    def ensures(self, ex, args, result):
        return [("no-raise-implies-ok", T.post_init_ok(T.rterm(args[0])))]


class BinaryOpContract(RangeContract):
    def cases(self, th):
        for oc in OTHER_CASES:
            yield f"range-{oc}", [th.sym_range("self"), th.sym_of_class(oc, "other")], []

    def requires(self, ex, a, o):
        cl = [T.valid(T.rterm(a))]
        if cls_is(o, "RangeSpecifier") is True:
            cl.append(T.valid(T.rterm(o)))
        elif isinstance(o, SymObj):
            cl.append(z3.Implies(cls_is(o, "RangeSpecifier"), T.valid(rng_of(o))))
        return z3.And(*cl)

    def result(self, ex, args):
        return ex.theory.sshape.fresh("res")


class And(BinaryOpContract):
    target = M + "__and__"

    def result(self, ex, args):
        if cls_is(args[1], "RangeSpecifier") is not True:
            return NOTIMPL
        return ex.theory.sshape.fresh("and")

    def ensures(self, ex, args, result):
        a, other = args
        if cls_is(other, "RangeSpecifier") is not True:
            return [("notimplemented", b(result is NOTIMPL))]
        if result is NOTIMPL or not T.is_spec(result):
            return [("returns-specifier", z3.BoolVal(False))]
        sa, so = T.rterm(a), T.rterm(other)
        empty, rng = b(cls_is(result, "EmptySpecifier")), b(cls_is(result, "RangeSpecifier"))
        r = rng_of(result) if not (cls_is(result, "RangeSpecifier") is False) else sa
        return [
            ("class", z3.Or(empty, rng)),
            ("empty-iff-disjoint", empty == z3.Or(T.below(sa, so), T.below(so, sa))),
            ("valid", z3.Implies(rng, T.valid(r))),
            ("bounds", z3.Implies(rng, z3.And(T.within(r, sa), T.within(r, so), z3.Or(T.lb_eq(r, sa), T.lb_eq(r, so)),
                                              z3.Or(T.ub_eq(r, sa), T.ub_eq(r, so))))),
            ("den", T.den(result, V) == z3.And(T.in_range(sa, V), T.in_range(so, V))),
        ]


class Or(BinaryOpContract):
    target = M + "__or__"

    def result(self, ex, args):
        if cls_is(args[1], "RangeSpecifier") is not True:
            return NOTIMPL
        return ex.theory.sshape.fresh("or")

    def ensures(self, ex, args, result):
        a, other = args
        if cls_is(other, "RangeSpecifier") is not True:
            return [("notimplemented", b(result is NOTIMPL))]
        if result is NOTIMPL or not T.is_spec(result):
            return [("returns-specifier", z3.BoolVal(False))]
        sa, so = T.rterm(a), T.rterm(other)
        comb = z3.And(z3.Not(T.sep(sa, so)), z3.Not(T.sep(so, sa)))
        rng = b(cls_is(result, "RangeSpecifier"))
        r = rng_of(result) if not (cls_is(result, "RangeSpecifier") is False) else sa
        u2, lo, hi = union2(result)
        cl = [
            ("class", z3.If(comb, rng, u2)),
            ("valid", z3.Implies(rng, T.valid(r))),
            ("bounds", z3.Implies(rng, z3.And(T.within(sa, r), T.within(so, r), z3.Or(T.lb_eq(r, sa), T.lb_eq(r, so)),
                                              z3.Or(T.ub_eq(r, sa), T.ub_eq(r, so))))),
            ("den", T.den(result, V) == z3.Or(T.in_range(sa, V), T.in_range(so, V))),
        ]
        if lo is not None:
            cl.append(("union-parts", z3.Implies(u2, z3.And(T.sep(lo, hi), z3.Or(z3.And(lo == sa, hi == so), z3.And(lo == so, hi == sa))))))
        else:
            cl.append(("union-parts", z3.Not(u2)))
        return cl


class Invert(RangeContract):
    target = M + "__invert__"
    arity = 1

    def requires(self, ex, a):
        return T.valid(T.rterm(a))

    def result(self, ex, args):
        return ex.theory.sshape.fresh("inv")

    def ensures(self, ex, args, result):
        sa = T.rterm(args[0])
        if not T.is_spec(result):
            return [("returns-specifier", z3.BoolVal(False))]
        return [
            ("empty-iff-universal", b(cls_is(result, "EmptySpecifier")) == T.universal(sa)),
            ("never-any", z3.Not(b(cls_is(result, "AnySpecifier")))),
            ("wf", T.wf(result)),
            ("den", T.den(result, V) == z3.Not(T.in_range(sa, V))),
        ]


ALL = [AllowsLower(), AllowsHigher(), IsStrictlyLower(), IsAdjacentTo(), IsSuperset(), IsSubset(), Lt(), CanCombine(),
       IsAny(), PostInit(), And(), Or(), Invert()]
