"""Replays a C09 counter-model: the platform of the model against the independent rule oracle."""
from __future__ import annotations

import re

from dep_logic.tags.platform import Platform

from .. import oracle_tags as OT


def run(tier="quick", seed=0, arg=None):
    name = arg["platform"]
    fails = []
    try:
        p = Platform.parse(name)
        got = list(p.compatible_tags)
    except Exception as e:  # noqa: BLE001
        return {"suite": "platform_replay", "evaluations": 1, "distinct_nontrivial": 1, "n_failures": 1, "samples": [],
                "failures": [{"check": "C09.raises", "input": {"platform": name}, "observed": repr(e), "expected": "a tag list"}]}
    m = re.match(r"(manylinux|musllinux|macos)_(\d+)_(\d+)_(.+)$", name)
    if m:
        kind, major, minor, arch = m.group(1), int(m.group(2)), int(m.group(3)), m.group(4)
        if kind == "manylinux" and arch in OT.ARCH_FLOOR:
            exp = OT.manylinux_tags(arch, minor, major)
            if got != exp:
                fails.append({"check": "C09.manylinux", "input": {"platform": name}, "observed": got[:8], "expected": exp[:8]})
        elif kind == "musllinux":
            exp = OT.musllinux_tags(arch, minor, major)
            if set(got) != exp:
                fails.append({"check": "C09.musllinux", "input": {"platform": name}, "observed": sorted(got), "expected": sorted(exp)})
        elif kind == "macos" and (major >= 11 or arch == "x86_64"):
            a = "x86_64" if arch == "x86_64" else "arm64"
            exp = OT.not_fat(OT.mac_tags(a, major, minor))
            if OT.not_fat(got) != exp:
                fails.append({"check": "C09.macos", "input": {"platform": name}, "observed": OT.not_fat(got)[:10], "expected": exp[:10]})
    elif name.startswith("windows_"):
        exp = {"x86": ["win32"], "x86_64": ["win_amd64"], "aarch64": ["win_arm64"], "amd64": ["win_amd64"], "arm64": ["win_arm64"]}.get(name.split("_", 1)[1])
        if exp is not None and got != exp:
            fails.append({"check": "C09.windows", "input": {"platform": name}, "observed": got, "expected": exp})
    return {"suite": "platform_replay", "evaluations": 1, "distinct_nontrivial": 1, "failures": fails, "n_failures": len(fails), "samples": []}
