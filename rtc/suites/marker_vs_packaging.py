"""Bounded stand-in for C03: parse_marker(text).evaluate(env) against packaging's Marker(text).evaluate(env)."""
from __future__ import annotations

from packaging.markers import Marker as PkgMarker

from dep_logic.markers import parse_marker

from ..mpools import CaseTimeout, atoms, environments, group_texts, time_limit
from ..pools import Rng

SET_ATOMS = ['"a" in extras', '"b" not in extras', '"A_b" in extras', '"g1" in dependency_groups', '"g2" not in dependency_groups']
LOCK_ENVS = [{"extras": set(), "dependency_groups": set()}, {"extras": {"a"}, "dependency_groups": {"g1"}}, {"extras": {"a-b", "b"}, "dependency_groups": {"G2"}},
             {"extras": {"A", "a_B"}, "dependency_groups": {"G1", "g2"}}, {"extras": {"A__b", "B"}, "dependency_groups": {"G.1"}},      # members spelt in non-canonical form
             {"extras": {"A.B"}, "dependency_groups": {"g1", "g2"}}]


def texts(rng, tier):
    A = [a for a in atoms() if not a.startswith("extra ") ]
    E = [a for a in atoms() if a.startswith("extra ")]
    out = list(A) + E
    out.append('python_version in "3.10, 3.9" and python_version < "3.5"')      # the witness of finding D14, shown on every run
    # same-variable ==/!= chains against every atom on that variable (and / or, both orders): partial-overlap absorption rules
    G = group_texts()
    for gi, g in enumerate(G):
        var = g.split()[0]
        same = [a for a in atoms(reversed_too=False) if a.split()[0] == var]
        for ai, a in enumerate(same):
            if tier == "quick" and (gi + ai + rng.randrange(3)) % 3:
                continue
            out += [f"({g}) and {a}", f"{a} and ({g})", f"({g}) or {a}", f"{a} or ({g})"]
    for g1 in G:
        for g2 in G:
            if g1.split()[0] == g2.split()[0] and (tier != "quick" or rng.chance(1, 3)):
                out += [f"({g1}) and ({g2})", f"({g1}) or ({g2})"]
    n = 300 if tier == "quick" else 3000
    for _ in range(n):
        a, b, c, d = (rng.choice(A + E) for _ in range(4))
        k = rng.randrange(8)
        out.append([f"{a} and {b}", f"{a} or {b}", f"({a} or {b}) and {c}", f"{a} and {b} or {c}", f"{a} or {b} and {c}", f"({a} and {b}) or ({c} and {d})",
                    f"({a} or ({b} and {c})) and {d}", f"{a} and ({b} or {c} or {d})"][k])
    return out


def run(tier="quick", seed=0, arg=None):
    rng = Rng(seed)
    # guard of a transcribed assumption (A-PKG-EVAL, contracts/atoms.py: PKG_VERSION_KEYS): the variables packaging compares as versions
    from packaging.markers import MARKERS_REQUIRING_VERSION
    assert set(MARKERS_REQUIRING_VERSION) == {"implementation_version", "platform_release", "python_full_version", "python_version"}, MARKERS_REQUIRING_VERSION
    envs = [e for e in environments(full=(tier != "quick")) if isinstance(e["extra"], str)]
    fails, evals, timeouts, distinct, samples = [], 0, 0, set(), []
    for t in texts(rng, tier):
        try:
            with time_limit(10):
                m = parse_marker(t)
        except CaseTimeout:
            timeouts += 1
            continue
        except Exception as e:  # noqa: BLE001
            fails.append({"check": "C03.parse-raises", "input": {"text": t}, "observed": repr(e), "expected": "parses"})
            continue
        ref = PkgMarker(t)
        seen = set()
        for e in envs:
            evals += 1
            try:
                exp = ref.evaluate(e)
            except Exception:  # noqa: BLE001  (packaging itself rejects the comparison: outside the claim)
                continue
            try:
                got = m.evaluate(e)
            except Exception as ex:  # noqa: BLE001
                fails.append({"check": "C03.evaluate-raises", "input": {"text": t, "env": e}, "observed": repr(ex), "expected": exp})
                break
            seen.add(exp)
            if got != exp:
                fails.append({"check": "C03.evaluate", "input": {"text": t, "env": e}, "observed": got, "expected": exp})
                break
        if len(seen) > 1:
            distinct.add(t)
        if len(samples) < 3 and len(seen) > 1:
            samples.append({"text": t, "parsed": str(m)})
    # set-valued extras / dependency_groups (lock-file context)
    for _ in range(60 if tier == "quick" else 400):
        a, b = rng.choice(SET_ATOMS), rng.choice(SET_ATOMS + atoms()[:40])
        t = f"{a} and {b}" if rng.chance(1, 2) else f"{a} or {b}"
        try:
            m, ref = parse_marker(t), PkgMarker(t)
        except Exception as e:  # noqa: BLE001
            fails.append({"check": "C03.parse-raises", "input": {"text": t}, "observed": repr(e), "expected": "parses"})
            continue
        for le in LOCK_ENVS:
            for base in envs[:6]:
                e = {k: v for k, v in base.items() if k != "extra"}
                e.update(le)
                evals += 1
                try:
                    exp = ref.evaluate(e, context="lock_file")
                except Exception:  # noqa: BLE001
                    continue
                try:
                    got = m.evaluate(e, context="lock_file")
                except Exception as ex:  # noqa: BLE001
                    fails.append({"check": "C03.evaluate-raises", "input": {"text": t, "env": {k: (sorted(v) if isinstance(v, set) else v) for k, v in e.items()}, "context": "lock_file"}, "observed": repr(ex), "expected": exp})
                    break
                if got != exp:
                    fails.append({"check": "C03.evaluate", "input": {"text": t, "env": {k: (sorted(v) if isinstance(v, set) else v) for k, v in e.items()}, "context": "lock_file"}, "observed": got, "expected": exp})
                    break
    # same-variable pairs of string atoms whose literals contain one another (==/!=/in/not in, both operand orders, and / or): the parse-time merge
    # rules are keyed on exactly these coincidences (substring vs whole word vs equal); always in full, on environments that vary that variable
    from ..mpools import ENV_STRINGS, STRING_VARS
    for var, lits in STRING_VARS.items():
        lits = list(lits) + {"sys_platform": ["linux2 darwin"], "platform_machine": ["x86_64,arm64"], "os_name": ["nt posix"], "implementation_name": ["cpython pypy"], "platform_version": ["10.0 10.0.0"]}[var]
        ats = [(f'{var} {op} "{l}"', l) for op in ("==", "!=", "in", "not in") for l in lits] + [(f'"{l}" {op} {var}', l) for op in ("in", "not in") for l in lits]
        venvs = [dict(envs[0], **{var: v}) for v in ENV_STRINGS[var]]
        for ta, la in ats:
            for tb, lb in ats:
                if not (la in lb or lb in la):
                    continue
                for glue in (" and ", " or "):
                    t = ta + glue + tb
                    try:
                        m, ref = parse_marker(t), PkgMarker(t)
                    except Exception as e:  # noqa: BLE001
                        fails.append({"check": "C03.parse-raises", "input": {"text": t}, "observed": repr(e), "expected": "parses"})
                        continue
                    for e in venvs:
                        evals += 1
                        try:
                            exp = ref.evaluate(e)
                        except Exception:  # noqa: BLE001
                            continue
                        got = m.evaluate(e)
                        if got != exp:
                            fails.append({"check": "C03.evaluate", "input": {"text": t, "env": e}, "observed": got, "expected": exp})
                            break
    # name normalisation (PEP 685 / PEP 503): every spelling of the environment's extra / group names, incl. separator runs that mix - _ .
    spellings = ["a-b", "A_b", "a.b", "a--b", "a-_b", "A.-B", "a__b", "a..b", "a-.-b", "a_.-_b", "ab", "a", "a-b-c", "a--b__c"]
    base = {k: v for k, v in envs[0].items() if k != "extra"}
    for t in ['extra == "a-b"', 'extra != "A_b"', '"a.b" == extra', '"a-b" != extra', 'extra == "a-b-c"', 'extra == "a-b" or os_name == "zz"', 'extra != "a.b" and os_name != "zz"']:
        m, ref = parse_marker(t), PkgMarker(t)
        for sp in spellings:
            e = dict(base, extra=sp)
            evals += 1
            exp, got = ref.evaluate(e), m.evaluate(e)
            if got != exp:
                fails.append({"check": "C03.evaluate", "input": {"text": t, "env": e}, "observed": got, "expected": exp})
    for t in ['"a-b" in extras', '"a.b" not in extras', '"A_b" in dependency_groups', '"a-b-c" not in dependency_groups', '"a-b" in extras and "a-b-c" not in dependency_groups']:
        m, ref = parse_marker(t), PkgMarker(t)
        for sp in spellings:
            for other in (set(), {"zz"}, {"a-b-c"}):
                e = dict(base, extras={sp} | other, dependency_groups={sp} | other)
                evals += 1
                try:
                    exp = ref.evaluate(e, context="lock_file")
                except Exception:  # noqa: BLE001
                    continue
                got = m.evaluate(e, context="lock_file")
                if got != exp:
                    fails.append({"check": "C03.evaluate", "input": {"text": t, "env": {k: (sorted(v) if isinstance(v, set) else v) for k, v in e.items()}, "context": "lock_file"},
                                  "observed": got, "expected": exp})
    # pre-, post- and dev-release environment values around the literal (a release candidate's python_full_version is "3.13.0rc1"): PEP 440's exclusive
    # ordering is not mirror-symmetric there (`< V` excludes pre-releases of V, `> V` its post-releases), so both operand orders are run
    for var, lit_envs in (("python_full_version", [("3.13", "3.13.0"), ("3.13.0", "3.13.0"), ("3.8.5", "3.8.5")]),
                          ("platform_release", [("5.10", "5.10.0"), ("5.10.0", "5.10.0"), ("6.1", "6.1")]),
                          ("python_version", [("3.13", "3.13"), ("3.8", "3.8")])):
        for lit, rel in lit_envs:
            vals = [rel, rel + "rc1", rel + "a1", rel + "b2", rel + ".post1", rel + ".dev1", rel + "rc1.post1"]
            head, last = rel.rsplit(".", 1)
            vals += [f"{head}.{int(last) + 1}", f"{head}.{int(last) + 1}rc1", f"{head}.{int(last) + 1}.dev0"] + ([f"{head}.{int(last) - 1}.post2"] if int(last) else [])
            for op in ("<", "<=", ">", ">=", "==", "!=", "~=", "==="):
                if op == "~=" and "." not in lit:
                    continue
                for t in (f'{var} {op} "{lit}"', f'"{lit}" {op} {var}'):
                    try:
                        m, ref = parse_marker(t), PkgMarker(t)
                    except Exception as e:  # noqa: BLE001
                        fails.append({"check": "C03.parse-raises", "input": {"text": t}, "observed": repr(e), "expected": "parses"})
                        continue
                    for v in vals:
                        e = dict(base, extra="", **{var: v})
                        evals += 1
                        try:
                            exp = ref.evaluate(e)
                        except Exception:  # noqa: BLE001
                            continue
                        try:
                            got = m.evaluate(e)
                        except Exception as ex:  # noqa: BLE001
                            fails.append({"check": "C03.evaluate-raises", "input": {"text": t, "env": e}, "observed": repr(ex), "expected": exp})
                            continue
                        if got != exp:
                            fails.append({"check": "C03.evaluate", "input": {"text": t, "env": e}, "observed": got, "expected": exp})
    # ... and two atoms on the same variable around one literal (merged while parsing: `< V or > V` becomes `!= V`, `>= V or < V` the universal marker):
    # the merge is computed in the interval model, which has no PEP 440 exclusion rule for pre-/post-releases of an exclusive bound (finding D22)
    for var, lit, rel in (("python_full_version", "3.13", "3.13.0"), ("python_full_version", "3.8.5", "3.8.5"), ("platform_release", "5.10", "5.10.0")):
        vals = [rel, rel + "rc1", rel + ".post1", rel + ".dev1", rel + "a1"]
        lits = [lit] + ([lit + ".0"] if lit.count(".") < 2 else [])
        for o1 in ("<", "<=", ">", ">=", "==", "!="):
            for o2 in ("<", "<=", ">", ">=", "==", "!="):
                for l2 in lits:
                    for glue in ("and", "or"):
                        for t in (f'{var} {o1} "{lit}" {glue} {var} {o2} "{l2}"', f'"{lit}" {o1} {var} {glue} {var} {o2} "{l2}"'):
                            try:
                                m, ref = parse_marker(t), PkgMarker(t)
                            except Exception as e:  # noqa: BLE001
                                fails.append({"check": "C03.parse-raises", "input": {"text": t}, "observed": repr(e), "expected": "parses"})
                                continue
                            for v in vals:
                                e = dict(base, extra="", **{var: v})
                                evals += 1
                                try:
                                    exp = ref.evaluate(e)
                                except Exception:  # noqa: BLE001
                                    continue
                                try:
                                    got = m.evaluate(e)
                                except Exception as ex:  # noqa: BLE001
                                    fails.append({"check": "C03.evaluate-raises", "input": {"text": t, "env": e}, "observed": repr(ex), "expected": exp})
                                    continue
                                if got != exp:
                                    fails.append({"check": "C03.evaluate", "input": {"text": t, "env": e, "rendered": str(m)}, "observed": got, "expected": exp})
    return {"suite": "marker_vs_packaging", "evaluations": evals, "distinct_nontrivial": len(distinct), "not_evaluated": timeouts,
            "rule": "marker texts over the well-defined atom pool (both operand orders, nested and/or with parentheses), each evaluated on %d environments "
                    "by dep-logic and by the installed packaging; non-trivial = reference truth value varies over the grid; environments on which packaging itself "
                    "raises are outside the claim" % len(envs),
            "samples": samples, "failures": fails[:3000], "n_failures": len(fails), "bound": f"{len(envs)} environments"}
