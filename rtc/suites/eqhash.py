"""Bounded stand-in for C13: == is an equivalence compatible with hash, equal objects are interchangeable."""
from __future__ import annotations

import itertools

from dep_logic.markers import parse_marker
from dep_logic.specifiers import AnySpecifier, EmptySpecifier, GenericSpecifier, RangeSpecifier, parse_version_specifier

from .. import oracle_marker as OM
from .. import oracle_spec as O
from ..mpools import CaseTimeout, atoms, environments, time_limit
from ..pools import VERSIONS, Rng
from .spec_algebra import reachable


def run(tier="quick", seed=0, arg=None):
    rng = Rng(seed)
    fails, evals, distinct, samples = [], 0, 0, []

    def fail(check, inp, observed, expected):
        fails.append({"check": check, "input": inp, "observed": observed, "expected": expected})

    # ---------------- specifiers
    pool, _ = reachable(seed, "quick")
    specs = [AnySpecifier(), RangeSpecifier(), EmptySpecifier(), parse_version_specifier(""), parse_version_specifier("<empty>")]
    specs += [rng.choice(pool) for _ in range(60 if tier == "quick" else 250)]
    specs += [parse_version_specifier(t) for t in (">=1.0", ">=1", ">=1.0.0", "==2.0", "==2", "!=1.0", "!=1.0.0", ">=1.0,<2.0", "~=1.0", "==1.*", "<1||>=2")]
    specs += [GenericSpecifier("==", "a"), GenericSpecifier("==", "a"), GenericSpecifier("in", "a"), GenericSpecifier("!=", "a")]

    def sden(s):
        try:
            return tuple(O.den(s, v) for v in VERSIONS)
        except TypeError:
            return None
    for x, y in itertools.product(specs, specs):
        evals += 1
        try:
            e1, e2 = (x == y), (y == x)
        except Exception as ex:  # noqa: BLE001
            fail("C13.spec.eq-raises", {"x": repr(x), "y": repr(y)}, repr(ex), "a boolean")
            continue
        if x is y and not e1:
            fail("C13.spec.reflexive", {"x": repr(x)}, False, True)
        if bool(e1) != bool(e2):
            fail("C13.spec.symmetric", {"x": repr(x), "y": repr(y)}, [e1, e2], "same answer both ways")
        if e1:
            distinct += 1
            if hash(x) != hash(y):
                fail("C13.spec.hash", {"x": repr(x), "y": repr(y), "cls": [type(x).__name__, type(y).__name__]}, "equal but different hashes", "equal hashes")
            dx, dy = sden(x), sden(y)
            if dx is not None and dy is not None and dx != dy:
                fail("C13.spec.interchangeable", {"x": repr(x), "y": repr(y)}, "equal but admit different versions", "same set")
    small = specs[:14]
    for x, y, z in itertools.product(small, small, small):
        evals += 1
        if x == y and y == z and not x == z:
            fail("C13.spec.transitive", {"x": repr(x), "y": repr(y), "z": repr(z)}, False, True)
    # operands: a op x vs a op y for equal x, y
    for x, y in itertools.product(specs[:40], specs[:40]):
        if x == y and sden(x) is not None:
            for a in specs[5:25]:
                if sden(a) is None:
                    continue
                evals += 1
                if sden(a & x) != sden(a & y) or sden(a | x) != sden(a | y):
                    fail("C13.spec.operand", {"a": repr(a), "x": repr(x), "y": repr(y)}, "different results", "same meaning")

    # ---------------- markers
    envs = environments(full=False)
    A = atoms()
    texts = list(A)
    for _ in range(80 if tier == "quick" else 400):
        a, b = rng.choice(A), rng.choice(A)
        texts.append(f"{a} and {b}" if rng.chance(1, 2) else f"{a} or {b}")
    texts += ['python_version >= "3.10"', 'python_version >= "3.10.0"', 'python_full_version >= "3.10"', 'python_full_version >= "3.10.0"',
              '"linux" in sys_platform', 'sys_platform in "linux"', '"3.8" < python_version', 'python_version > "3.8"',
              'os_name == "a" or os_name == "b"', 'os_name == "b" or os_name == "a"', 'os_name != "a" and os_name != "b"', "",
              # permuted compounds (top level and nested): any notion of equality that identifies them must hash them alike
              'os_name == "nt" or sys_platform == "linux"', 'sys_platform == "linux" or os_name == "nt"',
              'os_name == "nt" and sys_platform == "linux"', 'sys_platform == "linux" and os_name == "nt"',
              'os_name == "nt" or sys_platform == "linux" or platform_machine == "x86"', 'platform_machine == "x86" or os_name == "nt" or sys_platform == "linux"',
              '(os_name == "nt" or sys_platform == "linux") and platform_machine == "x86" or implementation_name == "pypy"',
              '(sys_platform == "linux" or os_name == "nt") and platform_machine == "x86" or implementation_name == "pypy"']
    ms = []
    for t in texts:
        try:
            with time_limit(5):
                ms.append((t, parse_marker(t)))
        except CaseTimeout:
            pass
    # results of operations (attached caches, re-rendered values)
    for _ in range(60 if tier == "quick" else 300):
        (ta, a), (tb, b) = rng.choice(ms), rng.choice(ms)
        try:
            with time_limit(5):
                ms.append((f"({ta}) & ({tb})", a & b))
                ms.append((f"({ta}) | ({tb})", a | b))
        except CaseTimeout:
            pass
    vec = {}
    for t, m in ms:
        vec[id(m)] = OM.ev_vector(m, envs)
    for (tx, x), (ty, y) in itertools.product(ms, ms):
        evals += 1
        e1, e2 = (x == y), (y == x)
        if x is y and not e1:
            fail("C13.marker.reflexive", {"x": tx}, False, True)
        if bool(e1) != bool(e2):
            fail("C13.marker.symmetric", {"x": tx, "y": ty}, [e1, e2], "same answer both ways")
        if e1:
            distinct += 1
            if hash(x) != hash(y):
                fail("C13.marker.hash", {"x": tx, "y": ty}, "equal but different hashes", "equal hashes")
            if vec[id(x)] != vec[id(y)]:
                fail("C13.marker.interchangeable", {"x": tx, "y": ty, "str": [str(x), str(y)]}, "equal but evaluate differently", "same meaning")
    small = ms[:: max(1, len(ms) // 25)]
    for (tx, x), (ty, y), (tz, z) in itertools.product(small, small, small):
        evals += 1
        if x == y and y == z and not x == z:
            fail("C13.marker.transitive", {"x": tx, "y": ty, "z": tz}, False, True)
    eqpairs = [((tx, x), (ty, y)) for (tx, x), (ty, y) in itertools.product(ms, ms) if x is not y and x == y][:150]
    for ((tx, x), (ty, y)) in eqpairs:
        for ta, a in ms[:: max(1, len(ms) // 12)]:
            evals += 1
            try:
                with time_limit(5):
                    r1, r2, r3, r4 = a & x, a & y, a | x, a | y
            except CaseTimeout:
                continue
            if OM.ev_vector(r1, envs) != OM.ev_vector(r2, envs) or OM.ev_vector(r3, envs) != OM.ev_vector(r4, envs):
                fail("C13.marker.operand", {"a": ta, "x": tx, "y": ty}, [str(r1), str(r2), str(r3), str(r4)], "same meaning")
    return {"suite": "eqhash", "evaluations": evals, "distinct_nontrivial": distinct,
            "rule": "all ordered pairs over %d specifier objects (both spellings of the universal set, reachable results, generic atoms) and %d marker objects "
                    "(atoms in both operand orders, '3.10' vs '3.10.0', results of &/| with attached caches); triples over a sub-sample; non-trivial = pairs that compare equal" % (len(specs), len(ms)),
            "samples": samples or [{"x": repr(specs[0]), "y": repr(specs[1]), "equal": specs[0] == specs[1]}], "failures": fails[:3000], "n_failures": len(fails),
            "bound": f"{len(specs)} specifiers, {len(ms)} markers"}
