"""Bounded stand-in for the marker properties C02, C07, C12, C14 (markers), C15: run-time evaluation of the contracts
on the real operators over markers built from the well-defined atom pool.  Labelled bounded."""
from __future__ import annotations

from packaging.markers import InvalidMarker as PkgInvalidMarker
from packaging.markers import Marker as PkgMarker

from dep_logic.markers import AnyMarker, EmptyMarker, parse_marker

from .. import oracle_marker as OM
from ..mpools import CaseTimeout, atoms, environments, group_texts, time_limit
from ..pools import Rng


LIMIT = 3
# every variable the marker grammar accepts (incl. the PEP 751 ones and the dotted legacy spellings): names that contain / are contained in others matter
ALL_VARIABLES = ["extras", "extra", "dependency_groups", "python_version", "python_full_version", "os_name", "os.name", "sys_platform", "sys.platform",
                 "platform_release", "platform_system", "platform_version", "platform.version", "platform_machine", "platform.machine",
                 "platform_python_implementation", "platform.python_implementation", "python_implementation", "implementation_name", "implementation_version"]
# shapes that exercised corner paths of union()/of() during the exploration; always part of the pool
WITNESS_TEXTS = [
    'os_name != "a" and python_version <= "3.6" or platform_machine != "b" and os_name in "a c"',
    'os_name == "a" and sys_platform == "x" or platform_machine == "b" and os_name == "c"',
    '(os_name == "a" and sys_platform == "x") or (os_name == "a" and sys_platform != "x")',
    'os_name == "a" or os_name == "b" or os_name != "a"',
    'python_version > "3.8" or python_version not in "3.8, 3.10"',
    'python_version >= "3.7" and python_full_version < "4.0"',
    'python_version <= "3" or python_full_version < "3.5"',
    # operands whose union is conjunctive with two clauses sharing one atom and contradicting on the rest once a variable is excluded
    'os_name == "posix" and implementation_name == "cpython"',
    'os_name == "posix" and ((sys_platform == "x" and extra != "e") or (sys_platform != "x" and extra == "e"))',
    'os_name == "posix" and ((sys_platform == "x" and platform_machine != "b") or (sys_platform != "x" and platform_machine == "b"))',
    '(os_name == "a" and sys_platform == "x") or (os_name == "a" and platform_machine == "b")',
    '(os_name == "a" or sys_platform == "x") and (os_name == "a" or sys_platform != "x")',
    # a `!=`-group and an `==`-group of one variable (values overlapping in one / none / all) kept apart by other atoms: only(that variable) /
    # exclude(the others) makes the two groups meet bare in of()
    '(sys_platform != "win32" and sys_platform != "linux" and os_name == "nt") or ((sys_platform == "linux" or sys_platform == "cygwin") and os_name == "posix")',
    '(sys_platform != "win32" and sys_platform != "linux" and os_name == "nt") or ((sys_platform == "aix" or sys_platform == "cygwin") and os_name == "posix")',
    '(sys_platform != "win32" and sys_platform != "linux" and os_name == "nt") or ((sys_platform == "linux" or sys_platform == "win32") and os_name == "posix")',
    '(sys_platform == "win32" or sys_platform == "linux" or os_name == "nt") and ((sys_platform != "linux" and sys_platform != "cygwin") or os_name == "posix")',
    # two conjunctions (dually: two disjunctions) sharing two atoms, each with one more atom on a variable of its own, in both orders: only() without
    # one of the own variables makes one member a strict subset of the other inside of() - the subset rules of union_simplify / intersect_simplify
    # (round-9 C12 seed: the rule returned the wrong operand, visible only for the later member)
    'os_name == "a" and sys_platform == "x" and platform_machine == "b" or os_name == "a" and sys_platform == "x" and implementation_name == "cpython"',
    'os_name == "a" and sys_platform == "x" and implementation_name == "cpython" or os_name == "a" and sys_platform == "x" and platform_machine == "b"',
    '(os_name == "a" or sys_platform == "x" or platform_machine == "b") and (os_name == "a" or sys_platform == "x" or implementation_name == "cpython")',
    '(os_name == "a" or sys_platform == "x" or implementation_name == "cpython") and (os_name == "a" or sys_platform == "x" or platform_machine == "b")',
    'os_name == "a" and sys_platform == "x" and platform_machine == "b" or os_name == "a" and sys_platform == "x"',
    'os_name == "a" and sys_platform == "x" or os_name == "a" and sys_platform == "x" and platform_machine == "b"',
]


WITNESS_SET = set(WITNESS_TEXTS)


def build_pool(rng, tier):
    A = atoms()
    texts = list(WITNESS_TEXTS) + group_texts() + list(A)
    n2 = 120 if tier == "quick" else 500
    for _ in range(n2):
        a, b, c, d = rng.choice(A), rng.choice(A), rng.choice(A), rng.choice(A)
        k = rng.randrange(6) if rng.chance(5, 6) else 6 + rng.randrange(2)
        texts.append([f"{a} and {b}", f"{a} or {b}", f"({a} or {b}) and {c}", f"{a} and {b} or {c}", f"{a} or {b} or {c}",
                      f"({a} and {b}) or ({a} and {c})", f"({a} and {b}) or ({c} and {d})", f"({a} or {b}) and ({c} or {d})"][k])
    pool = []
    for t in texts:
        try:
            with time_limit(5):
                pool.append((t, parse_marker(t)))
        except CaseTimeout:
            pass
    pool += [("<empty>", EmptyMarker()), ("", AnyMarker())]
    return pool


def run(tier="quick", seed=0, arg=None):
    global LIMIT
    LIMIT = 3 if tier == "quick" else 6
    rng = Rng(seed)
    envs = environments(full=(tier != "quick"))
    pool = build_pool(rng, tier)
    fails, evals, timeouts, distinct, samples = [], 0, 0, set(), []
    cache = {}

    def fail(check, inp, observed, expected):
        fails.append({"check": check, "input": inp, "observed": observed, "expected": expected})

    def vec(m):
        k = id(m)
        if k not in cache:
            cache[k] = (m, OM.ev_vector(m, envs))
        return cache[k][1]

    def first_env(v1, v2):
        i = next(j for j, (x, y) in enumerate(zip(v1, v2)) if x != y)
        e = dict(envs[i])
        if isinstance(e.get("extra"), set):
            e["extra"] = sorted(e["extra"])
        return e

    def check_result(tag, r, exp, inp):
        """C02 meaning, C15 normal form, C07 round trip of one result"""
        nonlocal evals
        evals += 1
        got = vec(r)
        if got != exp:
            fail(f"C02.{tag}", {**inp, "env": first_env(got, exp)}, str(r), "evaluates as the combination of the operands")
        if r.is_empty() and any(got):
            fail("C02.is_empty", inp, str(r), "satisfied by no environment")
        if r.is_any() and not all(got):
            fail("C02.is_any", inp, str(r), "satisfied by every environment")
        why = OM.nf(r)
        if why:
            fail("C15.nf", inp, {"result": str(r), "why": why}, "normal form")
        s = str(r)
        if r.is_empty() or r.is_any():
            if s != ("<empty>" if r.is_empty() else ""):
                fail("C07.special-text", inp, s, "<empty> / empty string")
            return
        if "<empty>" in s:
            fail("C07.empty-inside", inp, s, "no <empty> inside a marker")
            return
        try:
            PkgMarker(s)
        except PkgInvalidMarker as e:
            fail("C07.packaging-rejects", inp, {"text": s, "error": str(e)[:200]}, "valid PEP 508 text")
            return
        try:
            with time_limit(LIMIT):
                back = parse_marker(s)
                if vec(back) != got:
                    fail("C07.roundtrip", {**inp, "text": s, "env": first_env(vec(back), got)}, str(back), "re-parsed marker evaluates identically")
        except CaseTimeout:
            pass
        except Exception as e:  # noqa: BLE001
            fail("C07.reparse-raises", {**inp, "text": s}, repr(e), "accepted by parse_marker")

    # parse results themselves
    for t, m in pool:
        inp = {"text": t}
        check_result("parse", m, vec(m), inp)
    # operands that are themselves EmptyMarker / AnyMarker
    E, U = EmptyMarker(), AnyMarker()
    from dep_logic.markers import MarkerUnion, MultiMarker
    compounds = [(t, m) for t, m in pool if isinstance(m, (MarkerUnion, MultiMarker))]
    for t, m in (compounds[:120] + pool[::7]) if tier == "quick" else pool:
        vm = vec(m)
        F, T_ = tuple(False for _ in vm), tuple(True for _ in vm)
        for tag, f, exp in (("or-empty", lambda: m | E, vm), ("empty-or", lambda: E | m, vm), ("and-any", lambda: m & U, vm), ("any-and", lambda: U & m, vm),
                            ("or-any", lambda: m | U, T_), ("and-empty", lambda: m & E, F)):
            try:
                with time_limit(LIMIT):
                    r = f()
            except CaseTimeout:
                timeouts += 1
                continue
            except Exception as e:  # noqa: BLE001
                fail(f"C02.{tag}.raises", {"a": t}, repr(e), "no exception")
                continue
            check_result(tag, r, exp, {"a": t, "op": tag})
    npairs = 400 if tier == "quick" else 4000
    G = [(t, m) for t, m in pool if t in set(group_texts())]
    group_pairs = [(x, y) for x in G for y in G if x[0].split()[0] == y[0].split()[0]]
    # every group against every atom on the same variable (both orders): partial overlaps of ==/!= groups with in / not in / == / != atoms
    atom_set = {a for a in atoms(reversed_too=False)}
    for g in G:
        var = g[0].split()[0]
        for t, m in pool:
            if t in atom_set and t.split()[0] == var:
                group_pairs.append((g, (t, m)))
                group_pairs.append(((t, m), g))
    if tier == "quick":
        group_pairs = group_pairs[seed % 3:: 3]
    # every pair of version atoms at the major / minor boundaries (their unions / intersections are the wildcard sets and the
    # zero-padded python_full_version forms), both variables, always in full
    vp = [f'{var} {op} "{v}"' for var in ("python_version", "python_full_version") for op in ("<", ">=") for v in ("3.0", "4.0", "3.8")]
    vp += [f'{var} {op} "3.*"' for var in ("python_version", "python_full_version") for op in ("==", "!=")]
    # python_version in / not in lists against python_full_version bounds inside the listed series (the list view must hold for X.Y.Z, not only X.Y)
    vp += ['python_version in "3.8, 3.9"', 'python_version not in "3.8, 3.9"', 'python_version in "3.8"', 'python_full_version >= "3.8.1"',
           'python_full_version > "3.8.0"', 'python_full_version < "3.8.1"', 'python_full_version in "3.8.1, 3.9.0"']
    vp = [(t, parse_marker(t)) for t in vp]
    group_pairs += [(x, y) for x in vp for y in vp]
    # a python_version literal longer than the variable's own X.Y (`python_version >= "3.8.1"` selects 3.9 and later, `== "3.8.1"` nothing) against
    # python_full_version atoms around it: the cross-variable merge must not read the literal as a full version
    longp = [(t, parse_marker(t)) for t in [f'python_version {op} "{v}"' for v in ("3.8.1", "3.8.0.0") for op in ("==", "!=", "<", "<=", ">", ">=", "~=")] +
             ['python_version == "3.8.1.*"', 'python_version != "3.8.1.*"']]
    fullp = [(t, parse_marker(t)) for t in [f'python_full_version {op} "{v}"' for v in ("3.8.5", "3.8.1", "3.8.0") for op in ("==", "!=", "<", ">=")]]
    group_pairs += [(x, y) for x in longp for y in fullp] + [(y, x) for x in longp[:4] for y in fullp[:4]]
    # every operator on a python_version literal X.Y against the same python_full_version atoms (`python_version > "3.8"` is `python_full_version >= "3.9.0"`):
    # the normalisation rules of the cross-variable merge, one by one, always in full
    shortp = [(t, parse_marker(t)) for t in [f'python_version {op} "3.8"' for op in ("==", "!=", "<", "<=", ">", ">=", "~=")]]
    fullq = fullp + [(t, parse_marker(t)) for t in ('python_full_version >= "3.9.0"', 'python_full_version < "3.9.0"', 'python_full_version > "3.8.5"', 'python_full_version <= "3.8.5"')]
    group_pairs += [(x, y) for x in shortp for y in fullq] + [(y, x) for x in shortp for y in fullq[::3]]
    # single catalogued pairs (shapes reported by seeded changes): two `!=`-groups of one variable in different `or` branches, one bare and one inside an `and`
    # group - the re-parse folds them in another member order than `&` built them
    for ta, tb in (('os_name != "java" and os_name != "nt" or sys_platform == "linux"', 'os_name != "posix" and os_name != "nt"'),
                   ('os_name != "posix" and os_name != "nt"', 'os_name != "nt" and os_name != "java"'),
                   # two unions that share a child and each hold a factored conjunction: the raw `MarkerUnion(*markers)` candidate of union() is the cheapest
                   # of the three, so whatever flatten_items leaves in it (a duplicate child) is returned as it is
                   ('(os_name == "nt" and sys_platform == "win32") or (os_name == "nt" and platform_machine == "x86") or implementation_name == "cpython"',
                    '(os_name == "posix" and sys_platform == "linux") or (os_name == "posix" and platform_machine == "arm64") or implementation_name == "cpython"'),
                   ('(os_name == "nt" and sys_platform == "win32") or implementation_name == "cpython"', '(os_name == "posix" and sys_platform == "linux") or implementation_name == "cpython"'),
                   # the witness of finding D14 (substring vs list reading of `python_version in`), so that the finding is shown on every run
                   ('python_version in "3.10, 3.9"', 'python_version < "3.5"')):
        group_pairs += [((ta, parse_marker(ta)), (tb, parse_marker(tb))), ((tb, parse_marker(tb)), (ta, parse_marker(ta)))]
    W = [(t, m) for t, m in pool if t in set(WITNESS_TEXTS)]
    group_pairs += [(x, y) for x in W for y in W]
    import time as _time
    t_start, budget_s, pairs_done = _time.time(), (None if tier == "quick" else 1500), 0
    for i in range(npairs + len(group_pairs)):
        # the catalogued pairs come first and are always run in full; the random pairs of the thorough tier stop at a wall-clock budget
        (ta, a), (tb, b) = group_pairs[i] if i < len(group_pairs) else (rng.choice(pool), rng.choice(pool))
        if i >= len(group_pairs) and budget_s is not None and _time.time() - t_start > budget_s:
            break
        pairs_done += 1
        va, vb = vec(a), vec(b)
        inp = {"a": ta, "b": tb}
        if len(set(va)) > 1 and len(set(vb)) > 1:
            distinct.add((ta, tb))
        for tag, f, exp in (("and", lambda: a & b, tuple(x and y for x, y in zip(va, vb))), ("or", lambda: a | b, tuple(x or y for x, y in zip(va, vb)))):
            try:
                with time_limit(LIMIT):
                    r = f()
            except CaseTimeout:
                timeouts += 1
                continue
            except Exception as e:  # noqa: BLE001
                fail(f"C02.{tag}.raises", inp, repr(e), "no exception")
                continue
            check_result(tag, r, exp, {**inp, "op": tag})
            if len(samples) < 4 and i % 97 == 3:
                samples.append({"a": ta, "b": tb, "op": tag, "result": str(r)})
        # C14 on markers, up to equivalence
        (tc, c) = rng.choice(pool)
        vc = vec(c)
        try:
            with time_limit(2 * LIMIT):
                laws = [("commutative-and", a & b, b & a), ("commutative-or", a | b, b | a), ("idem-and", a & a, a), ("idem-or", a | a, a),
                        ("absorb-1", a & (a | b), a), ("absorb-2", a | (a & b), a), ("assoc-and", (a & b) & c, a & (b & c)),
                        ("assoc-or", (a | b) | c, a | (b | c)), ("distrib-1", a & (b | c), (a & b) | (a & c)), ("distrib-2", a | (b & c), (a | b) & (a | c))]
                for lname, x, y in laws:
                    evals += 1
                    if vec(x) != vec(y):
                        fail(f"C14.{lname}", {"a": ta, "b": tb, "c": tc, "env": first_env(vec(x), vec(y))}, [str(x), str(y)], "equivalent markers")
        except CaseTimeout:
            timeouts += 1
        except Exception as e:  # noqa: BLE001
            fail("C14.raises", {"a": ta, "b": tb, "c": tc}, repr(e), "no exception")
        # C12 on a and on a&b / a|b
        c12_on = [(ta, a)]
        try:
            with time_limit(LIMIT):
                ab = a | b
            # conjunctive results of `|` (a MultiMarker with a MarkerUnion member) are never produced by parse_marker: only()/exclude() must recurse into them
            if isinstance(ab, MultiMarker) and any(isinstance(k, MarkerUnion) for k in ab.markers):
                c12_on.append((f"({ta}) | ({tb})", ab))
        except Exception:  # noqa: BLE001  (reported by the C02 part above)
            pass
        for tm, m in c12_on:
            vs = sorted(OM.variables(m))
            vm = vec(m)
            subsets = ([vs[:1], vs[1:], vs] if vs else [[]]) + [[ALL_VARIABLES[(i + j) % len(ALL_VARIABLES)] for j in range(2)] + vs[:1]]
            if tm in WITNESS_SET and 2 <= len(vs) <= 5:       # the witness shapes: also every subset that leaves out exactly one variable
                subsets += [vs[:k] + vs[k + 1:] for k in range(1, len(vs))]
            for names in subsets:
                evals += 1
                try:
                    with time_limit(LIMIT):
                        o = m.only(*names)
                except CaseTimeout:
                    timeouts += 1
                    continue
                except Exception as e:  # noqa: BLE001
                    fail("C12.only.raises", {"marker": tm, "names": names}, repr(e), "no exception")
                    continue
                vo = vec(o)
                if not OM.variables(o) <= set(names):
                    fail("C12.only.vars", {"marker": tm, "names": names}, str(o), "mentions only the given names")
                if any(x and not y for x, y in zip(vm, vo)):
                    fail("C12.only.implied", {"marker": tm, "names": names, "env": first_env(vm, tuple(x and y for x, y in zip(vm, vo)))}, str(o), "implied by the marker")
                if set(vs) <= set(names) and vo != vm:
                    fail("C12.only.same", {"marker": tm, "names": names, "env": first_env(vo, vm)}, str(o), "same meaning")
                if OM.nf(o):
                    fail("C15.nf", {"marker": tm, "op": "only", "names": names}, {"result": str(o), "why": OM.nf(o)}, "normal form")
            for name in (vs[:2] + ["extra", "os_name"] + [ALL_VARIABLES[(i + j) % len(ALL_VARIABLES)] for j in range(3)]):
                evals += 1
                try:
                    with time_limit(LIMIT):
                        x = m.exclude(name) if name != "extra" else m.without_extras()
                except CaseTimeout:
                    timeouts += 1
                    continue
                except Exception as e:  # noqa: BLE001
                    fail("C12.exclude.raises", {"marker": tm, "name": name}, repr(e), "no exception")
                    continue
                if name in OM.variables(x):
                    fail("C12.exclude.vars", {"marker": tm, "name": name}, str(x), "does not mention the removed variable")
                if name not in vs and vec(x) != vm:
                    fail("C12.exclude.same", {"marker": tm, "name": name, "env": first_env(vec(x), vm)}, str(x), "same meaning")
                if OM.nf(x):
                    fail("C15.nf", {"marker": tm, "op": "exclude", "name": name}, {"result": str(x), "why": OM.nf(x)}, "normal form")
                if not (x.is_any() or x.is_empty()):
                    check_result("exclude", x, vec(x), {"marker": tm, "op": "exclude", "name": name})
    # C02 on environments whose version value is a pre-, post- or dev-release of the bound (python_full_version is "3.13.0rc1" while a release candidate
    # is installed): two atoms on one variable around one literal, `&` and `|`, against the operands' own answers (finding D22: merged in the interval model)
    for var, lit, rel in (("python_full_version", "3.13", "3.13.0"), ("python_full_version", "3.8.5", "3.8.5"), ("platform_release", "5.10", "5.10.0")):
        vals = [rel, rel + "rc1", rel + ".post1", rel + ".dev1"]
        lits = [lit] + ([lit + ".0"] if lit.count(".") < 2 else [])
        base_env = {k: v for k, v in envs[0].items()}
        base_env["extra"] = ""
        for o1 in ("<", "<=", ">", ">=", "==", "!="):
            for o2 in ("<", "<=", ">", ">=", "==", "!="):
                for l2 in lits:
                    ta, tb = f'{var} {o1} "{lit}"', f'{var} {o2} "{l2}"'
                    try:
                        a, b = parse_marker(ta), parse_marker(tb)
                        results = (("and", a & b), ("or", a | b))
                    except Exception as e:  # noqa: BLE001
                        fail("C02.nonfinal-env.raises", {"a": ta, "b": tb}, repr(e), "no exception")
                        continue
                    for v in vals:
                        e = dict(base_env, **{var: v})
                        if var == "python_full_version":
                            e["python_version"] = ".".join(v.split(".")[:2])
                        try:
                            ea, eb = a.evaluate(e), b.evaluate(e)
                        except Exception:  # noqa: BLE001
                            continue
                        for op, r in results:
                            evals += 1
                            exp = (ea and eb) if op == "and" else (ea or eb)
                            got = r.evaluate(e)
                            if got != exp:
                                fail(f"C02.{op}.nonfinal-env", {"a": ta, "b": tb, "op": op, "env": e, "rendered": str(r)}, got, exp)
    return {"suite": "marker_algebra", "evaluations": evals, "distinct_nontrivial": len(distinct), "not_evaluated": timeouts,
            "rule": "markers parsed from the well-defined atom pool (%d atoms, both operand orders) and random and/or combinations (%d markers); pairs/triples "
                    "sampled with VERIF_SEED; every result evaluated on %d environments (python 2.7-4.0 patch levels x string pools x extra sets); "
                    "per-case time limit 10 s (timed-out cases are not evaluated); non-trivial = both operands neither constant true nor false on the grid" % (len(atoms()), len(pool), len(envs)),
            "samples": samples, "failures": fails[:3000], "n_failures": len(fails), "bound": f"{len(pool)} markers, {pairs_done} pairs ({len(group_pairs)} catalogued + random), {len(envs)} environments"}
