"""Bounded-exhaustive stand-in for C08 over the property's own finite tag universe (majors 2-3, minors 0-20)."""
from __future__ import annotations

from packaging.version import Version

from dep_logic.tags.tags import EnvSpec

from .. import oracle_spec as O
from .. import oracle_tags as OT

REQUIRES = [">=3.8", ">=3.8,<3.12", "==3.9.*", ">=2.7,!=3.0.*,!=3.1.*,!=3.2.*", "<3", ">=3", "==3.10.4", ">=3.8.5,<3.8.7", "~=3.7", ">=3.6,<4", ">3.9.1",
            ">=2.7,<2.8||>=3.5", "<3.7||>=3.9", "!=3.8.*", ">=3.13", ">=3.0,<3.1", "", ">=3.20", "<2.7", ">=3.10.0,<3.10.1", "==3.8.5||==3.11.2", "<=3.0"]
IMPLS = [(None, False), ("cpython", False), ("cpython", True), ("pypy", False), ("pyston", False)]


def interpreters():
    out = []
    for X in (2, 3):
        for Y in range(0, 23):
            for Z in (0, 1, 2, 4, 5, 6, 7, 9):
                out.append((X, Y, Z))
    return out


def universe(tier):
    tags = []
    minors = range(0, 21) if tier != "quick" else [0, 1, 5, 6, 7, 8, 9, 10, 11, 12, 13, 20]
    for X in (2, 3):
        for Y in minors:
            for kind in ("cp", "py", "pp"):
                tags.append(f"{kind}{X}{Y}")
        for kind in ("cp", "py", "pp"):
            tags.append(f"{kind}{X}")
    pairs = []
    for t in tags:
        abis = ["none", "abi3"]
        if t[:2] == "cp" and len(t) > 3 or (t[:2] == "cp" and len(t) == 4):
            abis += [t, t + "m", t + "t", "cp39", "cp313t"]
        if t[:2] == "cp" and len(t) == 3:
            abis += [t]
        if t[:2] == "pp":
            abis += [f"pypy{t[2:]}_pp73", "pypy38_pp73"]
        for a in dict.fromkeys(abis):
            pairs.append((t, a))
    return pairs


def run(tier="quick", seed=0, arg=None):
    fails, evals, distinct, samples = [], 0, 0, []
    interp = interpreters()
    pairs = universe(tier)
    impls = IMPLS
    if arg:      # replay of a solver counter-model: one tag pair / implementation setting over the whole requires_python catalogue
        pairs = [(arg["python_tag"], arg["abi_tag"])]
        impls = [(arg.get("implementation"), bool(arg.get("gil_disabled")))]
    for rp in REQUIRES:
        for impl, gil in impls:
            spec = EnvSpec.from_spec(rp, None, impl, gil_disabled=gil) if impl else EnvSpec.from_spec(rp)
            admitted = [p for p in interp if O.den(spec.requires_python, Version("%d.%d.%d" % p))]
            for t, a in pairs:
                if a == "abi3" and impl == "cpython" and gil and t[:2] == "cp":
                    continue    # free-threaded x abi3: outside the statement (no PEP-stable answer)
                evals += 1
                exp = any(OT.loads(t, a, p, impl, gil) for p in admitted)
                try:
                    got = spec._evaluate_python(t, a)
                except Exception as e:  # noqa: BLE001
                    fails.append({"check": "C08.raises", "input": {"requires_python": rp, "implementation": impl, "gil_disabled": gil, "python_tag": t, "abi_tag": a}, "observed": repr(e), "expected": exp})
                    continue
                if exp:
                    distinct += 1
                if (got is not None) != exp:
                    fails.append({"check": "C08.compatible", "input": {"requires_python": rp, "implementation": impl, "gil_disabled": gil, "python_tag": t, "abi_tag": a},
                                  "observed": got, "expected": "compatible" if exp else "incompatible"})
                elif got is not None and tuple(got) != OT.score3(t, a):
                    fails.append({"check": "C08.score", "input": {"requires_python": rp, "implementation": impl, "gil_disabled": gil, "python_tag": t, "abi_tag": a},
                                  "observed": list(got), "expected": list(OT.score3(t, a))})
                if len(samples) < 3 and exp and evals % 977 == 0:
                    samples.append({"requires_python": rp, "implementation": impl, "python_tag": t, "abi_tag": a, "score": list(got) if got else None})
    return {"suite": "tags_python", "evaluations": evals, "distinct_nontrivial": distinct, "exhaustive": tier != "quick",
            "rule": "every (python tag, abi tag) of the PEP 425/3149/703 universe for majors 2-3 x minors %s x %d requires_python shapes (ranges, unions, exclusions, intra-minor bounds) x "
                    "%d implementation/gil settings; oracle: exists an interpreter X.Y.Z (Z in 0..9 sample) admitted by requires_python that loads the wheel; non-trivial = compatible cases" %
                    ("0-20" if tier != "quick" else "{0,1,5..13,20}", len(REQUIRES), len(IMPLS)),
            "samples": samples, "failures": fails[:3000], "n_failures": len(fails), "bound": f"{len(pairs)} tag pairs x {len(REQUIRES)} specs x {len(IMPLS)} settings"}
