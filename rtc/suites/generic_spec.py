"""Bounded stand-in for C19: string-atom specifier algebra on the real GenericSpecifier / Empty / Any objects."""
from __future__ import annotations

import itertools

from dep_logic.specifiers import GenericSpecifier

LITS = ["", "a", "ab", "abc", "b", "linux", "linux2", "lin", "win32 linux", "x"]
OPS = ["==", "!=", "in", "not in"]
ALL_OPS = OPS + ["<", "<=", ">", ">="]
CANDS = ["", "a", "b", "ab", "abc", "abcd", "c", "linux", "linux2", "lin", "win32", "win32 linux", "x", "nux", "z"]


def run(tier="quick", seed=0, arg=None):
    fails, evals, distinct, samples = [], 0, 0, []
    keys = [(op, lit) for op in OPS for lit in LITS]
    for ka, kb in itertools.product(keys, keys):
        a, b = GenericSpecifier(*ka), GenericSpecifier(*kb)      # fresh objects for every pair: equal operands are not identical
        for tag, f, comb in (("and", lambda: a & b, lambda x, y: x and y), ("or", lambda: a | b, lambda x, y: x or y)):
            evals += 1
            try:
                r = f()
            except NotImplementedError:
                continue
            except Exception as e:  # noqa: BLE001
                fails.append({"check": f"C19.{tag}.raises", "input": {"a": str(a), "b": str(b)}, "observed": repr(e), "expected": "a specifier or NotImplementedError"})
                continue
            distinct += 1
            for s in CANDS:
                if (s in r) != comb(s in a, s in b):
                    fails.append({"check": f"C19.{tag}", "input": {"a": str(a), "b": str(b), "candidate": s}, "observed": {"result": repr(r), "member": s in r},
                                  "expected": comb(s in a, s in b)})
                    break
            if len(samples) < 3 and distinct % 97 == 5:
                samples.append({"a": str(a), "b": str(b), "op": tag, "result": repr(r)})
    for op in ALL_OPS:
        for lit in LITS:
            a = GenericSpecifier(op, lit)
            evals += 1
            try:
                r = ~a
            except Exception as e:  # noqa: BLE001
                fails.append({"check": "C19.invert.raises", "input": {"a": str(a)}, "observed": repr(e), "expected": "a specifier"})
                continue
            for s in CANDS:
                if (s in r) == (s in a):
                    fails.append({"check": "C19.invert", "input": {"a": str(a), "candidate": s}, "observed": repr(r), "expected": "complement"})
                    break
    return {"suite": "generic_spec", "evaluations": evals, "distinct_nontrivial": distinct, "exhaustive": True,
            "rule": "all ordered pairs of (operator, literal) over 4 operators x %d literals (closed under equal/substring/superstring/disjoint/empty) x %d candidates; "
                    "non-trivial = the operation is defined (does not raise NotImplementedError)" % (len(LITS), len(CANDS)),
            "samples": samples, "failures": fails[:3000], "n_failures": len(fails), "bound": "literal pool above"}
