"""Bounded stand-in for C04 (membership vs packaging through the algebra), C06 (text round trip) and C17 (parser acceptance)
over a PEP 440 version-text grammar.  Labelled bounded."""
from __future__ import annotations

from packaging.specifiers import InvalidSpecifier as PkgInvalid
from packaging.specifiers import SpecifierSet
from packaging.version import Version

from dep_logic.specifiers import (ArbitrarySpecifier, InvalidSpecifier, from_specifierset, parse_version_specifier)

from .. import oracle_spec as O
from ..pools import FINAL_RELEASES, VERSIONS, Rng

P = parse_version_specifier


def version_texts(tier):
    rel = ["0", "1", "1.0", "1.2", "2.0", "2.3.1", "1.0.0", "3.10", "0.9", "10.1.2.3"]
    if tier != "quick":
        rel += ["2", "1.10", "2.4.0", "9.0.10", "1.0.0.0", "3.8.5"]
    suf = ["", "a1", "b2", "rc1", ".post1", ".dev1", "a1.dev2", ".post2.dev3", "rc1.post1", ".post0", ".dev0", "a0", "rc0", ".post0.dev0"]
    out = []
    for r in rel:
        for s in suf:
            out.append(r + s)
    out += ["1!0.5", "1!2.3", "1!1.0.post1", "2!0", "1.3.0", "1.3.0.post0", "1.2.0", "1.2.0.post0", "2.0.0.post0", "1!2.0.post0", "3.0.post0", "1.1", "1.1.0.post0"]
    alt = ["1.0.RC1", "1.0.c1", "1.0.pre1", "1.0.r1", "1.0-1", "1.0alpha1", "v1.2", "1.0.PoST1", "1.0_post1", "01.02", "1.0rev2", "1.0.preview3"]
    return out, alt


def leaf_texts(vtexts, alt):
    out = []
    for v in vtexts:
        for op in (">=", ">", "<", "<=", "==", "!="):
            out.append(op + v)
        if "." in v.split("!")[-1] and not v.split("!")[-1].startswith("."):
            out.append("~=" + v)
    for v in alt:
        for op in (">=", "==", "!=", "~=", "<"):
            out.append(op + v)
    for w in ["1.*", "2.0.*", "1.2.*", "0.*", "3.10.*", "1!2.*", "v1.*", "1.0.0.*", "10.*"]:
        out += ["==" + w, "!=" + w]
    return out


def boundary_shapes():
    """structured catalogue around the shortened renderings: adjacent release series with every inclusivity combination and every
    mix of segment counts / trailing zeros / epochs, as comma sets and as `||` unions"""
    out = []
    pairs = [("1.2", "1.3"), ("1.2", "1.3.0"), ("1.2.0", "1.3"), ("1.2.0", "1.3.0"), ("1.2", "1.2.1.0"), ("1", "2"), ("1", "2.0"), ("1.0", "2"), ("1.0", "2.0.0"),
             ("3.6.0", "3.7.0"), ("3.6", "3.7.0"), ("1!1.2", "1!1.3.0"), ("1.2.3", "1.3"), ("1.2.3", "1.3.0"), ("0", "1"), ("1.9", "1.10"), ("1.9.0", "1.10.0"),
             ("2.0", "3.0"), ("2", "3.0.0"), ("1.2", "1.4"), ("1.2.0", "1.2.1"), ("1.2.0", "1.2.1.0"),
             # an upper bound one segment longer than the lower one, ending in 0 but with a non-zero segment in between (no `~=` form: round-9 C04 seed)
             ("1.2", "2.5.0"), ("2.3.1", "2.4.5.0"), ("1.2", "2.0.1.0"), ("0.9", "1.1.0"), ("3.6", "4.7.0"), ("1!1.2", "1!2.5.0"),
             # upper bounds that are dev / pre-releases of the next series (round-9 C06 seed)
             ("3.8", "4.0.dev0"), ("1.2.0", "1.3.dev0"), ("1.2.0", "1.3.0.dev3"), ("2!1.2.0", "2!1.3.dev1"), ("1.2.0", "1.3a1"), ("1.2", "2.0rc1"),
             # the open finding D3 (post-release upper bound of the next series rendered `~=`), catalogued so that it is shown on every run whatever the random trees hit
             ("1.2", "2.0.post1"), ("2.3.1", "2.4.0.post1")]
    for a, b2 in pairs:
        for lo in (">=", ">"):
            for hi in ("<", "<="):
                out.append(f"{lo}{a},{hi}{b2}")
        for hi in ("<", "<="):
            for lo in (">=", ">"):
                out.append(f"{hi}{a}||{lo}{b2}")
        out.append(f"<{a}||>={b2}||=={a}")
    out += [">=2,<1||>3,<3", "<empty>||<empty>", "<empty>||>=1", ">=1||<empty>", "==1.0,==2.0||<1!0,>=1!1.dev0", ">=2,<1", ">=2,<1||>=3", "<1||<empty>||>2",
            "==1.0||==1.0", "!=1.0||==1.0", "<1||>=1"]
    return out


def run(tier="quick", seed=0, arg=None):
    rng = Rng(seed)
    vtexts, alt = version_texts(tier)
    leaves = leaf_texts(vtexts, alt) + boundary_shapes()
    fails, evals, distinct, samples = [], 0, set(), []
    probe = VERSIONS + [v for v in FINAL_RELEASES if v not in VERSIONS]

    def fail(check, inp, observed, expected):
        fails.append({"check": check, "input": inp, "observed": observed, "expected": expected})

    parsed = {}
    # ---- C17: every specifier set packaging accepts parses; everything else raises InvalidSpecifier only
    near_miss = ["", " ", ">=", "1.0", "=1.0", ">=1.0,", ",>=1", ">=1.0 <2", "~=1", "==1.*.0", ">=1.*", "!=", "<empty", "abc", ">=1.0||", "||", ">=1.0|| ||<2",
                 "===", "=>1.0", ">=1.0;", "~=1.0.*", "==*", ">=1.0.post", "<1.0+local", "==1.0+local", "~= 1.0", " >= 1.0 , < 2 ", "<=1.0,>=2,!=1.5", "==1.0.dev",
                 ">1!", "!=1.0.*.*", "== 1.0 || >=2", "<empty>", ">=v1.0", "==1.0 ,", "~=1!2.3", "==1!2.*",
                 # `<empty>` is a whole-string (or whole-alternative) token, never a clause of a comma-separated set
                 # not over the PEP 440 grammar (U+017F), yet let through by the compatible-release branch of packaging's specifier regex: the string is invalid
                 "~=1.0.po\u017ft1", ">=1,~=1.0.po\u017ft1", "<2||~=1.0.po\u017ft1",
                 ">=1.0,<empty>", "<empty>,>=1.0", ">=1.0,<empty>,<2.0", "<3.0||>=3.6,<empty>", "<empty>,<empty>", "<empty>,"]
    # an invalid alternative at every position of a `||` chain, incl. after (and between) alternatives whose union already covers every version
    # or is still empty: each alternative is validated whatever the others denote
    chains = []
    def _rejected(t):
        try:
            SpecifierSet(t)
        except PkgInvalid:
            return True
        return False
    # (`===` alternatives are left out: a union of `===V` with a range is documented as unsupported and raises ValueError - pinned by the repository's tests)
    for bad in [n for n in near_miss if "||" not in n and n.strip() and n != "<empty>" and "===" not in n and _rejected(n)] + ["<empty>>", ">=x"]:
        for pre in (["<2", ">=1"], ["<=1.0", ">1.0"], ["!=1.5", "==1.5"], [""], ["<empty>"], [">=2,<1"], ["<1", ">=2"], ["==1.*"]):
            for k in range(len(pre) + 1):
                chains.append("||".join(pre[:k] + [bad] + pre[k:]))
    for t in leaves + near_miss + chains + [f"{a},{b}" for a, b in [(rng.choice(leaves), rng.choice(leaves)) for _ in range(200 if tier == "quick" else 1500)]]:
        evals += 1
        ref_ok = True
        if not t.isascii():
            ref_ok = False          # the PEP 440 grammar is ASCII: whatever packaging's regex lets through, the string is not a specifier set
        elif "||" in t or t == "<empty>":
            parts = t.split("||") if t != "<empty>" else []
            for part in parts:
                try:
                    SpecifierSet(part)
                except PkgInvalid:
                    ref_ok = part == "<empty>" and ref_ok
        else:
            try:
                SpecifierSet(t)
            except PkgInvalid:
                ref_ok = False
        try:
            s = P(t)
            if not ref_ok:
                fail("C17.accepts-invalid", {"text": t}, repr(s), "InvalidSpecifier")
            elif "+" not in t:      # `+local` operands are outside every specifier claim
                parsed[t] = s
                distinct.add(t)
        except InvalidSpecifier:
            if ref_ok and "+" not in t:
                fail("C17.rejects-valid", {"text": t}, "InvalidSpecifier", "a specifier (packaging accepts it)")
        except Exception as e:  # noqa: BLE001
            if "+" not in t:
                fail("C17.wrong-exception", {"text": t, "packaging_accepts": ref_ok}, repr(e), "a specifier" if ref_ok else "InvalidSpecifier")
    for t in leaves[:: (7 if tier == "quick" else 1)]:
        try:
            ss = SpecifierSet(t)
        except PkgInvalid:
            continue
        evals += 1
        try:
            from_specifierset(ss)
        except Exception as e:  # noqa: BLE001
            fail("C17.from_specifierset-raises", {"text": t}, repr(e), "never raises on a SpecifierSet")

    # ---- C04 leaves: membership of final releases agrees with packaging; contains() too
    finals = FINAL_RELEASES
    for t, s in parsed.items():
        if "||" in t or t == "<empty>" or isinstance(s, ArbitrarySpecifier):
            continue
        ss = SpecifierSet(t)
        for v in finals:
            evals += 1
            exp = ss.contains(v, prereleases=True)
            try:
                got = O.den(s, v)
            except TypeError:
                break
            if got != exp:
                fail("C04.leaf", {"text": t, "version": str(v)}, got, exp)
                break
            try:
                g2 = str(v) in s
            except Exception as e:  # noqa: BLE001
                fail("C04.contains-raises", {"text": t, "version": str(v)}, repr(e), exp)
                break
            if g2 != exp:
                fail("C04.contains", {"text": t, "version": str(v), "str": _safe_str(s), "object": O.describe(s)}, g2, exp)
                break
    # ---- C04 expression trees over leaves
    ok_leaves = [t for t in parsed if "||" not in t and t != "<empty>" and not isinstance(parsed[t], ArbitrarySpecifier)]
    ntrees = 400 if tier == "quick" else 4000

    def tree(depth):
        if depth == 0 or rng.chance(1, 4):
            t = rng.choice(ok_leaves)
            return t, parsed[t], (lambda v, ss=SpecifierSet(t): ss.contains(v, prereleases=True))
        k = rng.randrange(3)
        ta, a, fa = tree(depth - 1)
        if k == 2:
            return f"~({ta})", ~a, (lambda v: not fa(v))
        tb, b, fb = tree(depth - 1)
        if k == 0:
            return f"({ta}) & ({tb})", a & b, (lambda v: fa(v) and fb(v))
        return f"({ta}) | ({tb})", a | b, (lambda v: fa(v) or fb(v))
    for i in range(ntrees):
        try:
            txt, s, f = tree(3)
        except Exception as e:  # noqa: BLE001
            fail("C04.tree-raises", {"seed": seed, "index": i}, repr(e), "no exception")
            continue
        for v in finals:
            evals += 1
            exp = f(v)
            got = O.den(s, v)
            if got != exp:
                fail("C04.tree", {"expr": txt, "version": str(v)}, got, exp)
                break
            try:
                g2 = str(v) in s
            except Exception as e:  # noqa: BLE001
                fail("C04.tree-contains-raises", {"expr": txt, "version": str(v), "str": _safe_str(s)}, repr(e), exp)
                break
            if g2 != exp:
                fail("C04.tree-contains", {"expr": txt, "version": str(v), "str": _safe_str(s), "object": O.describe(s)}, g2, exp)
                break
        if s.is_empty() and any(f(v) for v in finals):
            fail("C04.empty", {"expr": txt}, "empty", "contains something")
        # ---- C06 on the same reachable object
        evals += 1
        _roundtrip(s, {"expr": txt}, fail, probe)
        if len(samples) < 3 and i % 100 == 1:
            samples.append({"expr": txt, "result": _safe_str(s)})
    # ---- C04, exhaustive on a small universe: every pair of clause sets over three bounds with every inclusivity, both operators, both operand
    # orders, against packaging on the finals around those bounds (coincidences of bounds are the rule here, not the exception)
    small = []
    B3 = ["1.0", "1.5", "2.0"]
    for i, lo in enumerate(B3):
        small += [f">{lo}", f">={lo}", f"<{lo}", f"<={lo}", f"=={lo}", f"!={lo}"]
        for hi in B3[i + 1:]:
            small += [f">{lo},<{hi}", f">={lo},<{hi}", f">{lo},<={hi}", f">={lo},<={hi}"]
    small += ["!=1.5,<=2.0", "!=1.0,!=2.0", "~=1.0", "==1.*"]
    pts = [Version(x) for x in ("0.5", "1.0", "1.2", "1.5", "1.7", "2.0", "2.5")]
    sm = [(t, P(t), SpecifierSet(t)) for t in small]
    for ta, a, sa in sm:
        for tb, b, sb in sm:
            for tag, fn, comb in (("&", lambda: a & b, lambda x, y: x and y), ("|", lambda: a | b, lambda x, y: x or y)):
                evals += 1
                try:
                    r = fn()
                except Exception as e:  # noqa: BLE001
                    fail("C04.tree-raises", {"expr": f"({ta}) {tag} ({tb})"}, repr(e), "no exception")
                    continue
                for v in pts:
                    exp = comb(sa.contains(v, prereleases=True), sb.contains(v, prereleases=True))
                    if O.den(r, v) != exp:
                        fail("C04.tree", {"expr": f"({ta}) {tag} ({tb})", "version": str(v)}, O.den(r, v), exp)
                        break
    # ---- C17 / C04: an `===V` clause (V a valid version) next to ranges, incl. ranges whose bounds sit in adjacent epochs: the set parses
    # (the arbitrary-equality clause tests membership of V through the range's own text) and admits V exactly when the other clauses do
    for rt in [">=1,<1!0", ">=1!3,<2!0.0", ">=1.0,<2.0", ">=1,<2", "<=1!0", ">=0.5"]:
        for vt in ["1", "1.0", "1!3", "1.5"]:
            for text in (f"{rt},==={vt}", f"==={vt},{rt}"):
                evals += 1
                try:
                    ref = SpecifierSet(text)
                except Exception:  # noqa: BLE001
                    continue
                try:
                    got = P(text)
                except InvalidSpecifier as e:
                    fail("C17.rejects-valid", {"text": text}, repr(e), "parses")
                    continue
                except Exception as e:  # noqa: BLE001
                    fail("C17.wrong-exception", {"text": text}, repr(e), "parses")
                    continue
    # ---- === leaves: correct set or ValueError
    for a_t in ["===1.0", "===abc", "===1.0.post1"]:
        a = P(a_t)
        for t in ok_leaves[:: (11 if tier == "quick" else 3)]:
            b = parsed[t]
            ssb = SpecifierSet(t)
            for tag, fn, comb in (("and", lambda: a & b, lambda x, y: x and y), ("or", lambda: a | b, lambda x, y: x or y)):
                evals += 1
                try:
                    r = fn()
                except ValueError:
                    continue
                except Exception as e:  # noqa: BLE001
                    fail("C04.arbitrary-raises", {"a": a_t, "b": t, "op": tag}, repr(e), "a set or ValueError")
                    continue
                for v in finals:
                    exp = comb(str(v) == a_t[3:], ssb.contains(v, prereleases=True))
                    try:
                        got = str(v) in r
                    except Exception as e:  # noqa: BLE001
                        fail("C04.arbitrary-contains-raises", {"a": a_t, "b": t, "op": tag, "version": str(v)}, repr(e), exp)
                        break
                    if got != exp:
                        fail("C04.arbitrary", {"a": a_t, "b": t, "op": tag, "version": str(v), "str": _safe_str(b), "object": O.describe(b)}, got, exp)
                        break
    # ---- C06 on parsed texts and small combinations
    for t, s in parsed.items():
        evals += 1
        _roundtrip(s, {"text": t}, fail, probe)
    keys = list(parsed)
    for _ in range(600 if tier == "quick" else 6000):
        ta, tb = rng.choice(keys), rng.choice(keys)
        a, b = parsed[ta], parsed[tb]
        if isinstance(a, ArbitrarySpecifier) or isinstance(b, ArbitrarySpecifier):
            continue
        for tag, fn in (("and", lambda: a & b), ("or", lambda: a | b), ("invert", lambda: ~a)):
            evals += 1
            try:
                r = fn()
            except Exception as e:  # noqa: BLE001
                fail("C06.op-raises", {"a": ta, "b": tb, "op": tag}, repr(e), "no exception")
                continue
            _roundtrip(r, {"a": ta, "b": tb, "op": tag}, fail, probe)
    return {"suite": "spec_text", "evaluations": evals, "distinct_nontrivial": len(distinct),
            "rule": "version-text grammar: %d version texts (epochs, 1-4 release segments, a/b/rc, post, dev, alternative spellings) x operators incl. ~= and wildcards, "
                    "comma-joined pairs, near-miss invalid strings; expression trees of depth <= 3 over the accepted leaves; membership compared with "
                    "packaging on %d final releases; distinct = accepted specifier texts" % (len(vtexts) + len(alt), len(finals)),
            "samples": samples, "failures": fails[:3000], "n_failures": len(fails), "bound": f"{len(leaves)} leaf texts, {ntrees} trees"}


def _safe_str(s):
    try:
        return str(s)
    except Exception as e:  # noqa: BLE001
        return f"<str raises {e!r}>"


def _roundtrip(s, inp, fail, probe):
    try:
        text = str(s)
    except Exception as e:  # noqa: BLE001
        fail("C06.str-raises", {**inp, "object": O.describe(s) if not isinstance(s, ArbitrarySpecifier) else repr(s.target)}, repr(e), "str() succeeds")
        return
    try:
        back = P(text)
    except Exception as e:  # noqa: BLE001
        fail("C06.reparse-raises", {**inp, "str": text}, repr(e), "parses back")
        return
    if isinstance(s, ArbitrarySpecifier):
        if back != s:
            fail("C06.roundtrip", {**inp, "str": text}, repr(back), "equal")
        return
    if not (back == s):
        try:
            diff = [str(v) for v in probe if O.den(back, v) != O.den(s, v)][:3]
        except TypeError:
            diff = ["<class>"]
        fail("C06.roundtrip", {**inp, "str": text, "object": O.describe(s)}, {"reparsed": O.describe(back), "differs_at": diff}, "parse(str(s)) == s")
