"""Replays a solver counter-model of a specifier obligation on the real code: rationals of the model are mapped,
order- and equality-preserving, into the ascending pool of PEP 440 versions."""
from __future__ import annotations

from fractions import Fraction

from .. import oracle_spec as O
from ..pools import VERSIONS


def _fracs(d, acc):
    if isinstance(d, dict):
        if d.get("cls") == "RangeSpecifier":
            for k in ("min", "max"):
                if d.get(k) is not None:
                    acc.add(Fraction(*d[k]))
        for v in d.values():
            _fracs(v, acc)
    elif isinstance(d, list):
        for v in d:
            _fracs(v, acc)


def _subst(d, m):
    if isinstance(d, dict):
        if d.get("cls") == "RangeSpecifier":
            return {**d, "min": None if d["min"] is None else str(m[Fraction(*d["min"])]), "max": None if d["max"] is None else str(m[Fraction(*d["max"])])}
        return {k: _subst(v, m) for k, v in d.items()}
    if isinstance(d, list):
        return [_subst(v, m) for v in d]
    return d


def run(tier="quick", seed=0, arg=None):
    vals = set()
    _fracs({k: arg.get(k) for k in ("a", "b", "self", "other")}, vals)
    if arg.get("ghost_v"):
        vals.add(Fraction(*arg["ghost_v"]))
    vals = sorted(vals)
    fails, tried = [], 0
    n = len(VERSIONS)
    if len(vals) > n:
        return {"suite": "spec_replay", "evaluations": 0, "distinct_nontrivial": 0, "failures": [], "n_failures": 0, "note": "too many distinct bounds"}
    # several order-preserving embeddings (dense-ish, low, high)
    embeddings = []
    k = len(vals)
    if k:
        stride = max(1, n // (k + 1))
        embeddings.append([VERSIONS[min(n - 1, (i + 1) * stride - 1)] for i in range(k)])
        embeddings.append(VERSIONS[:k])
        embeddings.append(VERSIONS[n - k:])
        embeddings.append([VERSIONS[min(n - 1, 5 + 2 * i)] for i in range(k)] if 5 + 2 * k <= n else VERSIONS[:k])
    else:
        embeddings.append([])
    a_d = arg.get("a") or arg.get("self")
    b_d = arg.get("b") or arg.get("other")
    for emb in embeddings:
        m = dict(zip(vals, emb))
        try:
            a = O.build(_subst(a_d, m))
            b = O.build(_subst(b_d, m)) if b_d and b_d.get("cls") in ("RangeSpecifier", "UnionSpecifier", "EmptySpecifier", "AnySpecifier") else None
        except Exception as e:  # noqa: BLE001
            continue
        if not O.wf(a) or (b is not None and not O.wf(b)):
            continue
        tried += 1
        op = arg.get("op", "and")
        try:
            if op == "and":
                r, exp = a & b, lambda v: O.den(a, v) and O.den(b, v)
            elif op == "or":
                r, exp = a | b, lambda v: O.den(a, v) or O.den(b, v)
            else:
                r, exp = ~a, lambda v: not O.den(a, v)
        except Exception as e:  # noqa: BLE001
            fails.append({"check": f"C01.{op}.raises", "input": {"a": O.describe(a), "b": O.describe(b) if b is not None else None}, "observed": repr(e), "expected": "no exception"})
            continue
        inp = {"a": O.describe(a), "b": O.describe(b) if b is not None else None}
        try:
            bad = [str(v) for v in VERSIONS if O.den(r, v) != exp(v)]
        except TypeError as e:
            fails.append({"check": f"C01.{op}.class", "input": inp, "observed": repr(e), "expected": "an interval specifier"})
            continue
        if bad:
            fails.append({"check": f"C01.{op}.den", "input": {**inp, "version": bad[0]}, "observed": O.describe(r), "expected": f"membership of {bad[0]} = {exp(next(v for v in VERSIONS if str(v) == bad[0]))}"})
        if not O.wf(r):
            fails.append({"check": f"C05.{op}.wf", "input": inp, "observed": O.describe(r), "expected": "canonical shape"})
    return {"suite": "spec_replay", "evaluations": tried, "distinct_nontrivial": tried, "failures": fails, "n_failures": len(fails),
            "rule": "solver model embedded into the version pool", "samples": []}
