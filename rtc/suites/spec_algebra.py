"""Bounded stand-in for C01 / C05 / C14 (specifier part): run-time evaluation of the same contracts (den, wf, laws)
on the real operators over reachable specifiers.  Labelled bounded; never counted as proved."""
from __future__ import annotations

from packaging.version import Version

from dep_logic.specifiers import (AnySpecifier, EmptySpecifier, RangeSpecifier, UnionSpecifier, parse_version_specifier)

from .. import oracle_spec as O
from ..pools import VERSIONS, Rng

P = parse_version_specifier


def leaves(bounds):
    out = []
    for v in bounds:
        for op in (">=", ">", "<", "<=", "==", "!="):
            out.append(f"{op}{v}")
    for i, a in enumerate(bounds):
        for b in bounds[i + 1:]:
            out += [f">={a},<{b}", f">{a},<={b}", f">={a},<={b}", f">{a},<{b}"]
    return out


RAISED = []


def reachable(seed, tier):
    rng = Rng(seed)
    nb = 7 if tier == "quick" else 12
    bounds = sorted({rng.choice(VERSIONS) for _ in range(nb)} | {Version("1.0"), Version("2.0")})
    texts = leaves(bounds)
    level0 = [P(""), P("<empty>"), EmptySpecifier(), AnySpecifier(), RangeSpecifier()] + [P(t) for t in texts]
    pool = list(level0)
    n1 = 150 if tier == "quick" else 600
    for _ in range(n1):
        a, b = rng.choice(pool), rng.choice(pool)
        k = rng.randrange(3)
        try:
            pool.append(a & b if k == 0 else a | b if k == 1 else ~a)
        except Exception as e:  # noqa: BLE001  (an operator that raises on reachable operands is itself a failure, reported by run())
            RAISED.append({"op": "&|~"[k], "a": O.describe(a), "b": O.describe(b), "error": repr(e)})
    return pool, bounds


def run(tier="quick", seed=0, only=None):
    pool, bounds = reachable(seed, tier)
    rng = Rng(seed + 1)
    fails, evals, distinct, samples = [], 0, set(), []
    probe = VERSIONS

    def fail(check, inp, observed, expected):
        fails.append({"check": check, "input": inp, "observed": observed, "expected": expected})

    def dv(s):
        return tuple(O.den(s, v) for v in probe)

    for r in RAISED:
        fail(f"C01.{ {'&': 'and', '|': 'or', '~': 'invert'}[r['op']] }.raises", {"a": r["a"], "b": r["b"]}, r["error"], "no exception")
    for s in pool:
        if not O.wf(s):
            fail("C05.wf-reachable", {"s": O.describe(s)}, "not canonical", "canonical shape")
    npairs = 1500 if tier == "quick" else 12000
    for i in range(npairs):
        a, b = rng.choice(pool), rng.choice(pool)
        da, db = dv(a), dv(b)
        for name, fn, exp in (("and", lambda: a & b, tuple(x and y for x, y in zip(da, db))),
                              ("or", lambda: a | b, tuple(x or y for x, y in zip(da, db))),
                              ("invert", lambda: ~a, tuple(not x for x in da))):
            evals += 1
            try:
                r = fn()
            except Exception as e:  # noqa: BLE001
                fail(f"C01.{name}.raises", {"a": O.describe(a), "b": O.describe(b)}, repr(e), "no exception")
                continue
            key = (name, str(a), str(b) if name != "invert" else "")
            if len(set(da)) > 1 or len(set(db)) > 1:
                distinct.add(key)
            try:
                got = dv(r)
            except TypeError as e:
                fail(f"C01.{name}.class", {"a": O.describe(a), "b": O.describe(b)}, repr(e), "an interval specifier")
                continue
            if got != exp:
                k = next(j for j, (x, y) in enumerate(zip(got, exp)) if x != y)
                fail(f"C01.{name}.den", {"a": O.describe(a), "b": O.describe(b), "version": str(probe[k])}, got[k], exp[k])
            if not O.wf(r):
                fail(f"C05.{name}.wf", {"a": O.describe(a), "b": O.describe(b)}, O.describe(r), "canonical shape")
            if name == "and" and r.is_empty() and any(exp):
                fail("C05.is_empty", {"a": O.describe(a), "b": O.describe(b)}, True, False)
            if name == "or" and r.is_any() and not all(exp):
                fail("C05.is_any", {"a": O.describe(a), "b": O.describe(b)}, True, False)
            # exactness the other way round, where the expected answer is known without enumerating versions: a universal operand makes the union
            # universal, an empty operand makes the intersection empty (whatever class carries the universal / empty set, on either side)
            if name == "or" and (a.is_any() or b.is_any()) and not r.is_any():
                fail("C05.is_any", {"a": O.describe(a), "b": O.describe(b)}, False, True)
            if name == "and" and (a.is_empty() or b.is_empty()) and not r.is_empty():
                fail("C05.is_empty", {"a": O.describe(a), "b": O.describe(b)}, False, True)
            if len(samples) < 4 and i % 300 == 7:
                samples.append({"op": name, "a": str(a), "b": str(b), "result": str(r) if name != "x" else ""})
        # C14 laws as equalities of the returned objects
        c = rng.choice(pool)
        laws = [("commutative-and", lambda: (a & b, b & a)), ("commutative-or", lambda: (a | b, b | a)),
                ("assoc-and", lambda: ((a & b) & c, a & (b & c))), ("assoc-or", lambda: ((a | b) | c, a | (b | c))),
                ("idem-and", lambda: (a & a, a)), ("idem-or", lambda: (a | a, a)),
                ("absorb-1", lambda: (a & (a | b), a)), ("absorb-2", lambda: (a | (a & b), a)),
                ("distrib-1", lambda: (a & (b | c), (a & b) | (a & c))), ("distrib-2", lambda: (a | (b & c), (a | b) & (a | c))),
                ("involution", lambda: (~~a, a)), ("demorgan-1", lambda: (~(a & b), ~a | ~b)), ("demorgan-2", lambda: (~(a | b), ~a & ~b))]
        for lname, f in laws:
            evals += 1
            try:
                x, y = f()
            except Exception as e:  # noqa: BLE001
                fail(f"C14.{lname}.raises", {"a": O.describe(a), "b": O.describe(b), "c": O.describe(c)}, repr(e), "no exception")
                continue
            if not (x == y) or not (y == x):
                fail(f"C14.{lname}", {"a": O.describe(a), "b": O.describe(b), "c": O.describe(c)}, [O.describe(x), O.describe(y)], "equal objects")
        evals += 2
        try:
            if not (a & ~a).is_empty():
                fail("C14.excluded-middle-and", {"a": O.describe(a)}, O.describe(a & ~a), "empty")
            if not (a | ~a).is_any():
                fail("C14.excluded-middle-or", {"a": O.describe(a)}, O.describe(a | ~a), "universal")
        except Exception as e:  # noqa: BLE001
            fail("C14.excluded-middle.raises", {"a": O.describe(a)}, repr(e), "no exception")
        # C05: equal objects admit the same versions; structurally identical canonical results are equal
        evals += 1
        if (a == b) and da != db:
            fail("C05.eq-implies-same-set", {"a": O.describe(a), "b": O.describe(b)}, "equal", "different sets")
        if O.describe(a) == O.describe(b) and not (a == b):
            fail("C05.same-shape-implies-eq", {"a": O.describe(a), "b": O.describe(b)}, "unequal", "equal")
    return {"suite": "spec_algebra", "evaluations": evals, "distinct_nontrivial": len(distinct),
            "rule": "specifiers reachable from parse_version_specifier over leaves on %d sampled bounds (pool of %d versions incl. pre/post/dev/epoch) "
                    "closed under random &,|,~ (%d objects); pairs/triples sampled with VERIF_SEED; den compared at every pool version; "
                    "non-trivial = at least one operand neither empty nor universal on the probe set; distinct by (op, str(a), str(b))" % (len(bounds), len(VERSIONS), len(pool)),
            "samples": samples, "failures": fails[:3000], "n_failures": len(fails), "bound": f"{len(pool)} reachable objects, {npairs} sampled pairs"}
