"""Replays a solver counter-model of a C19 obligation on the real GenericSpecifier objects."""
from __future__ import annotations

from dep_logic.specifiers import AnySpecifier, EmptySpecifier, GenericSpecifier


def run(tier="quick", seed=0, arg=None):
    fails = []
    a = GenericSpecifier(arg["a"]["op"], arg["a"]["value"]) if "op" in arg.get("a", {}) else {"EmptySpecifier": EmptySpecifier, "AnySpecifier": AnySpecifier}[arg["a"]["cls"]]()
    s = arg.get("candidate", "")
    op = arg.get("op")
    inp = {"a": str(a), "candidate": s}
    try:
        if op in ("and", "or"):
            b = GenericSpecifier(arg["b"]["op"], arg["b"]["value"])
            inp["b"] = str(b)
            r = (a & b) if op == "and" else (a | b)
            exp = ((s in a) and (s in b)) if op == "and" else ((s in a) or (s in b))
            if (s in r) != exp:
                fails.append({"check": f"C19.{op}", "input": inp, "observed": {"result": repr(r), "member": s in r}, "expected": exp})
        elif op == "invert":
            r = ~a
            if (s in r) == (s in a):
                fails.append({"check": "C19.invert", "input": inp, "observed": repr(r), "expected": "complement"})
        else:
            exp = isinstance(a, AnySpecifier)
            if (s in a) != exp:
                fails.append({"check": "C19.special", "input": inp, "observed": s in a, "expected": exp})
    except NotImplementedError:
        pass
    except Exception as e:  # noqa: BLE001
        fails.append({"check": f"C19.{op}.raises", "input": inp, "observed": repr(e), "expected": "a specifier or NotImplementedError"})
    return {"suite": "generic_replay", "evaluations": 1, "distinct_nontrivial": 1, "failures": fails, "n_failures": len(fails), "samples": []}
