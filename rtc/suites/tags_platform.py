"""Exhaustive stand-in for C09 on the property's grid: accepted platform tags and their order against an independent
rule oracle; thorough tier cross-checks the oracle against packaging.tags with its libc probes stubbed."""
from __future__ import annotations

from dep_logic.tags.platform import Arch, Platform
from dep_logic.tags import os as dos
from dep_logic.tags.tags import EnvSpec

from .. import oracle_tags as OT

LINUX_ARCHS = ["x86_64", "aarch64", "armv7l", "ppc64le", "ppc64", "s390x", "riscv64"]


def grid():
    for arch in LINUX_ARCHS:
        for minor in range(5, 51):
            yield ("manylinux", arch, 2, minor)
        for minor in range(1, 6):
            yield ("musllinux", arch, 1, minor)
    for minor in range(4, 17):
        yield ("macos", "x86_64", 10, minor)
    for major in range(11, 31):
        yield ("macos", "x86_64", major, 0)
        yield ("macos", "arm64", major, 0)
    for arch in ("x86", "amd64", "arm64"):
        yield ("windows", arch, 0, 0)


def make(kind, arch, major, minor):
    if kind == "windows":
        return Platform.parse(f"windows_{arch}")
    name = {"manylinux": "manylinux", "musllinux": "musllinux", "macos": "macos"}[kind]
    return Platform.parse(f"{name}_{major}_{minor}_{arch}")


def run(tier="quick", seed=0, arg=None):
    fails, evals, distinct, samples = [], 0, 0, []

    def fail(check, inp, observed, expected):
        fails.append({"check": check, "input": inp, "observed": observed, "expected": expected})
    for kind, arch, major, minor in grid():
        evals += 1
        inp = {"platform": f"{kind}_{major}_{minor}_{arch}"}
        try:
            p = make(kind, arch, major, minor)
            got = list(p.compatible_tags)
        except Exception as e:  # noqa: BLE001
            fail("C09.raises", inp, repr(e), "a tag list")
            continue
        if kind == "manylinux":
            exp = OT.manylinux_tags(arch, minor)
            if got != exp:
                fail("C09.manylinux", inp, got[:8], exp[:8])
        elif kind == "musllinux":
            exp = OT.musllinux_tags(arch, minor)
            if set(got) != exp or len(got) != len(set(got)):
                fail("C09.musllinux", inp, sorted(got), sorted(exp))
        elif kind == "macos":
            exp = OT.not_fat(OT.mac_tags(arch, major, minor))
            if OT.not_fat(got) != exp:
                fail("C09.macos", inp, OT.not_fat(got)[:10], exp[:10])
        else:
            exp = [{"x86": "win32", "amd64": "win_amd64", "arm64": "win_arm64"}[arch]]
            if got != exp:
                fail("C09.windows", inp, got, exp)
        distinct += 1
        # platform score = position from the end, `any` last
        spec = EnvSpec.from_spec(">=3.8", str(p))
        full = got + ["any"]
        for i, t in enumerate(full[:: max(1, len(full) // 6)] + ["any", "nonexistent_tag"]):
            evals += 1
            s = spec._evaluate_platform(t)
            e = None if t not in full else len(full) - full.index(t)
            if s != e:
                fail("C09.score", {**inp, "tag": t}, s, e)
        if len(samples) < 3 and evals % 37 == 0:
            samples.append({**inp, "tags": got[:4], "n": len(got)})
    # cross-check of the oracle itself against packaging.tags (thorough)
    xnote = None
    if tier != "quick":
        try:
            import packaging._manylinux as ml
            import packaging._musllinux as mu
            import packaging.tags as pt
            for arch in LINUX_ARCHS:
                for minor in (5, 11, 12, 16, 17, 18, 28, 35, 50):
                    ml._get_glibc_version = lambda m=minor: (2, m)
                    ml._is_compatible = lambda *a, **k: True
                    ml._have_compatible_abi = lambda *a, **k: True
                    ref = list(ml.platform_tags([arch]))
                    mine = [t for t in OT.manylinux_tags(arch, minor) if not t.startswith("linux_")]
                    evals += 1
                    if ref != mine:
                        fail("C09.oracle-vs-packaging.manylinux", {"arch": arch, "minor": minor}, mine[:6], ref[:6])
            for major, minor, arch in [(10, 9, "x86_64"), (10, 16, "x86_64"), (11, 0, "x86_64"), (14, 0, "arm64"), (12, 0, "arm64"), (30, 0, "x86_64")]:
                ref = OT.not_fat(list(pt.mac_platforms((major, minor), arch)))
                mine = OT.not_fat(OT.mac_tags(arch, major, minor))
                evals += 1
                if ref != mine:
                    fail("C09.oracle-vs-packaging.macos", {"version": [major, minor], "arch": arch}, mine[:8], ref[:8])
        except Exception as e:  # noqa: BLE001
            xnote = f"packaging cross-check not evaluated: {e!r}"
    return {"suite": "tags_platform", "evaluations": evals, "distinct_nontrivial": distinct, "exhaustive": True,
            "rule": "the whole grid of C09: manylinux 2.5-2.50 and musllinux 1.1-1.5 on 7 architectures, macOS 10.4-10.16 (x86_64) and 11-30 (x86_64, arm64), "
                    "Windows x 3 architectures; ordered comparison for manylinux/macOS/Windows, set comparison for musllinux; legacy fat* formats filtered from both sides",
            "samples": samples, "failures": fails[:3000], "n_failures": len(fails), "bound": "C09 grid", "note": xnote}
