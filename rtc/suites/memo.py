"""Bounded stand-in for C10: cold-vs-warm differential.  The probe operation is evaluated (i) right after every
memoisation cache of the library has been cleared and (ii) at the end of a generated history; text and meaning must agree.
A few probes are additionally run in a really fresh interpreter to validate the cache-clearing emulation."""
from __future__ import annotations

import json
import os
import subprocess
import sys

from dep_logic.markers import parse_marker
from dep_logic.markers.single import _merge_single_markers
from dep_logic.utils import cnf, dnf

from .. import oracle_marker as OM
from ..mpools import CaseTimeout, atoms, environments, time_limit
from ..pools import Rng

# pairs of operations whose *merged* specifiers are equal as sets but spelled differently (X.Y vs X.Y.0): results computed by the
# library (not just parsed) must not leak from one to the other through a cache
MERGE_TWINS = [
    (("and", ("parse", 'python_version >= "3.8"'), ("parse", 'python_version <= "3.8"')), ("and", ("parse", 'python_version >= "3.8.0"'), ("parse", 'python_version <= "3.8.0"'))),
    (("and", ("parse", 'python_version >= "3.8.0"'), ("parse", 'python_version < "4.0"')), ("and", ("parse", 'python_version >= "3.8"'), ("parse", 'python_version < "4.0"'))),
    (("or", ("parse", 'platform_release < "5.10"'), ("parse", 'platform_release > "5.10"')), ("or", ("parse", 'platform_release < "5.10.0"'), ("parse", 'platform_release > "5.10.0"'))),
    (("and", ("parse", 'python_full_version >= "3.8"'), ("parse", 'python_full_version < "3.9"')), ("and", ("parse", 'python_full_version >= "3.8.0"'), ("parse", 'python_full_version < "3.9.0"'))),
    (("or", ("parse", 'python_full_version < "3.6"'), ("parse", 'python_full_version >= "3.7"')), ("or", ("parse", 'python_full_version < "3.6.0"'), ("parse", 'python_full_version >= "3.7.0"'))),
    # an operand re-rendered by the library (zero-padded value, view spelled as the operand it came from) against the same atom parsed from text
    (("and", ("and", ("parse", 'python_version >= "3.7"'), ("parse", 'python_full_version >= "3.8"')), ("parse", 'python_full_version < "3.9"')),
     ("and", ("parse", 'python_full_version >= "3.8.0"'), ("parse", 'python_full_version < "3.9"'))),
    (("or", ("and", ("parse", 'python_version >= "3.7"'), ("parse", 'python_full_version >= "3.8"')), ("parse", 'python_full_version < "3.7"')),
     ("or", ("parse", 'python_full_version >= "3.8.0"'), ("parse", 'python_full_version < "3.7"'))),
    (("and", ("or", ("parse", 'python_version <= "3.7"'), ("parse", 'python_full_version < "3.9"')), ("parse", 'python_full_version >= "3.8"')),
     ("and", ("parse", 'python_full_version < "3.9.0"'), ("parse", 'python_full_version >= "3.8"'))),
    # an atom whose specifier view was already computed (by a same-variable merge) and is then used in a python_version x python_full_version merge
    (("and", ("parse", 'python_version > "3.7"'), ("parse", 'python_version < "3.10"')), ("or", ("parse", 'python_version > "3.7"'), ("parse", 'python_full_version >= "3.7.3"'))),
    (("and", ("parse", 'python_version <= "3.7"'), ("parse", 'python_version > "3.5"')), ("and", ("parse", 'python_version <= "3.7"'), ("parse", 'python_full_version >= "3.7.3"'))),
    (("or", ("parse", 'python_version == "3.7"'), ("parse", 'python_version == "3.9"')), ("and", ("parse", 'python_version == "3.7"'), ("parse", 'python_full_version >= "3.7.3"'))),
    # an atom produced by a merge whose view carries a bound that its text does not show (the upper bound of `~=`, the second bound of `==`),
    # spelled differently from what the text gives, against the same atom parsed from text
    (("or", ("and", ("parse", 'platform_release >= "5.10.0"'), ("parse", 'platform_release < "5.11"')), ("parse", 'platform_release < "5.10.0"')),
     ("or", ("parse", 'platform_release ~= "5.10.0"'), ("parse", 'platform_release < "5.10.0"'))),
    (("or", ("and", ("parse", 'platform_release >= "5.10"'), ("parse", 'platform_release <= "5.10.0"')), ("parse", 'platform_release < "5.10"')),
     ("or", ("parse", 'platform_release == "5.10"'), ("parse", 'platform_release < "5.10"'))),
    (("or", ("and", ("parse", 'python_full_version >= "3.8.0"'), ("parse", 'python_full_version < "3.9"')), ("parse", 'python_full_version < "3.8.0"')),
     ("or", ("parse", 'python_full_version ~= "3.8.0"'), ("parse", 'python_full_version < "3.8.0"'))),
    # the same (operator, literal) on two different version-like variables: `python_version in "3.8"` is the series 3.8.*, `python_full_version in "3.8"`
    # the single version 3.8.0 - state keyed by operator and literal alone would leak from one to the other
    (("and", ("parse", 'python_version in "3.8"'), ("parse", 'python_version >= "3.7"')), ("and", ("parse", 'python_full_version in "3.8"'), ("parse", 'python_full_version >= "3.8.1"'))),
    (("or", ("parse", 'python_version not in "3.8"'), ("parse", 'python_version >= "3.9"')), ("or", ("parse", 'platform_release not in "3.8"'), ("parse", 'platform_release >= "3.8.1"'))),
    (("and", ("parse", 'python_version == "3.8"'), ("parse", 'python_version >= "3.7"')), ("and", ("parse", 'python_full_version == "3.8"'), ("parse", 'python_full_version >= "3.7"'))),
    (("and", ("parse", 'os_name == "3.8"'), ("parse", 'os_name != "3.9"')), ("and", ("parse", 'platform_release == "3.8"'), ("parse", 'platform_release != "3.9"'))),
    (("and", ("parse", 'os_name == "a" or os_name == "b"'), ("parse", 'python_version >= "3.8" or sys_platform == "y"')),
     ("and", ("parse", 'os_name == "b" or os_name == "a"'), ("parse", 'python_version >= "3.8" or sys_platform == "y"'))),
    (("or", ("parse", 'os_name != "a" and os_name != "b"'), ("parse", 'python_version >= "3.8" and sys_platform == "y"')),
     ("or", ("parse", 'os_name != "b" and os_name != "a"'), ("parse", 'python_version >= "3.8" and sys_platform == "y"'))),
]
TWINS = [('python_version >= "3.8"', '"3.8" <= python_version'), ('python_version >= "3.10"', 'python_version >= "3.10.0"'),
         ('python_full_version >= "3.10"', 'python_full_version >= "3.10.0"'), ('os_name == "nt"', '"nt" == os_name'),
         ('sys_platform in "linux"', '"linux" in sys_platform'), ('python_version < "3.9"', '"3.9" > python_version'),
         ('python_version == "3.8"', 'python_version == "3.8.*"'), ('extra == "a"', '"a" == extra'), ('extra == "A_b"', 'extra == "a-b"')]


def _module_state():
    """module-level and class-level mutable containers (dict / list / set) of the library: a hand-written memo or accumulator lives in one of these"""
    import sys
    out = {}
    for name, mod in list(sys.modules.items()):
        if name == "dep_logic" or name.startswith("dep_logic."):
            owners = [(name, mod)] + [(f"{name}.{k}", v) for k, v in list(vars(mod).items()) if isinstance(v, type) and getattr(v, "__module__", "") == name]
            for oname, owner in owners:
                for attr, obj in list(vars(owner).items()):
                    if type(obj) in (dict, list, set) and not attr.startswith("__"):
                        out[(oname, attr)] = obj
    return out


_PRISTINE = {k: (type(v)(v)) for k, v in _module_state().items()}       # taken when this suite is imported, before any library operation


def clear():
    """clears every functools cache found in the library's modules (not a fixed list: a newly memoised function is cleared too) and puts every
    module- / class-level container back to its content at import time (a hand-written memo is 'cold' again)"""
    import sys
    for k, obj in _module_state().items():
        if k in _PRISTINE and obj != _PRISTINE[k]:
            snap = _PRISTINE[k]
            obj.clear()
            (obj.update if isinstance(obj, (dict, set)) else obj.extend)(snap)
    for name, mod in list(sys.modules.items()):
        if name == "dep_logic" or name.startswith("dep_logic."):
            for obj in list(vars(mod).values()):
                _clear(obj)
                if isinstance(obj, type):
                    for attr in list(vars(obj).values()):
                        _clear(getattr(attr, "__func__", attr))


def _clear(f):
    cc = getattr(f, "cache_clear", None)
    if callable(cc):
        try:
            cc()
        except Exception:  # noqa: BLE001
            pass


def build(e):
    k = e[0]
    if k == "parse":
        return parse_marker(e[1])
    if k == "reparse":
        return parse_marker(str(build(e[1])))
    a, b = build(e[1]), build(e[2])
    return a & b if k == "and" else a | b


def observe(e, envs):
    m = build(e)
    return str(m), OM.ev_vector(m, envs)


def merged_twin(rng):
    """two atoms over one version-like variable whose merge is a single atom, bounds spelled X.Y / X.Y.0 at random, and a third atom next to them"""
    name = rng.choice(["python_full_version", "platform_release", "python_version", "platform_release"])
    major, minor = rng.choice([3, 5]), rng.choice([7, 8, 10])
    def spell(mi, patch=0):
        if patch:
            return f"{major}.{mi}.{patch}"
        return rng.choice([f"{major}.{mi}", f"{major}.{mi}.0"])
    shape = rng.randrange(4)
    if shape == 0:      # >= lo and < next minor  ->  ~= / ==X.Y.*
        pair, k = (f'{name} >= "{spell(minor)}"', f'{name} < "{spell(minor + 1)}"'), "and"
    elif shape == 1:    # >= v and <= v  ->  == v
        pair, k = (f'{name} >= "{spell(minor)}"', f'{name} <= "{spell(minor)}"'), "and"
    elif shape == 2:    # < v or > v  ->  != v
        pair, k = (f'{name} < "{spell(minor)}"', f'{name} > "{spell(minor)}"'), "or"
    else:               # < lo or >= next minor  ->  != X.Y.*
        pair, k = (f'{name} < "{spell(minor)}"', f'{name} >= "{spell(minor + 1)}"'), "or"
    op = rng.choice(["<", "<=", ">", ">=", "==", "!="])
    third = f'{name} {op} "{spell(rng.choice([minor - 1, minor, minor, minor + 1, minor + 1]), rng.choice([0, 0, 0, 2]))}"'
    return (k, ("parse", pair[0]), ("parse", pair[1])), third, rng.choice(["and", "or"])


def gen_expr(rng, A, depth=2):
    if depth == 0 or rng.chance(1, 3):
        if rng.chance(1, 3):
            return ("parse", rng.choice(rng.choice(TWINS)))
        return ("parse", rng.choice(A))
    k = rng.randrange(5)
    if k == 4:
        return ("reparse", gen_expr(rng, A, depth - 1))
    return ("and" if k % 2 == 0 else "or", gen_expr(rng, A, depth - 1), gen_expr(rng, A, depth - 1))


def run(tier="quick", seed=0, arg=None):
    rng = Rng(seed)
    envs = environments(full=False)
    A = atoms()
    fails, evals, distinct, timeouts, samples = [], 0, 0, 0, []
    nprobe = 120 if tier == "quick" else 800
    fresh_checked = 0
    for i in range(nprobe + 2 * len(MERGE_TWINS)):
        if i >= nprobe:
            j = i - nprobe
            first, second = MERGE_TWINS[j // 2] if j % 2 == 0 else tuple(reversed(MERGE_TWINS[j // 2]))
            probe, history = second, [first]
            try:
                clear()
                cold = observe(probe, envs)
                clear()
                build(history[0])
                warm = observe(probe, envs)
                evals += 1
                distinct += 1
                if warm[0] != cold[0]:
                    fails.append({"check": "C10.text", "input": {"probe": probe, "history": history}, "observed": warm[0], "expected": cold[0]})
                elif warm[1] != cold[1]:
                    fails.append({"check": "C10.meaning", "input": {"probe": probe, "history": history}, "observed": warm[0], "expected": cold[0]})
            except Exception as e:  # noqa: BLE001
                fails.append({"check": "C10.raises", "input": {"probe": probe, "history": history}, "observed": repr(e), "expected": "no exception"})
            continue
        # probes built around twins so that key-equal-but-differently-built operands occur
        tw = rng.choice(TWINS)
        shape = rng.randrange(4)
        other = rng.choice(A)
        if i % 4 == 3:
            # a merged atom (its view is whatever the merge installed) against its own text parsed afresh, each combined with a third atom
            merged, third, k = merged_twin(rng)
            probe = (k, ("reparse", merged), ("parse", third))
            history = [(k, merged, ("parse", third))] + [gen_expr(rng, A) for _ in range(rng.randrange(3))]
        else:
            probe = [("parse", tw[0]), ("and", ("parse", tw[0]), ("parse", tw[0])), ("and", ("parse", tw[0]), ("parse", other)),
                     ("or", ("parse", tw[0]), ("parse", other))][shape] if rng.chance(2, 3) else gen_expr(rng, A)
            history = [("parse", tw[1]), ("and", ("parse", tw[1]), ("parse", tw[0])), ("or", ("parse", tw[1]), ("parse", other)),
                       ("and", ("parse", tw[1]), ("parse", other))] + [gen_expr(rng, A) for _ in range(rng.randrange(6))]
        try:
            with time_limit(20):
                clear()
                cold = observe(probe, envs)
                for cut in sorted({0, len(history) // 2, len(history)}):
                    clear()
                    for h in history[:cut]:
                        build(h)
                    warm = observe(probe, envs)
                    evals += 1
                    if warm[0] != cold[0]:
                        fails.append({"check": "C10.text", "input": {"probe": probe, "history": history[:cut]}, "observed": warm[0], "expected": cold[0]})
                        break
                    if warm[1] != cold[1]:
                        fails.append({"check": "C10.meaning", "input": {"probe": probe, "history": history[:cut]}, "observed": warm[0], "expected": cold[0]})
                        break
                distinct += 1
        except CaseTimeout:
            timeouts += 1
            continue
        except Exception as e:  # noqa: BLE001
            fails.append({"check": "C10.raises", "input": {"probe": probe, "history": history}, "observed": repr(e), "expected": "no exception"})
            continue
        if len(samples) < 3 and i % 40 == 0:
            samples.append({"probe": probe, "history_len": len(history), "text": cold[0]})
        if fresh_checked < (3 if tier == "quick" else 25) and i % 7 == 0:
            fresh_checked += 1
            code = ("import sys, json; sys.path.insert(0, %r); sys.path.insert(0, %r)\n"
                    "from rtc.suites.memo import build\nprint(json.dumps(str(build(json.loads(%r, object_hook=None)))))" %
                    (os.path.dirname(os.path.dirname(os.path.dirname(os.path.abspath(__file__)))), os.path.join(os.environ.get("VERIF_REPO", "/repo"), "src"), json.dumps(probe)))
            out = subprocess.run([sys.executable, "-c", code], capture_output=True, text=True, timeout=60)
            evals += 1
            if out.returncode == 0:
                fresh = json.loads(out.stdout.strip().splitlines()[-1])
                if fresh != cold[0]:
                    fails.append({"check": "C10.fresh-process", "input": {"probe": probe}, "observed": cold[0], "expected": fresh})
    clear()
    return {"suite": "memo", "evaluations": evals, "distinct_nontrivial": distinct, "not_evaluated": timeouts,
            "rule": "probe operations (parse / & / | around pairs of key-equal-but-differently-built atoms: literal left/right, '3.10' vs '3.10.0', normalised extras, "
                    "re-rendered results) observed cold (all lru caches cleared) and after 3 prefixes of a generated history; text and evaluation vector on %d environments "
                    "compared; %d probes also run in a fresh interpreter" % (len(envs), fresh_checked),
            "samples": samples, "failures": fails[:3000], "n_failures": len(fails), "bound": f"{nprobe} probes x 3 history prefixes"}
