"""Bounded stand-in for C16: widening never loses wheels; compare() is consistent with tag inclusion."""
from __future__ import annotations

import itertools

from packaging.version import Version

from dep_logic.tags.tags import EnvCompatibility, EnvSpec

from .. import oracle_spec as O
from ..pools import Rng
from .tags_python import IMPLS, REQUIRES, universe

PLATFORMS = [None, "manylinux_2_17_x86_64", "manylinux_2_28_x86_64", "manylinux_2_5_x86_64", "manylinux_2_17_aarch64", "manylinux_2_35_aarch64",
             "musllinux_1_1_x86_64", "musllinux_1_2_x86_64", "musllinux_1_2_aarch64", "macos_10_9_x86_64", "macos_10_15_x86_64", "macos_11_0_x86_64",
             "macos_14_0_x86_64", "macos_11_0_arm64", "macos_14_0_arm64", "macos_12_3_arm64", "macos_14_2_arm64", "macos_13_1_x86_64", "macos_10_12_x86_64", "windows_amd64", "windows_x86", "windows_arm64", "linux", "macos", "alpine"]
PROBE = [Version(f"{x}.{y}.{z}") for x in (2, 3) for y in range(0, 22) for z in range(0, 10)] + [Version("4.0.0")]


def subset(a, b):
    return all((not O.den(a, v)) or O.den(b, v) for v in PROBE)


def run(tier="quick", seed=0, arg=None):
    rng = Rng(seed)
    fails, evals, distinct, samples = [], 0, 0, []

    def fail(check, inp, observed, expected):
        fails.append({"check": check, "input": inp, "observed": observed, "expected": expected})
    pairs = universe("quick")
    specs = {}
    for rp in REQUIRES:
        for pl in PLATFORMS:
            for impl, gil in IMPLS:
                if tier == "quick" and rng.randrange(4):
                    continue
                specs[(rp, pl, impl, gil)] = EnvSpec.from_spec(rp, pl, impl, gil_disabled=gil) if impl else EnvSpec.from_spec(rp, pl)
    keys = list(specs)
    # (i) widening requires_python (other fields equal)
    by_rest = {}
    for k in keys:
        by_rest.setdefault(k[1:], []).append(k)
    for rest, ks in by_rest.items():
        for ka, kb in itertools.permutations(ks, 2):
            A, Bs = specs[ka], specs[kb]
            if not subset(A.requires_python, Bs.requires_python):
                continue
            distinct += 1
            for t, a in pairs[:: (5 if tier == "quick" else 1)]:
                evals += 1
                if A._evaluate_python(t, a) is not None and Bs._evaluate_python(t, a) is None:
                    fail("C16.widen-python", {"A": ka[0], "B": kb[0], "implementation": ka[2], "gil_disabled": ka[3], "python_tag": t, "abi_tag": a}, "lost", "still compatible")
                    break
    # (ii) newer release of the same OS/arch: platform tags nested
    plats = {k[1]: specs[k].platform for k in keys if k[1]}
    for (na, pa), (nb, pb) in itertools.permutations(plats.items(), 2):
        if type(pa.os) is type(pb.os) and pa.arch == pb.arch and hasattr(pa.os, "major") and (pa.os.major, pa.os.minor) <= (pb.os.major, pb.os.minor):
            evals += 1
            distinct += 1
            if not set(pa.compatible_tags) <= set(pb.compatible_tags):
                fail("C16.widen-platform", {"A": na, "B": nb}, sorted(set(pa.compatible_tags) - set(pb.compatible_tags))[:5], "subset")
    # (iii) compare()
    sample = keys if tier != "quick" else [rng.choice(keys) for _ in range(160)]
    for k in sample:
        evals += 1
        if specs[k].compare(specs[k]) != EnvCompatibility.LOWER_OR_EQUAL:
            fail("C16.compare-reflexive", {"spec": list(map(str, k))}, str(specs[k].compare(specs[k])), "LOWER_OR_EQUAL")
    npairs = 4000 if tier == "quick" else 40000
    for _ in range(npairs):
        ka, kb = rng.choice(keys), rng.choice(keys)
        A, Bs = specs[ka], specs[kb]
        evals += 1
        ab, ba = A.compare(Bs), Bs.compare(A)
        inp = {"A": list(map(str, ka)), "B": list(map(str, kb))}
        if (ab == EnvCompatibility.INCOMPATIBLE) != (ba == EnvCompatibility.INCOMPATIBLE):
            fail("C16.compare-incompatible-symmetric", inp, [str(ab), str(ba)], "INCOMPATIBLE both ways or neither")
        if ab == EnvCompatibility.HIGHER and ba == EnvCompatibility.HIGHER:
            fail("C16.compare-higher-both", inp, [str(ab), str(ba)], "never HIGHER in both directions")
        if A.platform is not None and Bs.platform is not None and ab != EnvCompatibility.INCOMPATIBLE:
            ta, tb = set(A.platform.compatible_tags), set(Bs.platform.compatible_tags)
            if ab == EnvCompatibility.LOWER_OR_EQUAL and not ta <= tb:
                fail("C16.compare-nested", inp, "LOWER_OR_EQUAL but tags not nested", "A's tags subset of B's")
            if ab == EnvCompatibility.HIGHER and not tb <= ta:
                fail("C16.compare-nested", inp, "HIGHER but tags not nested", "B's tags subset of A's")
    return {"suite": "tags_compare", "evaluations": evals, "distinct_nontrivial": distinct,
            "rule": "EnvSpec grid: %d requires_python shapes x %d platforms x %d implementation settings (%d specs kept); all ordered pairs with nested requires_python "
                    "and equal other fields x the C08 tag universe; all platform pairs; compare() on sampled pairs" % (len(REQUIRES), len(PLATFORMS), len(IMPLS), len(keys)),
            "samples": samples or [{"A": list(map(str, keys[0])), "B": list(map(str, keys[1])), "compare": str(specs[keys[0]].compare(specs[keys[1]]))}],
            "failures": fails[:3000], "n_failures": len(fails), "bound": f"{len(keys)} specs, {npairs} compare pairs"}
