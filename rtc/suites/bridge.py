"""Bounded stand-in for C11: marker <-> specifier bridge on python_version / python_full_version atoms."""
from __future__ import annotations

from packaging.version import Version

from dep_logic.markers import parse_marker
from dep_logic.markers.single import MarkerExpression
from dep_logic.specifiers import parse_version_specifier

from .. import oracle_spec as O

OPS = ["==", "!=", "<", "<=", ">", ">=", "~="]


def interpreters(tier):
    ys = range(0, 21) if tier != "quick" else [0, 1, 5, 7, 8, 9, 10, 11, 12, 20]
    return [(x, y, z) for x in (2, 3, 4) for y in ys for z in range(0, 4)]


def run(tier="quick", seed=0, arg=None):
    fails, evals, distinct, samples = [], 0, 0, []
    interp = interpreters(tier)
    full = ["%d.%d.%d" % p for p in interp]
    short = sorted({"%d.%d" % p[:2] for p in interp}, key=lambda s: tuple(map(int, s.split("."))))

    def fail(check, inp, observed, expected):
        fails.append({"check": check, "input": inp, "observed": observed, "expected": expected})
    atoms = []
    for op in OPS:
        for v in ["3", "3.8", "3.10", "2.7", "3.0", "4.0"]:
            if op == "~=" and "." not in v:
                continue
            atoms.append(("python_version", f'python_version {op} "{v}"'))
        for v in ["3.8", "3.10", "3.8.2", "3.10.0", "3.0.1", "2.7.3"]:
            atoms.append(("python_full_version", f'python_full_version {op} "{v}"'))
    atoms += [("python_version", t) for t in ['python_version == "3.*"', 'python_version != "3.*"', 'python_version in "3.8, 3.10"', 'python_version not in "3.8, 3.10"',
                                              'python_version in "2.7"', 'python_version not in "3.9,3.10,3.11"', 'python_version in "3.8,3.9"']]
    atoms += [("python_full_version", t) for t in ['python_full_version == "3.8.*"', 'python_full_version != "3.10.*"', 'python_full_version == "3.*"']]
    # (a) the specifier view of an atom admits exactly the values on which it evaluates true
    for name, t in atoms:
        m = parse_marker(t)
        values = short if name == "python_version" else full
        distinct += 1
        try:
            s = m.specifier
        except Exception as e:  # noqa: BLE001
            fail("C11.specifier-raises", {"atom": t}, repr(e), "a specifier")
            continue
        for x in values:
            evals += 1
            env = {name: x}
            if name == "python_full_version":
                env["python_version"] = ".".join(x.split(".")[:2])
            else:
                env["python_full_version"] = x + ".0"
            try:
                ev = m.evaluate(env)
                inn = O.den(s, Version(x))
            except Exception as e:  # noqa: BLE001
                fail("C11.view-raises", {"atom": t, "value": x}, repr(e), "booleans")
                break
            if ev != inn:
                fail("C11.view", {"atom": t, "value": x, "env": env, "text": t}, {"evaluate": ev, "in_specifier": inn, "specifier": str(s)}, "agree")
                break
    # (b) from_specifier gives None or an atom with the same set
    simple = []
    for op in OPS:
        for v in ["3", "3.8", "3.10", "3.8.2", "3.10.0", "2.7", "3.0"]:
            if op == "~=" and "." not in v:
                continue
            simple.append(f"{op}{v}")
    for a, b2 in (("3.6.0", "3.7.0"), ("3.6", "3.7"), ("3.6", "3.7.0"), ("3.6.0", "3.7"), ("3.8", "3.10"), ("3", "4")):
        for hi in ("<", "<="):
            for lo in (">=", ">"):
                simple.append(f"{hi}{a}||{lo}{b2}")
        for lo in (">=", ">"):
            for hi in ("<", "<="):
                simple.append(f"{lo}{a},{hi}{b2}")
    simple += ["==3.*", "!=3.*", "==3.8.*", "!=3.10.*", "==2.*", ">=3.8,<4.0", ">=3.8,<3.9", "<3.8||>=3.9", "<3||>=4", ">=3.8.0,<3.9.0", "", "<empty>",
               ">=3.7,<3.8||>=3.9", "~=3.8.0", "~=3.10.2"]
    for name, values in (("python_version", short), ("python_full_version", full)):
        for st in simple:
            s = parse_version_specifier(st)
            evals += 1
            try:
                r = MarkerExpression.from_specifier(name, s)
            except Exception as e:  # noqa: BLE001
                fail("C11.from_specifier-raises", {"name": name, "specifier": st}, repr(e), "None or an atom")
                continue
            if r is None:
                continue
            distinct += 1
            for x in values:
                evals += 1
                env = {name: x}
                if name == "python_full_version":
                    env["python_version"] = ".".join(x.split(".")[:2])
                else:
                    env["python_full_version"] = x + ".0"
                try:
                    ev = r.evaluate(env)
                except Exception as e:  # noqa: BLE001
                    fail("C11.from_specifier-evaluate-raises", {"name": name, "specifier": st, "atom": str(r), "value": x}, repr(e), "a boolean")
                    break
                exp = O.den(s, Version(x)) if not s.is_any() and not s.is_empty() else s.is_any()
                if ev != exp:
                    fail("C11.from_specifier", {"name": name, "specifier": st, "atom": str(r), "value": x}, ev, exp)
                    break
            if len(samples) < 3 and distinct % 13 == 0:
                samples.append({"name": name, "specifier": st, "atom": str(r)})
    return {"suite": "bridge", "evaluations": evals, "distinct_nontrivial": distinct,
            "rule": "all comparison/compatible-release/wildcard/list atoms on python_version (values X, X.Y) and python_full_version (X.Y, X.Y.Z); all simple specifiers as "
                    "from_specifier input; every interpreter version X.Y.Z with X in 2..4, Y in %s, Z in 0..3; distinct = atoms / non-None conversions" % ("0..20" if tier != "quick" else "a 10-value sample"),
            "samples": samples, "failures": fails[:3000], "n_failures": len(fails), "bound": f"{len(interp)} interpreter versions"}
