"""Bounded stand-in for C18: wheel file names against packaging.utils.parse_wheel_filename; platform names."""
from __future__ import annotations

import itertools

from packaging.utils import InvalidWheelFilename as PkgInvalid
from packaging.utils import parse_wheel_filename

from dep_logic.tags.platform import Platform
from dep_logic.tags.tags import EnvSpec, InvalidWheelFilename, parse_wheel_tags

# the extension, the separators and tag-like words also occur *inside* the fields
NAMES = ["foo", "foo_bar", "Foo.Bar", "f00", "a_b_c", "x", "pdm.whl.tools", "whl", "a.whl", "none", "py3.none.any", "x.whl.whl"]
VERSIONS = ["1.0", "1.0.post1", "2!1.0", "1.0a1", "0.1.dev3", "1_0"]
BUILDS = [None, "1", "2abc", "10_x"]
PYTAGS = ["py3", "py2.py3", "cp38", "cp38.cp39.cp310", "pp310", "py3.whl"]
ABITAGS = ["none", "abi3", "cp38", "cp38m.cp38", "pypy310_pp73"]
PLATTAGS = ["any", "any.whl", "manylinux_2_17_x86_64", "manylinux_2_17_x86_64.manylinux2014_x86_64", "win_amd64", "macosx_10_9_x86_64.macosx_11_0_arm64", "linux_x86_64"]


def replay(fn):
    """one file name (a solver counter-model) against the statement: accepted iff '.whl' + 5 or 6 dash fields, tags = last three fields"""
    fails = []
    fields = fn.split("-")
    ok = fn.endswith(".whl") and len(fields) in (5, 6)
    try:
        got = parse_wheel_tags(fn)
    except InvalidWheelFilename:
        got = "InvalidWheelFilename"
    except Exception as e:  # noqa: BLE001
        got = repr(e)
    if ok:
        stem = fn[:-4].lower().split("-")
        exp = [stem[-3].split("."), stem[-2].split("."), stem[-1].split(".")]
        if got == "InvalidWheelFilename" or isinstance(got, str) or [list(x) for x in got] != exp:
            fails.append({"check": "C18.wheel-tags", "input": {"filename": fn}, "observed": got if isinstance(got, str) else [list(x) for x in got], "expected": exp})
    elif got != "InvalidWheelFilename":
        fails.append({"check": "C18.wheel-accepts-invalid" if not isinstance(got, str) else "C18.wheel-wrong-exception", "input": {"filename": fn},
                      "observed": got if isinstance(got, str) else [list(x) for x in got], "expected": "InvalidWheelFilename"})
    return {"suite": "wheel_names", "evaluations": 1, "distinct_nontrivial": 1, "rule": "replay of one file name", "samples": [], "failures": fails, "n_failures": len(fails), "bound": "1 name"}


def run(tier="quick", seed=0, arg=None):
    if arg and "filename" in arg:
        return replay(arg["filename"])
    fails, evals, distinct, samples = [], 0, 0, []

    def fail(check, inp, observed, expected):
        fails.append({"check": check, "input": inp, "observed": observed, "expected": expected})
    spec = EnvSpec.from_spec(">=3.8", "linux")
    combos = list(itertools.product(NAMES, VERSIONS, BUILDS, PYTAGS, ABITAGS, PLATTAGS))
    step = 11 if tier == "quick" else 1
    for n, v, b, py, abi, plat in combos[::step]:
        parts = [n, v] + ([b] if b else []) + [py, abi, plat]
        fn = "-".join(parts) + ".whl"
        evals += 1
        try:
            ref = parse_wheel_filename(fn)
        except PkgInvalid:
            continue      # only names packaging accepts are in the claim
        except Exception:  # noqa: BLE001
            continue
        distinct += 1
        rp, ra, rl = {t.interpreter for t in ref[3]}, {t.abi for t in ref[3]}, {t.platform for t in ref[3]}
        try:
            gp, ga, gl = parse_wheel_tags(fn)
        except Exception as e:  # noqa: BLE001
            fail("C18.wheel-raises", {"filename": fn}, repr(e), "parsed")
            continue
        if (set(gp), set(ga), set(gl)) != (rp, ra, rl):
            fail("C18.wheel-tags", {"filename": fn}, [gp, ga, gl], [sorted(rp), sorted(ra), sorted(rl)])
        try:
            spec.wheel_compatibility(fn)
        except Exception as e:  # noqa: BLE001
            fail("C18.wheel_compatibility-raises", {"filename": fn}, repr(e), "a score or None")
        if len(samples) < 3 and distinct % 211 == 1:
            samples.append({"filename": fn, "tags": [gp, ga, gl]})
    bad = ["foo-1.0-py3-none-any.zip", "foo-1.0-py3-none-any", "foo-1.0-py3-none-any.whl.txt", "foo-1.0-py3-none.whl", "foo-1.0.whl", "foo.whl", ".whl",
           "foo-1.0-1-2-py3-none-any.whl", "a-b-c-d-e-f-g-h.whl", "foo-1.0-py3-none-any.WHL", "foo-1.0-py3-none-any.tar.gz"]
    for fn in bad:
        evals += 1
        try:
            r = parse_wheel_tags(fn)
            fail("C18.wheel-accepts-invalid", {"filename": fn}, r, "InvalidWheelFilename")
        except InvalidWheelFilename:
            pass
        except Exception as e:  # noqa: BLE001
            fail("C18.wheel-wrong-exception", {"filename": fn}, repr(e), "InvalidWheelFilename")
    # upper-case tags (packaging lower-cases them)
    for fn in ["foo-1.0-PY3-none-any.whl", "foo-1.0-py3-NONE-any.whl", "foo-1.0-cp38-cp38-Manylinux_2_17_x86_64.whl", "Foo-1.0-Py2.PY3-None-ANY.whl"]:
        evals += 1
        try:
            ref = parse_wheel_filename(fn)
        except Exception:  # noqa: BLE001
            continue
        distinct += 1
        rp, ra, rl = {t.interpreter for t in ref[3]}, {t.abi for t in ref[3]}, {t.platform for t in ref[3]}
        gp, ga, gl = parse_wheel_tags(fn)
        if (set(gp), set(ga), set(gl)) != (rp, ra, rl):
            fail("C18.wheel-tags", {"filename": fn}, [gp, ga, gl], [sorted(rp), sorted(ra), sorted(rl)])
    # platform names
    xs = list(range(0, 31)) + [100]
    targets = {"linux": "manylinux_2_17_x86_64", "windows": "windows_amd64", "macos": "macos_14_0_arm64", "alpine": "musllinux_1_2_x86_64",
               "macos_arm64": "macos_14_0_arm64", "macos_x86_64": "macos_14_0_x86_64"}
    for choice in Platform.choices():
        names = [choice]
        if "X_Y" in choice:
            pts = [(x, y) for x in xs for y in xs] if tier != "quick" else [(x, y) for x in xs[::3] for y in xs[::4]]
            pts += [(100, 0), (2, 100), (100, 100), (1234, 5), (7, 12345)]        # "any X_Y": more than two digits in either part
            names = [choice.replace("X_Y", f"{x}_{y}") for x, y in pts]
        for nm in names:
            evals += 1
            try:
                p = Platform.parse(nm)
            except Exception as e:  # noqa: BLE001
                fail("C18.platform-parse", {"name": nm}, repr(e), "parses")
                continue
            distinct += 1
            if nm in targets and str(p) != targets[nm] and Platform.parse(targets[nm]) != p:
                fail("C18.platform-alias", {"name": nm}, str(p), targets[nm])
            try:
                back = Platform.parse(str(p))
            except Exception as e:  # noqa: BLE001
                fail("C18.platform-roundtrip", {"name": nm, "str": str(p)}, repr(e), "parse(str(p)) == p")
                continue
            if back != p:
                fail("C18.platform-roundtrip", {"name": nm, "str": str(p)}, str(back), "parse(str(p)) == p")
    return {"suite": "wheel_names", "evaluations": evals, "distinct_nontrivial": distinct,
            "rule": "PEP 427 grammar: %d names x %d versions x optional build tags x 1-3 dotted tags per field (every %d-th of %d combinations), wrong extension / part count, "
                    "upper-case tags; Platform.choices() with X,Y substituted from 0..30 and 100; distinct = names packaging accepts / platform strings parsed" % (len(NAMES), len(VERSIONS), step, len(combos)),
            "samples": samples, "failures": fails[:3000], "n_failures": len(fails), "bound": f"{len(combos) // step} file names"}
