"""Concrete reading of the specifier theory (T-RNG / T-SPEC) on the real objects: `den`, `wf` as in C01/C05."""
from __future__ import annotations

from dep_logic.specifiers import (AnySpecifier, EmptySpecifier, RangeSpecifier, UnionSpecifier)
from dep_logic.specifiers.base import BaseSpecifier


def in_range(r, v):
    lo = r.min is None or r.min < v or (r.min == v and r.include_min)
    hi = r.max is None or v < r.max or (v == r.max and r.include_max)
    return lo and hi


def den(s, v):
    if type(s) is EmptySpecifier:
        return False
    if type(s) is AnySpecifier:
        return True
    if type(s) is RangeSpecifier:
        return in_range(s, v)
    if type(s) is UnionSpecifier:
        return any(in_range(r, v) for r in s.ranges)
    raise TypeError(f"not an interval specifier: {s!r}")


def valid(r):
    if r.min is None and r.include_min or r.max is None and r.include_max:
        return False
    if r.min is not None and r.max is not None:
        return r.min < r.max or (r.min == r.max and r.include_min and r.include_max)
    return True


def sep(a, b):
    return a.max is not None and b.min is not None and (a.max < b.min or (a.max == b.min and not a.include_max and not b.include_min))


def wf(s):
    if type(s) in (EmptySpecifier, AnySpecifier):
        return True
    if type(s) is RangeSpecifier:
        return valid(s)
    if type(s) is UnionSpecifier:
        rs = s.ranges
        return isinstance(rs, tuple) and len(rs) >= 2 and all(type(r) is RangeSpecifier and valid(r) for r in rs) and \
            all(sep(a, b) for i, a in enumerate(rs) for b in rs[i + 1:])
    return False


def describe(s):
    if type(s) is RangeSpecifier:
        return {"cls": "RangeSpecifier", "min": None if s.min is None else str(s.min), "max": None if s.max is None else str(s.max),
                "include_min": s.include_min, "include_max": s.include_max}
    if type(s) is UnionSpecifier:
        return {"cls": "UnionSpecifier", "ranges": [describe(r) for r in s.ranges]}
    if isinstance(s, BaseSpecifier):
        return {"cls": type(s).__name__, "str": str(s)}
    return {"py": repr(s)}


def build(d, V=None):
    """real object from a description (versions as strings)"""
    from packaging.version import Version
    c = d["cls"]
    if c == "EmptySpecifier":
        return EmptySpecifier()
    if c == "AnySpecifier":
        return AnySpecifier()
    if c == "RangeSpecifier":
        return RangeSpecifier(min=None if d["min"] is None else Version(d["min"]), max=None if d["max"] is None else Version(d["max"]),
                              include_min=d["include_min"], include_max=d["include_max"])
    if c == "UnionSpecifier":
        return UnionSpecifier(tuple(build(r) for r in d["ranges"]))
    raise ValueError(c)
