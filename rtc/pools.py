"""Deterministic input pools for the bounded stand-in (runs under /venv/bin/python against the real code)."""
from __future__ import annotations

from packaging.version import Version

# ascending pool of public PEP 440 versions with every suffix shape, trailing zeros and an epoch
_VERSION_TEXTS = [
    "0", "0.dev0", "0.0.1.dev1", "0.0.1", "0.5", "0.9.post2", "1.0.dev0", "1.0a1", "1.0a2.dev3", "1.0b1", "1.0rc1", "1.0", "1.0.post0.dev0",
    "1.0.post1", "1.0.post1.dev0", "1.0.0.1", "1.0.1", "1.1.dev3", "1.1", "1.2", "1.2.3", "1.2.3.post4", "1.9", "1.10", "2.0a1", "2.0", "2.0.post0", "2.0.post1",
    "2.0.1", "2.1", "2.3.1", "2.4.0.post1", "2.5", "3.0rc0", "3.0", "3.0.post0", "3.0.1", "3.5", "3.7", "3.8", "3.8.5", "3.9", "3.10", "3.10.4", "3.11",
    "3.12", "4.0", "10.0", "1!0.5", "1!1.0", "1!2.0.post1", "2!0.1",
]
VERSIONS = sorted({Version(t) for t in _VERSION_TEXTS})
assert all(a < b for a, b in zip(VERSIONS, VERSIONS[1:]))

# alternative spellings equal to pool members (trailing zeros, normalisation)
EQUAL_SPELLINGS = {"1.0": ["1", "1.0.0", "1.0.0.0"], "2.0": ["2", "2.0.0"], "1.0rc1": ["1.0.0rc1", "1.0c1", "1.0.RC1", "1.0-rc.1"],
                   "1.0.post1": ["1.0-1", "1.0.post.1", "1.0.r1"], "1.0a1": ["1.0alpha1", "1.0.a1"], "3.10": ["3.10.0"]}

FINAL_RELEASES = [Version(t) for t in ["0", "0.5", "0.9", "1", "1.0", "1.0.0", "1.0.1", "1.1", "1.2", "1.2.3", "1.9", "1.10", "1.10.1", "2", "2.0",
                                       "2.0.1", "2.1", "2.3.1", "2.4", "2.5", "3", "3.0", "3.1", "3.5", "3.9", "3.10", "3.10.4", "3.11", "4", "9",
                                       "10", "10.1", "11.0.3"]]


class Rng:
    """small deterministic PRNG (independent of PYTHONHASHSEED and of the stdlib version)"""

    def __init__(self, seed):
        self.s = (seed * 2654435761 + 12345) & 0xFFFFFFFF or 1

    def next(self):
        x = self.s
        x ^= (x << 13) & 0xFFFFFFFF
        x ^= x >> 17
        x ^= (x << 5) & 0xFFFFFFFF
        self.s = x
        return x

    def randrange(self, n):
        return self.next() % n

    def choice(self, seq):
        return seq[self.next() % len(seq)]

    def chance(self, num, den):
        return self.next() % den < num
