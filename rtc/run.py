"""Driver of the bounded stand-in; executed by /venv/bin/python (the interpreter the repository runs under).
usage: run.py --suite NAME [--tier quick|thorough] [--seed N] [--arg JSON]"""
from __future__ import annotations

import argparse
import importlib
import json
import os
import sys
import time
import traceback

HERE = os.path.dirname(os.path.abspath(__file__))
sys.path.insert(0, os.path.dirname(HERE))
REPO = os.environ.get("VERIF_REPO", "/repo")
sys.path.insert(0, os.path.join(REPO, "src"))


def main():
    ap = argparse.ArgumentParser()
    ap.add_argument("--suite", required=True)
    ap.add_argument("--tier", default="quick")
    ap.add_argument("--seed", type=int, default=0)
    ap.add_argument("--arg", default=None)
    a = ap.parse_args()
    t0 = time.time()
    try:
        import dep_logic
        assert os.path.realpath(dep_logic.__file__).startswith(os.path.realpath(REPO)), dep_logic.__file__
        mod = importlib.import_module(f"rtc.suites.{a.suite}")
        kw = {"tier": a.tier, "seed": a.seed}
        if a.arg is not None:
            kw["arg"] = json.loads(a.arg)
        res = mod.run(**kw)
        res["wall_s"] = round(time.time() - t0, 2)
        res["status"] = "ok"
    except Exception:  # noqa: BLE001
        res = {"status": "crash", "suite": a.suite, "traceback": traceback.format_exc()}
    sys.stdout.write("\n@@RTC-RESULT@@" + json.dumps(res, default=str) + "\n")


if __name__ == "__main__":
    main()
