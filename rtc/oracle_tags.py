"""Independent reading of the PEP 425/600/656/macOS rules quoted in C08/C09 (not a transcript of the code)."""
from __future__ import annotations

ARCH_FLOOR = {"x86_64": 5, "i686": 5, "x86": 5, "aarch64": 17, "armv7l": 17, "ppc64le": 17, "ppc64": 17, "s390x": 17, "riscv64": 17}
ALIASES = {17: "manylinux2014", 12: "manylinux2010", 5: "manylinux1"}


def manylinux_tags(arch, minor, major=2):
    out = []
    floor = ARCH_FLOOR[arch]
    for k in range(minor, floor - 1, -1):
        out.append(f"manylinux_{major}_{k}_{arch}")
        if k in ALIASES:
            out.append(f"{ALIASES[k]}_{arch}")
    out.append(f"linux_{arch}")
    return out


def musllinux_tags(arch, minor, major=1):
    return {f"linux_{arch}"} | {f"musllinux_{major}_{k}_{arch}" for k in range(1, minor + 1)}


def mac_formats(arch):
    return ["x86_64", "intel", "fat64", "fat32", "universal2", "universal"] if arch == "x86_64" else ["arm64", "universal2"]


def mac_tags(arch, major, minor):
    out = []
    if major == 10:
        assert arch == "x86_64"
        for m in range(minor, 3, -1):
            out += [f"macosx_10_{m}_{f}" for f in mac_formats(arch)]
        return out
    for M in range(major, 10, -1):
        out += [f"macosx_{M}_0_{f}" for f in mac_formats(arch)]
    for m in range(16, 3, -1):
        fmts = mac_formats(arch) if arch == "x86_64" else ["universal2"]
        out += [f"macosx_10_{m}_{f}" for f in fmts]
    return out


def not_fat(tags):
    return [t for t in tags if not t.rsplit("_", 1)[-1].startswith("fat")]


# ---------------------------------------------------------------- C08
def loads(py_tag, abi_tag, p, impl, gil):
    """can interpreter version p=(X,Y,Z) of implementation `impl` (None = unspecified) load a wheel tagged (py_tag, abi_tag)?"""
    kind, ver = py_tag[:2], py_tag[2:]
    if impl is not None:
        short = {"cpython": "cp", "pypy": "pp", "pyston": "pt"}[impl]
        if kind not in (short, "py"):
            return False
    if not ver or not ver.isdigit():
        return False
    X = int(ver[0])
    Y = int(ver[1:]) if len(ver) > 1 else None
    abi = abi_tag
    if abi == "abi3":
        if kind != "cp":
            return False
        if impl is not None and gil:
            return False
        return (p[0], p[1]) >= (X, Y or 0)
    if abi != "none":
        a = abi.split("_", 1)[0].replace("pypy", "pp").replace("pyston", "pt")
        if not a.startswith(py_tag):
            return False
        if impl is not None and (a.endswith("t") != bool(gil)):
            return False
    if kind == "py":
        if Y is None:
            return p[0] == X
        return p[0] == X and p[1] >= Y
    if Y is None:
        return p[0] == X
    return (p[0], p[1]) == (X, Y)


def score3(py_tag, abi_tag):
    ver = py_tag[2:]
    X = int(ver[0])
    Y = int(ver[1:]) if len(ver) > 1 else 0
    return (X, Y, 1 if abi_tag == "abi3" else 0 if abi_tag == "none" else 2)
