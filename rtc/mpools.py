"""Well-defined PEP 508 atoms and the environment grid for the marker suites (bounded stand-in)."""
from __future__ import annotations

import itertools
import signal

STRING_VARS = {
    "os_name": ["posix", "nt", "pos", "posix nt", "", "java"],
    "sys_platform": ["linux", "linux2", "win32", "darwin", "win", "linux darwin", "beos", "aix"],
    "platform_machine": ["x86_64", "arm64", "x86", "x86_64 arm64"],
    "implementation_name": ["cpython", "pypy", "py"],
    # a string variable whose values look like versions (Windows: platform_version is "10.0.19045"): compared as strings, not as versions
    "platform_version": ["10.0", "10.0.0", "10.0.19045", "#1 SMP"],
}
STRING_OPS = ["==", "!=", "in", "not in"]
ENV_STRINGS = {
    "os_name": ["posix", "nt", "pos", "java", ""],
    "sys_platform": ["linux", "linux2", "win32", "darwin", "win", "beos"],
    "platform_machine": ["x86_64", "arm64", "x86"],
    "implementation_name": ["cpython", "pypy"],
    "platform_version": ["10.0.0", "10.0", "#1 SMP"],
}
PY_VERSIONS = ["2.7.18", "3.0.0", "3.1.4", "3.4.0", "3.5.2", "3.6.0", "3.7.9", "3.8.0", "3.8.1", "3.8.5", "3.9.0", "3.9.18", "3.10.0", "3.10.4", "3.11.1",
               "3.12.0", "4.0.0"]
CMP_OPS = ["==", "!=", "<", "<=", ">", ">=", "~="]
PYV_VALUES = ["3", "3.8", "3.10", "2.7", "3.9", "3.8.1"]      # "3.8.1": a literal longer than the variable's own X.Y (`python_version >= "3.8.1"` is `>= 3.9`)
PYFV_VALUES = ["3.8", "3.8.5", "3.10.0", "3.9.0", "2.7.18", "3.10"]
RELEASES = ["5.10.0", "6.1", "21.6.0"]
EXTRA_VALUES = ["a", "b", "A_b", "a.b"]
EXTRA_ENVS = ["", "a", "b", "a-b", {"a", "b"}, {"A.B"}, set()]


def atoms(reversed_too=True):
    out = []
    for var, lits in STRING_VARS.items():
        for op in STRING_OPS:
            for lit in lits:
                out.append(f'{var} {op} "{lit}"')
                if reversed_too:
                    out.append(f'"{lit}" {op} {var}')
    for op in CMP_OPS:
        for v in PYV_VALUES:
            if op == "~=" and "." not in v:
                continue
            out.append(f'python_version {op} "{v}"')
            if reversed_too and op != "~=":
                out.append(f'"{v}" {op} python_version')
        for v in PYFV_VALUES:
            if op == "~=" and "." not in v:
                continue
            out.append(f'python_full_version {op} "{v}"')
            if reversed_too and op != "~=" and v.count(".") == 2:
                out.append(f'"{v}" {op} python_full_version')
    # three-segment python_version values with a zero patch level (the library re-renders X.Y.* sets that way)
    for op in CMP_OPS:
        out.append(f'python_version {op} "3.8.0"')
    out += ['python_version == "3.*"', 'python_version != "3.*"', 'python_full_version == "3.8.*"', 'python_full_version != "3.10.*"',
            'python_full_version == "3.*"', 'python_version in "3.8, 3.10"', 'python_version not in "3.8, 3.10"', 'python_version in "2.7"',
            'python_version not in "3.9"', 'platform_release >= "5.0"', 'platform_release < "6.1"', 'platform_release == "21.6.0"']
    # major-only boundaries: their unions / intersections are the X.* wildcard sets (`< 3.0 or >= 4.0` is `!= 3.*`)
    out += ['python_full_version < "3.0"', 'python_full_version >= "4.0"', 'python_full_version >= "3.0"', 'python_full_version < "4.0"',
            'python_version < "3"', 'python_version >= "4"', 'python_full_version != "3.*"']
    for op in ("==", "!="):
        for v in EXTRA_VALUES:
            out.append(f'extra {op} "{v}"')
    # PEP 508 literals in single quotes that hold a double quote (there are no escapes: such a literal can only be written that way)
    out += ["os_name == 'a\"b'", "os_name != 'a\"b'", "'a\"b' in sys_platform", "sys_platform not in 'x\"linux'", "'\"' == platform_machine"]
    return out


def group_texts():
    """same-variable ==-groups / !=-groups of 2-3 values with every overlap pattern (0, 1, 2 common values), and their mixes"""
    out = []
    vals = ["linux", "win32", "darwin", "beos", "aix"]
    groups = [vals[0:2], vals[1:3], vals[2:4], vals[0:3], vals[1:4], vals[3:5], [vals[0], vals[2]], [vals[0], vals[4]]]
    for g in groups:
        out.append(" and ".join(f'sys_platform != "{v}"' for v in g))
        out.append(" or ".join(f'sys_platform == "{v}"' for v in g))
    for g in (["posix", "nt"], ["nt", "java"], ["posix", "java"]):
        out.append(" and ".join(f'os_name != "{v}"' for v in g))
        out.append(" or ".join(f'os_name == "{v}"' for v in g))
    return out


def environments(full=False):
    envs = []
    strings = list(itertools.product(*[ENV_STRINGS[k] for k in ("os_name", "sys_platform")]))
    for i, pv in enumerate(PY_VERSIONS):
        for j, (osn, sp) in enumerate(strings):
            if not full and (i * 7 + j) % 5:
                continue
            e = {"python_full_version": pv, "python_version": ".".join(pv.split(".")[:2]), "os_name": osn, "sys_platform": sp,
                 "platform_machine": ENV_STRINGS["platform_machine"][(i + j) % 3], "implementation_name": ENV_STRINGS["implementation_name"][(i + j) % 2],
                 "platform_release": RELEASES[(i + j) % 3], "extra": EXTRA_ENVS[(i + 2 * j) % len(EXTRA_ENVS)],
                 "platform_version": ENV_STRINGS["platform_version"][(i + 2 * j) % 3]}
            envs.append(e)
    # the values the witness shapes of the suites are written with (os_name a/c, sys_platform x, platform_machine b, extra e), so that those shapes are
    # told apart by meaning too
    for k, (osn, sp, pm) in enumerate(itertools.product(("a", "c"), ("x", "linux"), ("b", "x86_64"))):
        envs.append({"python_full_version": "3.8.5" if k % 2 else "3.6.0", "python_version": "3.8" if k % 2 else "3.6", "os_name": osn, "sys_platform": sp, "platform_machine": pm,
                     "implementation_name": "cpython", "platform_release": RELEASES[k % 3], "extra": "e" if k % 3 == 0 else "", "platform_version": "10.0"})
    return envs


class CaseTimeout(Exception):
    pass


class time_limit:
    """per-case wall-clock limit; a timed-out case is 'not evaluated' (run time is not among the properties)"""

    def __init__(self, seconds):
        self.seconds = seconds

    def _h(self, *_):
        raise CaseTimeout()

    def __enter__(self):
        self.old = signal.signal(signal.SIGALRM, self._h)
        signal.setitimer(signal.ITIMER_REAL, self.seconds)

    def __exit__(self, *exc):
        signal.setitimer(signal.ITIMER_REAL, 0)
        signal.signal(signal.SIGALRM, self.old)
        return False
