"""Concrete reading of the marker theory on the real objects: evaluation vectors, variables, normal form."""
from __future__ import annotations

from dep_logic.markers import AnyMarker, EmptyMarker, MarkerUnion, MultiMarker
from dep_logic.markers.single import EqualityMarkerUnion, InequalityMultiMarker, SingleMarker


def ev_vector(m, envs):
    return tuple(bool(m.evaluate(e)) for e in envs)


def variables(m):
    if isinstance(m, SingleMarker):
        return {m.name}
    if isinstance(m, (MultiMarker, MarkerUnion)):
        out = set()
        for c in m.markers:
            out |= variables(c)
        return out
    return set()


def nf(m):
    """normal form of C15; returns None if fine, else a reason"""
    if isinstance(m, (EqualityMarkerUnion, InequalityMultiMarker)):
        # an atom group is a group: one value is the plain atom, none is the empty / universal marker
        return None if len(m.values) >= 2 else f"{type(m).__name__} with {len(m.values)} value(s)"
    if isinstance(m, (AnyMarker, EmptyMarker, SingleMarker)):
        return None
    if isinstance(m, (MultiMarker, MarkerUnion)):
        kids = m.markers
        if len(kids) < 2:
            return f"{type(m).__name__} with {len(kids)} child(ren)"
        for i, c in enumerate(kids):
            if isinstance(c, (AnyMarker, EmptyMarker)):
                return f"{type(c).__name__} inside {type(m).__name__}"
            if type(c) is type(m):
                return f"nested {type(m).__name__}"
            if any(c == d for d in kids[:i]):
                return "duplicate children"
            r = nf(c)
            if r:
                return r
        return None
    return f"unexpected class {type(m).__name__}"
