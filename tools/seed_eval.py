#!/usr/bin/env python3
"""Confirms a seeded change delivered in a scratch worktree, stores it under /verif/seeded/<name>/ and runs the checks
against it:  seed_eval.py <worktree> <property> <name> [other properties to run...]"""
import json, os, subprocess, sys, shutil

wt, pid, name = sys.argv[1:4]
others = sys.argv[4:]
env = dict(os.environ, PYTHONPATH=f"{wt}/src")
def sh(cmd, cwd=wt, env=env, timeout=1800):
    p = subprocess.run(cmd, shell=True, cwd=cwd, env=env, capture_output=True, text=True, timeout=timeout)
    return p.returncode, (p.stdout + p.stderr)
rc, patch = sh("git diff -- src")
assert patch.strip(), "no change in worktree"
rc, out = sh("/venv/bin/python -m pytest -q -p no:cacheprovider 2>&1 | tail -3")
suite = out.strip().splitlines()[-1]
rc_with, out_with = sh("/venv/bin/python demo.py")
open("/tmp/seed_patch.diff", "w").write(patch)
sh("git checkout -- src")
rc_without, out_without = sh("/venv/bin/python demo.py")
sh("git apply /tmp/seed_patch.diff")
confirmed = ("2 failed, 2477 passed" in suite) and rc_with != 0 and rc_without == 0
print("suite:", suite, "| demo with change rc=", rc_with, "| without rc=", rc_without, "| confirmed:", confirmed)
d = f"/verif/seeded/{name}"
os.makedirs(d, exist_ok=True)
open(f"{d}/patch.diff", "w").write(patch)
shutil.copy(f"{wt}/demo.py", f"{d}/demo.py")
if os.path.exists(f"{wt}/NOTES.md"):
    shutil.copy(f"{wt}/NOTES.md", f"{d}/NOTES.md")
# run the checks against it
results = {}
# the checks read the tree named by VERIF_REPO: the scratch worktree with the change applied (same as `git -C /repo apply` + run + checkout,
# without touching /repo while other runs read it)
try:
    for p in [pid] + others:
        rc, out = sh(f"python3-vt check.py --property {p}", cwd="/verif", env=dict(os.environ, VERIF_EVIDENCE_DIR="/tmp/seed_evidence", VERIF_REPO=wt))
        lines = [l for l in out.splitlines() if l.startswith(("VIOLATION", "OK", "UNDECIDED", "CHECKER", "KNOWN"))]
        results[p] = {"exit": rc, "lines": [l[:300] for l in lines[:8]]}
        print(p, "exit", rc, *[l[:200] for l in lines[:4]], sep="\n   ")
finally:
    pass
meta = {"property": pid, "name": name, "confirmed": confirmed, "suite_with_change": suite, "demo_exit_with_change": rc_with, "demo_exit_without_change": rc_without,
        "demo_output_with_change": out_with[-600:], "ran": ["pytest (unedited suite) in the scratch worktree", "demo.py with and without the change",
        "VERIF_REPO=<scratch worktree with the change> python3-vt check.py --property ..."], "check_results": results}
json.dump(meta, open(f"{d}/meta.json", "w"), indent=1)
