#!/bin/sh
# runs the repository's unedited suite and compares with the pinned baseline (2477 pass, the two always-failing tests)
cd /repo && out=$(/venv/bin/python -m pytest -q -p no:cacheprovider --timeout=900 2>&1 | tail -4)
echo "$out" | tail -1
echo "$out" | grep -q "2 failed, 2477 passed" || { echo "BASELINE MISMATCH"; echo "$out"; exit 1; }
echo "$out" | grep -q "test_evaluate_extra\[platform_release >= '6'" || exit 1
echo "$out" | grep -q "test_arbitrary_unsupported\[===abc->=1-and\]" || exit 1
echo BASELINE-OK
