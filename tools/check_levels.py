"""consistency: evidence level == MANIFEST category for every check"""
import json
m = json.load(open("/verif/MANIFEST.json"))
bad = 0
for c in m["checks"]:
    try:
        e = json.load(open("/verif/" + c["evidence_file"]))
    except FileNotFoundError:
        print("missing", c["property_id"]); bad += 1; continue
    if e["level"] != c["level_claimed"]["category"]:
        print("MISMATCH", c["property_id"], e["level"], c["level_claimed"]["category"]); bad += 1
print("levels ok" if not bad else f"{bad} problems")
