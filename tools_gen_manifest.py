"""Regenerates MANIFEST.json from the table below (kept in one place so that it always validates)."""
import json
CLAIMED = {
 "C01": ("proof", "Every path-VC of the den (set meaning) clauses of RangeSpecifier/UnionSpecifier/Empty/Any operators and of the 4x4 class-table laws is generated from /repo's current source and discharged by z3 for all bounds, all list lengths (loop invariants) and all versions; a bounded run-time sweep of the same contracts on the real objects runs beside it and is reported separately.",
         "5 C01", "Version order idealised as an abstract strict total order (reals); pyvc engine, z3, CPython ast trusted; termination not proved; parse entry points (_from_pkg_specifier text arithmetic) are covered by C04/C06/C17, here only their canonical-shape post-condition is used",
         "contract-based deductive verification: AST->VC symbolic executor (pyvc) + z3, loop invariants, modular callee contracts"),
 "C05": ("proof", "The canonical-shape clauses (valid ranges, pairwise separated, >=2 ranges, exact class of the result, empty-iff-disjoint) of every operator and law are discharged as named obligations for all inputs; exactness of ==/is_empty()/is_any() follows from canonical uniqueness, relative to the dense idealisation of the version order.",
         "5 C05", "as C01, plus density/unboundedness of the version order (property reads membership structurally); canonical-uniqueness lemma", 
         "contract-based deductive verification: canonical-shape post-conditions and loop invariants discharged by z3"),

}
BOUNDED_TEXT = "Bounded stand-in only (labelled bounded, never counted as proved): the property's contract, transcribed from its statement, is evaluated at run time on the real functions over an enumerated input space whose bound is stated in the evidence; proof obligations for this property are not built yet."
BOUNDED = {
 "C02": "markers from the well-defined atom pool, pairs through & and |, evaluated on an environment grid",
 "C03": "marker texts over the atom pool evaluated by dep-logic and by the installed packaging on an environment grid",
 "C04": "leaf grammar and expression trees of depth <= 3 against packaging.SpecifierSet.contains on final releases",
 "C06": "str()/parse round trip over parsed leaves, expression trees and pairwise operator results",
 "C07": "str() of every result re-parsed by parse_marker and packaging and re-evaluated on the environment grid",
 "C08": "the property's finite tag universe (majors 2-3, minors 0-20) x requires_python catalogue x implementation settings; exhaustive in the thorough tier",
 "C09": "the whole C09 platform grid against an independent rule oracle (exhaustive); oracle cross-checked against packaging.tags in the thorough tier",
 "C10": "cold-vs-warm differential of probe operations after generated histories",
 "C11": "all listed atom shapes and simple specifiers x interpreter versions X.Y.Z",
 "C12": "only()/exclude()/without_extras() on pool markers for subsets of their variables",
 "C13": "all ordered pairs over pools of specifier and marker objects (equal-but-differently-built included), triples on a sub-sample",
 "C14": "law sweep over triples of reachable specifiers (object equality) and markers (equivalence on the grid)",
 "C15": "normal-form predicate on every parse/&/|/only/exclude result of the marker sweep",
 "C16": "EnvSpec grid: nested requires_python pairs x tag universe, platform pairs, compare() on sampled pairs",
 "C17": "version-text grammar and near-miss strings against packaging.SpecifierSet acceptance",
 "C18": "PEP 427 file-name grammar against packaging.utils.parse_wheel_filename; Platform.choices() with X,Y substituted",
 "C19": "all ordered (operator, literal) pairs over a literal pool closed under the case table's relations x candidate strings (exhaustive on the pool)",
}
for pid, what in BOUNDED.items():
    CLAIMED[pid] = ("exploration", BOUNDED_TEXT + " Space: " + what + ".", "3 and 5 " + pid,
                    "the oracle in rtc/ is a transcription of the property statement; packaging (installed release) trusted where it is the reference; recorded findings in known_findings.json",
                    "bounded stand-in: run-time contracts on the real functions (rtc)")
NA_REASON = "check not built yet in this session (work in progress; see DESIGN.md section 5)"
ALL = ["C%02d" % i for i in range(1, 20)]
m = {"version": 1, "setup_cmd": "python3-vt check.py --setup",
     "hooks": {"guard": "DEP_LOGIC_VERIF", "enable": "no source hooks are needed: the checks read /repo's working tree directly (AST for proofs, import for the bounded stand-in)",
               "baseline_off_cmd": "cd /repo && /venv/bin/python -m pytest -ra -q -p no:cacheprovider --timeout=900 --continue-on-collection-errors", "source_commits": [], "add_only": True},
     "engines": [{"name": "pyvc", "path": "pyvc/", "serves_properties": sorted(CLAIMED), "kind_free_text": "AST->SMT verification-condition generator over the real dep_logic source with sidecar contracts and loop invariants; z3 (deterministic instantiation) + cvc5 fallback"},
                 {"name": "rtc", "path": "rtc/", "serves_properties": sorted(CLAIMED), "kind_free_text": "bounded stand-in: the same contracts evaluated at run time on the real objects under /venv/bin/python; also replays solver counter-models"}],
     "checks": [], "not_applicable": [],
     "notes": "exit 0 held / 1 violation (+replay) / 2 undecided / 3 checker crash"}
for pid in ALL:
    if pid in CLAIMED:
        cat, text, ref, note, tech = CLAIMED[pid]
        m["checks"].append({"property_id": pid, "quick_cmd": f"python3-vt check.py --property {pid} --tier quick",
                            "thorough_cmd": f"python3-vt check.py --property {pid} --tier thorough", "evidence_file": f"evidence/{pid}.json",
                            "replay_cmd_template": "python3-vt check.py --replay {path}", "engine": "pyvc",
                            "level_claimed": {"category": cat, "text": text, "design_ref": "DESIGN.md section " + ref},
                            "level_note": note, "technique": tech})
    else:
        m["not_applicable"].append({"property_id": pid, "reason": NA_REASON})
json.dump(m, open("MANIFEST.json", "w"), indent=1)
