"""Regenerates MANIFEST.json from the table below (kept in one place so that it always validates)."""
import json
CLAIMED = {
 "C01": ("proof", "Every path-VC of the den (set meaning) clauses of RangeSpecifier/UnionSpecifier/Empty/Any operators and of the 4x4 class-table laws is generated from /repo's current source and discharged by z3 for all bounds, all list lengths (loop invariants) and all versions; a bounded run-time sweep of the same contracts on the real objects runs beside it and is reported separately.",
         "5 C01", "Version order idealised as an abstract strict total order (reals); pyvc engine, z3, CPython ast trusted; termination not proved; parse entry points (_from_pkg_specifier text arithmetic) are covered by C04/C06/C17, here only their canonical-shape post-condition is used",
         "contract-based deductive verification: AST->VC symbolic executor (pyvc) + z3, loop invariants, modular callee contracts"),
 "C05": ("proof", "The canonical-shape clauses (valid ranges, pairwise separated, >=2 ranges, exact class of the result, empty-iff-disjoint) of every operator and law are discharged as named obligations for all inputs; exactness of ==/is_empty()/is_any() follows from canonical uniqueness, relative to the dense idealisation of the version order.",
         "5 C05", "as C01, plus density/unboundedness of the version order (property reads membership structurally); canonical-uniqueness lemma", 
         "contract-based deductive verification: canonical-shape post-conditions and loop invariants discharged by z3"),

}
BOUNDED_TEXT = "Bounded stand-in only (labelled bounded, never counted as proved): the property's contract, transcribed from its statement, is evaluated at run time on the real functions over an enumerated input space whose bound is stated in the evidence; proof obligations for this property are not built yet."
BOUNDED = {
 "C02": "markers from the well-defined atom pool, pairs through & and |, evaluated on an environment grid",
 "C03": "marker texts over the atom pool evaluated by dep-logic and by the installed packaging on an environment grid",
 "C04": "leaf grammar and expression trees of depth <= 3 against packaging.SpecifierSet.contains on final releases",
 "C06": "str()/parse round trip over parsed leaves, expression trees and pairwise operator results",
 "C07": "str() of every result re-parsed by parse_marker and packaging and re-evaluated on the environment grid",
 "C08": "the property's finite tag universe (majors 2-3, minors 0-20) x requires_python catalogue x implementation settings; exhaustive in the thorough tier",
 "C09": "the whole C09 platform grid against an independent rule oracle (exhaustive); oracle cross-checked against packaging.tags in the thorough tier",
 "C10": "cold-vs-warm differential of probe operations after generated histories",
 "C11": "all listed atom shapes and simple specifiers x interpreter versions X.Y.Z",
 "C12": "only()/exclude()/without_extras() on pool markers for subsets of their variables",
 "C13": "all ordered pairs over pools of specifier and marker objects (equal-but-differently-built included), triples on a sub-sample",
 "C14": "law sweep over triples of reachable specifiers (object equality) and markers (equivalence on the grid)",
 "C15": "normal-form predicate on every parse/&/|/only/exclude result of the marker sweep",
 "C16": "EnvSpec grid: nested requires_python pairs x tag universe, platform pairs, compare() on sampled pairs",
 "C17": "version-text grammar and near-miss strings against packaging.SpecifierSet acceptance",
 "C18": "PEP 427 file-name grammar against packaging.utils.parse_wheel_filename; Platform.choices() with X,Y substituted",
 "C19": "all ordered (operator, literal) pairs over a literal pool closed under the case table's relations x candidate strings (exhaustive on the pool)",
}
for pid, what in BOUNDED.items():
    CLAIMED[pid] = ("exploration", BOUNDED_TEXT + " Space: " + what + ".", "3 and 5 " + pid,
                    "the oracle in rtc/ is a transcription of the property statement; packaging (installed release) trusted where it is the reference; recorded findings in known_findings.json",
                    "bounded stand-in: run-time contracts on the real functions (rtc)")
PROOF = {
 "C08": ("Symbolic execution of the real _evaluate_python on every (python tag, abi tag) pair of the property's finite tag universe x 5 implementation settings with requires_python an arbitrary set: 'compatible iff some admitted version loads the wheel' and the score triple are discharged for all requires_python at once; the bounded part runs the same contract on the real parser (exhaustive over the universe in the thorough tier).",
         "5 C08", "law.C05.empty-exact (from C01/C05); A-PARSE-SHAPE for the four tag-derived specifier texts (guarded by the bounded part); lower-case tags; free-threaded x abi3 outside the statement",
         "contract-based deductive verification: real body executed symbolically per concrete tag pair, abstract requires_python, z3"),
 "C09": ("Platform.compatible_tags is verified per (OS class, architecture) against the declarative membership rule and rank order of PEP 600/656/macOS for all integer versions (loop invariants sound/ordered/complete, no bound); _evaluate_platform's score contract likewise; the bounded part compares the real strings on the whole C09 grid with an independent oracle (exhaustive) and, in the thorough tier, the oracle with packaging.tags.",
         "5 C09", "A-STRFMT (renderings injective on template+integers; checked exhaustively on the grid); floor/alias/format tables transcribed from the PEPs; fat* formats unclaimed",
         "contract-based deductive verification: loop invariants over abstract tag terms, z3 with deterministic instantiation"),
 "C13": ("Reflexivity, symmetry, transitivity of == and hash compatibility are discharged for every pair/triple of the nine atom-level classes (six specifier classes incl. both spellings of the universal set, AnyMarker, EmptyMarker, MarkerExpression) with symbolic fields, == and hash resolved through the modelled Python protocol on the real methods; interchangeability as equal denotation / read-set frame obligation. For compound markers and atom groups (with OrderedSet values) the induction step is discharged: if == on the children is an equivalence "
         "compatible with hash, so are the generated ==/hash of the compound; interchangeability of compounds is covered by the bounded part.",
         "5 C13", "A-DATACLASS; hash of a tuple is a function of its items' hashes; structural induction over marker depth (step proved, principle trusted)",
         "contract-based deductive verification: finite class case split with symbolic fields, z3"),
 "C16": ("(i) acceptance monotone in requires_python by two-copy symbolic execution of the real _evaluate_python over the tag universe; (ii) tag-set nestedness as a lemma over the proved C09 rules; (iii) compare() executed symbolically in both directions over all platform-shape pairs: reflexive, symmetric on INCOMPATIBLE, never HIGHER both ways, and LOWER_OR_EQUAL/HIGHER imply the hypothesis of (ii).",
         "5 C16", "trusted bases of C08, C09 and C13; nestedness on the stated grid (same manylinux/musllinux major, macOS 10.x minors <= 16, non-fat formats)",
         "contract-based deductive verification: relational (two-copy) symbolic execution + rule lemma, z3"),
 "C19": ("Every (operator, operator) pair of GenericSpecifier.__and__/__or__, all eight operators of __invert__, __contains__ of Empty/Any and the constructor guard are executed symbolically over SMT strings: for all literals and all candidate strings the result either raises NotImplementedError or is satisfied exactly by the intersection/union/complement.",
         "5 C19", "Python `in` on str = substring containment, str ordering = code-point lexicographic (SMT-LIB str.<)",
         "contract-based deductive verification: VCs over SMT strings from the real AST, z3 (cvc5 fallback)"),
}
for pid, (text, ref, note, tech) in PROOF.items():
    CLAIMED[pid] = ("proof", text, ref, note, tech)
CLAIMED["C12"] = ("proof", "only()/exclude()/without_extras() of every marker class are verified over abstract markers with pointwise ghosts (evaluation at an arbitrary environment, mention of an arbitrary variable): "
                  "the result never mentions a removed / non-listed variable, mentions nothing new, only() is implied by the marker and has the same meaning when the marker mentions only the listed names; "
                  "for single markers exclude() returns the marker itself when it does not carry the removed name (string equality over SMT strings). The clause 'exclude() leaves the meaning of a *compound* unchanged "
                  "when it does not mention the variable' is covered by the bounded part only (it depends on re-normalisation not discovering emptiness, see DESIGN).",
                  "5 C12", "law.C13 congruence; contracts of of()/flatten_items (proved in the same run); recursion through children by the method contracts (partial correctness); bounded part for the compound same-meaning clause",
                  "contract-based deductive verification: abstract markers (T-MARK), loop/comprehension invariants, z3 with deterministic instantiation")
CLAIMED["C14"] = ("other", "Mixed: (proof) specifiers - 13 Boolean-algebra laws on operands of arbitrary class: both sides canonical and admitting the same versions (corollaries of the C01/C05 operator contracts), equality of the "
                  "returned objects by the canonical-uniqueness lemma whose head/tail/base steps are machine-checked; a & ~a empty and a | ~a universal via witness points; markers - 10 laws up to equivalence as corollaries of the C02 operator law; "
                  "(bounded) law sweep on real objects.", "5 C14", "C01/C05 contracts; list-induction principle for canonical uniqueness; C02 operator law (atom layer bounded); dense order",
                  "corollaries of operator contracts + machine-checked lemmas (z3), bounded law sweep")
CLAIMED["C06"] = ("other", "Mixed: (proof, structured versions) every clause form RangeSpecifier._simplified_form/__str__ can emit ('', one-sided bounds, ==V, ~=V, explicit pair) and the !=V form of UnionSpecifier._simplified_form "
                  "(incl. the exact bounds of a rendered !=X.*) denote the object's own interval, str() raises nothing (index safety of the padded lists included), and the parsing side (_release_series, _from_pkg_specifier) builds exactly the bounds PEP 440 assigns to ~=V, ==P.*, !=P.*; "
                  "the open finding D3 is the refuted obligation 'upper bound of a ~= rendering has no post-release'; (bounded) text round trip through the real parser over the version-text grammar, the boundary-shape catalogue and operator results; "
                  "UnionSpecifier.__str__ joins one range text per range in order.", "5 C06", "A-VER, A-PKG-PARSE; finding D3",
                  "contract-based deductive verification over structured versions (T-VER) + bounded text round trip")
CLAIMED["C04"] = ("other", "Mixed: (proof) leaf translation: _from_pkg_specifier returns, for each of >,>=,<,<=,==,!=,~=,==P.*,!=P.* (with/without epoch), exactly the interval(s) PEP 440 assigns (structured versions), === gives ArbitrarySpecifier; the algebra between "
                  "leaves is C01/C05, contains() is membership in the rendered text - the operator obligations of C01 and the rendering obligations of C06 are re-established as premises on every run; (bounded) membership of final releases against packaging.SpecifierSet.contains for leaves and expression trees of depth <= 3, contains() path (through str()), === leaves raise ValueError or give the right set.",
                  "5 C04", "A-VER, A-PKG-PARSE, A-PKG-CONTAINS (bounded); C05 contracts (C01 and C06 re-established as premises); finding D3 (contains() goes through the ~= rendering)",
                  "contract-based deductive verification of the leaf translation (T-VER) + bounded comparison with packaging")
CLAIMED["C07"] = ("other", "Mixed: (proof) MultiMarker.__str__ / MarkerUnion.__str__ produce a join whose operands parse at the right precedence (no unparenthesised or-join or <empty>/'' token inside an and-join) and mean the children, "
                  "for all compounds in normal form; an atom rendered by MarkerExpression.__str__ and read back (packaging's triple, then the real _build_markers) is the same atom, for the ten operators and both operand orders, and the quote character around the literal does not occur in it (SMT strings); the premises C02 (operator laws) and C03 (parser) are re-established on every run; "
                  "(bounded) str() of every parse/&/|/only/exclude result of the marker sweep is re-parsed by parse_marker and packaging.Marker and re-evaluated on the environment grid; "
                  "<empty>/'' round trip and absence of <empty> inside larger markers checked there.", "5 C07", "A-PKG-PARSE (precedence); str() contract of children assumed recursively; group renderings bounded; D14 finding",
                  "contract-based verification of the parenthesisation (document algebra, invariants, z3) + bounded round trip")
CLAIMED["C10"] = ("other", "Mixed: (frame analysis, decided statically on every run) every memoised function found in the source reads, through its key parameters, only state that ==/hash compare, and the key objects it returns "
                  "carry no uncompared field that str()/evaluate read (calls of module-level functions, local aliases and dataclasses.replace copies followed; the lazily filled view of an atom may only be read inside its accessor), "
                  "the lazy view is set only by its accessor and by from_specifier (every assignment site is found by an AST scan), and from_specifier installs no view that differs from the one the atom's own text gives (none at all for version specifiers; for a GenericSpecifier the very (op, value) pair); the receiver of a memoised method counts as a key - with the memoisation meta-lemma this gives independence from history; (bounded) cold-vs-warm differential of probe operations after generated histories, "
                  "including operands/results that are equal as keys but built or spelled differently.", "5 C10", "meta-lemma (stated, trusted); annotations used for method resolution; whitelisted lazy cache _specifier",
                  "frame-condition (read-set) obligations from the AST + bounded cold/warm differential")
CLAIMED["C15"] = ("other", "Mixed: (proof) the atom-layer operators - EqualityMarkerUnion / InequalityMultiMarker replace/&/|, _merge_single_markers and MarkerExpression &/| on string atoms - never return an atom group with fewer "
                  "than two values (for all names, literals, value sets); (bounded) the normal-form predicate (>= 2 distinct children, no empty/universal/same-kind child, groups of >= 2 values) on every result of the marker sweep. "
                  "The fix-point clause of of() is not expressible as an inductive invariant and stays bounded.", "5 C15", "string atoms only in the proof part; OrderedSet mixin operators modelled through the verified contract of OrderedSet.__init__",
                  "contract-based deductive verification of the atom layer (T-ATOM, SMT strings) + bounded normal-form sweep")
CLAIMED["C02"] = ("other", "Mixed: (proof) the combinator layer - flatten_items, MultiMarker.of / MarkerUnion.of (three nested loops with invariants), cnf/dnf (leaf and same-kind branches, and the distributive branch over itertools.product under a choice-function contract of product), intersection(), union(), "
                  "the &/| methods of AnyMarker/EmptyMarker/MultiMarker/MarkerUnion, MultiMarker.union_simplify / MarkerUnion.intersect_simplify (set algebra over members, comprehension invariant) - and the string-atom layer - MarkerExpression._evaluate against its specifier view (both operand orders), _merge_single_markers, MarkerExpression &/|, "
                  "EqualityMarkerUnion/InequalityMultiMarker replace/&/| over symbolic names, literals and value sets - are verified against 'result evaluates as the conjunction/disjunction of the operands' for all environments; "
                  "the merge logic for version-valued atoms (_merge_single_markers / _merge_python_version_single_markers: operator choice, equality shortcuts, re-wrapping through from_specifier) over abstract specifier views; "
                  "(bounded) extras and in / not in on versions are assumed contracts, "
                  "exercised by the run-time sweep of the same contract on real markers over the well-defined atom pool and an environment grid.",
                  "5 C02", "assumed (bounded) contracts listed in the evidence; law.C13; A-HASHSEED; recorded finding D14",
                  "contract-based deductive verification of the combinator layer (T-MARK, invariants, z3) + bounded stand-in for the atom layer")
CLAIMED["C11"] = ("other", "Mixed: (proof, structured versions) MarkerExpression.from_specifier on python_version / python_full_version: for every single range with release-only bounds, every parsed ==P.* range and every parsed "
                  "!=P.* / !=V union the result is None or an atom whose (operator, value) clause denotes exactly the given specifier - the zero padding to X.Y.Z keeps the version, and never touches a ~= or wildcard operand - and the atom "
                  "carries that specifier as its view only when the value is the specifier's own text (C10); _normalize_python_version_specifier admits exactly the full versions whose python_version satisfies the atom (all operators, values X / X.Y / X.Y.0, all integers); "
                  "_get_specifier parses the atom's own clause; _evaluate on a version atom (both operand orders) holds exactly when the environment's value lies in the specifier view; (bounded) both directions on real objects: specifier view vs evaluate() for every listed atom shape (comparison, ~=, wildcard, in / not in) over the interpreter grid X.Y.Z, "
                  "from_specifier of simple specifiers re-evaluated on the grid.", "5 C11", "A-VER, A-PKG-PARSE; PEP 440 clause meaning on release-only versions written out in contracts/pyversion.py; _evaluate on versions (A-PKG-CONTAINS) and in/not in bounded only; finding D14",
                  "contract-based deductive verification of from_specifier (T-VER, z3 with deterministic instantiation) + bounded bridge sweep")
CLAIMED["C03"] = ("other", "Mixed: (proof) _build_markers, the rewriting done while parsing: the marker built from packaging's parse tree evaluates as packaging's own fold of that tree (or of and-groups, nested lists recursively) "
                  "for all trees, given atoms that evaluate alike, and every parsed triple becomes an atom with the same variable, literal and operand order, its operator mirrored exactly when the literal is on the left; MarkerExpression._evaluate applies, like packaging's _eval_op, the written operator to the operands in the written order - by Specifier(op + rhs).contains(lhs) for the four version variables (eight operators, both operand orders), as plain strings for every other variable whatever the literal; "
                  "(bounded) parse_marker(text).evaluate(env) against packaging.Marker(text).evaluate(env) for every text over the well-defined atom pool (both operand orders, nested and/or) on the environment grid, "
                  "name-normalisation spellings and set-valued extras / dependency_groups included.", "5 C03", "A-PKG-EVAL (transcription of packaging's fold and of _eval_op; Specifier(text).contains(item) uninterpreted, whether a text is a valid specifier uninterpreted); findings D14, D22 (pre-/post-release environment values)",
                  "contract-based deductive verification of the parse-tree fold (T-MARK, loop invariant, z3) + bounded comparison with packaging")
CLAIMED["C17"] = ("other", "Mixed: (proof) the control structure of parse_version_specifier over abstract texts: '<empty>' gives the empty set; a text with '||' is parsed piecewise and returns exactly when every piece is accepted; "
                  "any other text returns exactly when packaging's SpecifierSet accepts it; in every other case the only exception is dep_logic's InvalidSpecifier (packaging's is translated); from_specifierset folds the clauses "
                  "with `&` and raises nothing, given a leaf translation that raises nothing; (bounded) acceptance and exception class on the PEP 440 version-text grammar (epochs, pre/post/dev, any number of segments, "
                  "wildcards, ~=, '||', '<empty>') and near-miss strings against packaging.SpecifierSet.", "5 C17", "A-PKG (SpecifierSet raises or yields clauses), A-STDLIB str ops; that the leaf translation never raises on a "
                  "clause packaging accepts is per-operator (C04 leaf obligations) + bounded", "contract-based deductive verification of the parser's control structure (abstract texts, reduce invariant, z3) + bounded grammar sweep")
CLAIMED["C18"] = ("other", "Mixed: (proof) parse_wheel_tags on every file name (as the '-'-join of dash-free fields): accepted exactly when it ends in '.whl' and has 5 or 6 fields, the three tag lists are the '.'-splits of the "
                  "lower-cased last three fields with the extension removed (optional build tag skipped by counting from the end), the only exception is InvalidWheelFilename; Platform.parse on every name of the real Platform.choices(), X_Y being any two integers: the documented target (family, version, architecture) "
                  "and Platform.parse(str(p)) == p; (bounded) the same names against "
                  "packaging.utils.parse_wheel_filename over the PEP 427 grammar (separators, '.whl' and tag-like words inside fields), wheel_compatibility() never raising on them, every Platform.choices() name "
                  "with X_Y over a version grid parsing, aliases, Platform.parse(str(p)) == p.", "5 C18", "A-STDLIB str methods on joins (pyvc/theories/wheel.py); A-REGEX for the platform pattern (two samples through the real re); alias table transcribed from the documentation",
                  "contract-based deductive verification of parse_wheel_tags (T-WHEEL, z3 strings) and Platform.parse/__str__ (T-TAG) + bounded comparison with packaging and platform-name sweep")
NA_REASON = "check not built yet in this session (work in progress; see DESIGN.md section 5)"
ALL = ["C%02d" % i for i in range(1, 20)]
m = {"version": 1, "setup_cmd": "python3-vt check.py --setup",
     "hooks": {"guard": "DEP_LOGIC_VERIF", "enable": "no source hooks are needed: the checks read /repo's working tree directly (AST for proofs, import for the bounded stand-in)",
               "baseline_off_cmd": "cd /repo && /venv/bin/python -m pytest -ra -q -p no:cacheprovider --timeout=900 --continue-on-collection-errors", "source_commits": [], "add_only": True},
     "engines": [{"name": "pyvc", "path": "pyvc/", "serves_properties": sorted(CLAIMED), "kind_free_text": "AST->SMT verification-condition generator over the real dep_logic source with sidecar contracts and loop invariants; z3 (deterministic instantiation) + cvc5 fallback"},
                 {"name": "rtc", "path": "rtc/", "serves_properties": sorted(CLAIMED), "kind_free_text": "bounded stand-in: the same contracts evaluated at run time on the real objects under /venv/bin/python; also replays solver counter-models"}],
     "checks": [], "not_applicable": [],
     "notes": "exit 0 held / 1 violation (+replay) / 2 undecided / 3 checker crash"}
for pid in ALL:
    if pid in CLAIMED:
        cat, text, ref, note, tech = CLAIMED[pid]
        m["checks"].append({"property_id": pid, "quick_cmd": f"python3-vt check.py --property {pid} --tier quick",
                            "thorough_cmd": f"python3-vt check.py --property {pid} --tier thorough", "evidence_file": f"evidence/{pid}.json",
                            "replay_cmd_template": "python3-vt check.py --replay {path}", "engine": "pyvc",
                            "level_claimed": {"category": cat, "text": text, "design_ref": "DESIGN.md section " + ref},
                            "level_note": note, "technique": tech})
    else:
        m["not_applicable"].append({"property_id": pid, "reason": NA_REASON})
json.dump(m, open("MANIFEST.json", "w"), indent=1)
