#!/usr/bin/env python3-vt
"""Entry point of the verification machinery.

  check.py --setup
  check.py --property C01 [--tier quick|thorough]
  check.py --replay replays/C01/xyz.json

Exit codes: 0 held on everything explored / 1 violation (VIOLATION line printed) / 2 undecided / 3 checker crash.
`unknown`, time-outs and tracebacks are never mapped to a violation."""
from __future__ import annotations

import argparse
import json
import os
import sys
import time

HERE = os.path.dirname(os.path.abspath(__file__))
sys.path.insert(0, HERE)
os.chdir(HERE)


def main():
    ap = argparse.ArgumentParser()
    ap.add_argument("--setup", action="store_true")
    ap.add_argument("--property")
    ap.add_argument("--tier", default=os.environ.get("VERIF_TIER", "quick"))
    ap.add_argument("--replay")
    ap.add_argument("--jobs", type=int, default=int(os.environ.get("VERIF_JOBS", "16")))
    a = ap.parse_args()
    from checks import common
    if a.setup:
        sys.exit(common.setup())
    if a.replay:
        sys.exit(common.replay(a.replay))
    if not a.property:
        ap.error("--property required")
    seed = int(os.environ.get("VERIF_SEED", "0"))
    from checks import props
    try:
        code = props.run_property(a.property, a.tier, seed, a.jobs)
    except Exception:  # noqa: BLE001
        import traceback
        traceback.print_exc()
        print(f"CHECKER-CRASH property={a.property}")
        code = 3
    sys.exit(code)


if __name__ == "__main__":
    main()
