"""Deterministic quantifier elimination by trigger-based instantiation.

Every quantified fact pyvc produces is universal after NNF + skolemisation, and its bound variables are list
indices used in reads `a[i]`.  Each universal hypothesis is instantiated with the ground terms at which one of
*its* arrays is read in the ground part of the VC (read-over-write chains are followed), round by round up to a
fix-point / cap.  Instantiating hypotheses is *sound*; the quantifier-free result is decided by z3 without
heuristic quantifier instantiation, so `unsat` verdicts do not depend on seeds or load.  A `sat` answer of the
instantiated problem is only a candidate counter-model (instantiation may be incomplete)."""
from __future__ import annotations

import itertools

import z3

MAX_ROUNDS = 12
TIME_BUDGET_S = 60


def nnf(assertions):
    g = z3.Goal()
    g.add(*assertions)
    r = z3.Then(z3.Tactic("simplify"), z3.Tactic("nnf"))(g)
    assert len(r) == 1
    return list(r[0])


class _Ctx:
    def __init__(self):
        self.hv = {}
        self.hq = {}

    def has_var(self, e):
        k = e.get_id()
        hit = self.hv.get(k)
        if hit is None:
            r = z3.is_var(e) or any(self.has_var(c) for c in e.children()) or (z3.is_quantifier(e) and self.has_var(e.body()))
            self.hv[k] = hit = (r, e)       # keep e alive: ids must not be recycled while memoised
        return hit[0]

    def has_quant(self, e):
        k = e.get_id()
        hit = self.hq.get(k)
        if hit is None:
            r = z3.is_quantifier(e) or any(self.has_quant(c) for c in e.children())
            self.hq[k] = hit = (r, e)
        return hit[0]


def _roots(a):
    """base arrays of a read-over-write chain, and the ground store indices on the way"""
    roots, idx = [], []
    todo = [a]
    while todo:
        x = todo.pop()
        if z3.is_app(x) and x.decl().kind() == z3.Z3_OP_STORE:
            todo.append(x.arg(0))
            idx.append(x.arg(1))
        elif z3.is_app(x) and x.decl().kind() == z3.Z3_OP_ITE:
            todo.append(x.arg(1))
            todo.append(x.arg(2))
        elif z3.is_app(x) and x.decl().kind() == z3.Z3_OP_DT_ACCESSOR and z3.is_app(x.arg(0)) and x.arg(0).decl().kind() == z3.Z3_OP_SELECT \
                and z3.is_app(x.arg(0).arg(0)) and x.arg(0).arg(0).decl().kind() == z3.Z3_OP_STORE:
            # field(Store(A, j, V)[i]) is field(V) or field(A[i]): an array-valued field of an element of an updated list
            sel = x.arg(0)
            st, i = sel.arg(0), sel.arg(1)
            todo.append(z3.simplify(x.decl()(st.arg(2))))
            todo.append(x.decl()(z3.Select(st.arg(0), i)))
        else:
            roots.append(x)
    return roots, idx


def _simple(e, depth=0):
    """constants, skolem constants and constructor terms over such (no array reads / ite / function applications):
    the candidate pool for bound variables of non-index sorts must not feed back on itself"""
    if not z3.is_app(e):
        return False
    k = e.decl().kind()
    if e.num_args() == 0:
        return True
    if k == z3.Z3_OP_DT_CONSTRUCTOR or k in (z3.Z3_OP_ADD, z3.Z3_OP_SUB, z3.Z3_OP_MUL, z3.Z3_OP_UMINUS):
        return depth < 3 and all(_simple(c, depth + 1) for c in e.children())
    if k == z3.Z3_OP_SELECT and depth == 0:
        # an element read at a simple index (skolem constant / numeral / loop counter): list elements are candidates,
        # reads at skolem-function indices are not (no feedback)
        return _simple(e.arg(1), 1) and _flat_array(e.arg(0))
    return False


def _named_fn(e):
    """`z3name!k(i)`: the functions the nnf tactic introduces for if-then-else terms under a quantifier behave like array reads"""
    return (z3.is_app(e) and e.num_args() == 1 and e.decl().kind() == z3.Z3_OP_UNINTERPRETED and e.decl().name().startswith("z3name!")
            and e.arg(0).sort().kind() == z3.Z3_INT_SORT)


def _skolem_depth(e, memo):
    """nesting depth of skolem-function applications (names with '!', arity >= 1) in a ground index term"""
    k = e.get_id()
    if k in memo:
        return memo[k][0]
    d = 0
    if z3.is_app(e):
        d = max([_skolem_depth(c, memo) for c in e.children()] or [0])
        if e.num_args() >= 1 and e.decl().kind() == z3.Z3_OP_UNINTERPRETED and "!" in e.decl().name():
            d += 1
    memo[k] = (d, e)
    return d


MAX_SKOLEM_DEPTH = 3


def _vars_in(e, acc=None):
    acc = {} if acc is None else acc
    if z3.is_var(e):
        acc[z3.get_var_index(e)] = e
    elif z3.is_app(e):
        for c in e.children():
            _vars_in(c, acc)
    return acc


def _size(e, cap=40):
    n, todo = 0, [e]
    while todo and n <= cap:
        x = todo.pop()
        n += 1
        todo.extend(x.children())
    return n


def _flat_array(a, depth=0):
    if not z3.is_app(a) or depth > 3:
        return False
    k = a.decl().kind()
    if a.num_args() == 0:
        return True
    if k == z3.Z3_OP_STORE:
        return _flat_array(a.arg(0), depth + 1)
    if k == z3.Z3_OP_UNINTERPRETED:
        return all(_simple(c, 1) for c in a.children())
    return False


class Instantiator:
    def __init__(self, formulas):
        self.ctx = _Ctx()
        fs = nnf(formulas)
        self.ground = [f for f in fs if not self.ctx.has_quant(f)]
        self.quant = [f for f in fs if self.ctx.has_quant(f)]
        self.reads = {}          # root array class -> {term id: term}
        self.parent, self.keep = {}, {}
        self.sort_terms = {}     # sort name -> {id: term} for non-Int bound sorts
        self.visited = {}
        self.instances = {}      # key -> formula
        self.n_inst = 0
        self.offsets = False
        self.share = False
        self.shift_all = False
        self.sk_memo = {}
        self.base_apps = {}
        self.apps = {}           # uninterpreted function name -> {id: ground application} (arity >= 2): triggers of multi-variable axioms
        self.round = 0
        self.gen = {}            # index term id -> round in which it first appeared as a read index
        self.shift_gen = 1
        self.base_terms = set()
        self.truncated = False

    # ---- arrays known equal (a == b facts) share their read sets
    def find(self, r):
        k = r.get_id()
        self.keep.setdefault(k, r)
        if self.share and z3.is_app(r) and r.num_args() > 0 and r.decl().kind() in (z3.Z3_OP_UNINTERPRETED, z3.Z3_OP_DT_ACCESSOR):
            # second pass: arrays given by the same function symbol (kids(m), pkg_clauses(t), ...) share their read sets - their arguments
            # may be equal without being syntactically equal (a skolem index known to be 0)
            fk = "fn:" + r.decl().name()
            if self.parent.get(k, k) == k and k != fk:
                self.parent[k] = fk
        while self.parent.get(k, k) != k:
            k = self.parent[k]
        return k

    def union(self, a, b):
        ra, rb = self.find(a), self.find(b)
        if ra != rb:
            self.parent[ra] = rb
            if ra in self.reads:
                self.reads.setdefault(rb, {}).update(self.reads.pop(ra))

    # ---- ground read collection
    def note(self, t):
        self.gen.setdefault(t.get_id(), self.round)

    def usable(self, t):
        """index terms with deeply nested skolem functions (witness of a witness of a witness ...) are not used as instantiation candidates:
        they only arise from unfolding forall-exists facts along their own witnesses"""
        return _skolem_depth(t, self.sk_memo) <= MAX_SKOLEM_DEPTH

    def scan(self, e):
        k = e.get_id()
        if k in self.visited:
            return
        self.visited[k] = e
        if z3.is_quantifier(e):
            self.scan(e.body())
            return
        if not z3.is_app(e):
            return
        d = e.decl().kind()
        if d == z3.Z3_OP_EQ and e.arg(0).sort().kind() == z3.Z3_ARRAY_SORT and not self.ctx.has_var(e):
            ra, _ = _roots(e.arg(0))
            rb, _ = _roots(e.arg(1))
            for x in ra:
                for y in rb:
                    self.union(x, y)
        if d == z3.Z3_OP_SELECT:
            a, t = e.arg(0), e.arg(1)
            if not self.ctx.has_var(t) and self.usable(t):
                roots, idx = _roots(a)
                for r in roots:
                    if not self.ctx.has_var(r):
                        key = self.find(r)
                        self.reads.setdefault(key, {}).setdefault(t.get_id(), t)
                        self.note(t)
                        for j in idx:
                            if not self.ctx.has_var(j):
                                self.reads[key].setdefault(j.get_id(), j)
        elif _named_fn(e) and not self.ctx.has_var(e.arg(0)):
            t = e.arg(0)
            self.reads.setdefault("f:" + e.decl().name(), {}).setdefault(t.get_id(), t)
            self.note(t)
        elif d == z3.Z3_OP_STORE:
            roots, idx = _roots(e)
            for r in roots:
                if not self.ctx.has_var(r):
                    for j in idx:
                        if not self.ctx.has_var(j):
                            self.reads.setdefault(self.find(r), {}).setdefault(j.get_id(), j)
        if d == z3.Z3_OP_UNINTERPRETED and e.num_args() >= 1 and not self.ctx.has_var(e):
            self.apps.setdefault(e.decl().name(), {}).setdefault(k, e)
        if e.sort().kind() not in (z3.Z3_BOOL_SORT, z3.Z3_INT_SORT, z3.Z3_REAL_SORT, z3.Z3_ARRAY_SORT) and not self.ctx.has_var(e) and _simple(e):
            self.sort_terms.setdefault(e.sort().name(), {}).setdefault(k, e)
        for c in e.children():
            self.scan(c)

    # ---- candidate terms for the bound variables of one quantifier
    def candidates(self, q):
        n = q.num_vars()
        arrays = [dict() for _ in range(n)]   # var index (de Bruijn) -> root arrays read at that var
        extra = [dict() for _ in range(n)]
        shifted = [list() for _ in range(n)]  # (root keys, ground offset g) for reads `a[var + g]` (offsets mode only)
        seen = set()

        def visit(e, depth):
            if (e.get_id(), depth) in seen:
                return
            seen.add((e.get_id(), depth))
            if z3.is_quantifier(e):
                visit(e.body(), depth + e.num_vars())
                return
            if z3.is_app(e):
                if _named_fn(e) and z3.is_var(e.arg(0)):
                    vi = z3.get_var_index(e.arg(0)) - depth
                    if 0 <= vi < n:
                        arrays[vi]["f:" + e.decl().name()] = e
                if e.decl().kind() == z3.Z3_OP_SELECT and z3.is_var(e.arg(1)):
                    vi = z3.get_var_index(e.arg(1)) - depth
                    if 0 <= vi < n:
                        roots, idx = _roots(e.arg(0))
                        for r in roots:
                            if not self.ctx.has_var(r):
                                arrays[vi][self.find(r)] = r
                        for j in idx:
                            if not self.ctx.has_var(j):
                                extra[vi][j.get_id()] = j
                if self.offsets and e.decl().kind() == z3.Z3_OP_SELECT and not z3.is_var(e.arg(1)) and self.ctx.has_var(e.arg(1)) and depth == 0:
                    idx = e.arg(1)
                    vs = _vars_in(idx)
                    if len(vs) == 1 and idx.sort().kind() == z3.Z3_INT_SORT and next(iter(vs.values())).sort().kind() == z3.Z3_INT_SORT:
                        var = next(iter(vs.values()))
                        vi = z3.get_var_index(var) - depth
                        g = z3.simplify(idx - var)
                        if 0 <= vi < n and not self.ctx.has_var(g):
                            roots, _ = _roots(e.arg(0))
                            keys = [self.find(r) for r in roots if not self.ctx.has_var(r)]
                            if keys:
                                shifted[vi].append((keys, g))
                for c in e.children():
                    visit(c, depth)
        visit(q.body(), 0)
        pools = []
        pats = self.unary_patterns(q) if n == 1 else []
        for vi in range(n):
            sort = q.var_sort(n - 1 - vi)
            pool = {}
            if sort.kind() != z3.Z3_INT_SORT:
                pool.update(self.sort_terms.get(sort.name(), {}))
                # E-matching on the loop-free patterns f(.., x, ..) of a one-variable axiom: x := the argument of every ground application of f
                for fname, ai in pats:
                    for app in list(self.base_apps.get(fname, {}).values()):       # applications of the original problem only: no matching loops
                        t = app.arg(ai)
                        if t.sort() == sort:
                            pool.setdefault(t.get_id(), t)
            elif arrays[vi]:
                for rid in arrays[vi]:
                    pool.update(self.reads.get(rid, {}))
                pool.update(extra[vi])
                if self.offsets:
                    for c in (0, 1):
                        u = z3.IntVal(c)
                        pool.setdefault(u.get_id(), u)
                    # neighbours of the original index terms (lists that are shifted copies of one another: [epoch, *release], x[1:], ...)
                    for t in list(pool.values()):
                        if t.get_id() in self.base_terms:
                            for d in (1, -1):
                                u = z3.simplify(t + d)
                                pool.setdefault(u.get_id(), u)
            else:
                # no array read at this variable: only the index terms of the original problem (never derived ones - no feedback)
                for d in self.reads.values():
                    for k, t in d.items():
                        if not self.base_terms or k in self.base_terms:
                            pool[k] = t
            if self.offsets and sort.kind() == z3.Z3_INT_SORT:
                # reads `a[var + g]`: the variable matches t - g for the indices t at which `a` is read
                for keys, g in shifted[vi]:
                    for rid in keys:
                        for t in list(self.reads.get(rid, {}).values()):
                            if _size(t) <= 14 and (self.shift_all or self.gen.get(t.get_id(), 99) <= self.shift_gen):
                                u = z3.simplify(t - g)
                                if _size(u) <= 18:
                                    pool.setdefault(u.get_id(), u)
            pools.append(pool)
        return pools          # index by de Bruijn var index

    def unary_patterns(self, q):
        """applications f(.., x, ..) with the bound variable as a bare argument, minus those that would loop: f is dropped when the body also
        applies f to a bigger term containing x (dsem(paren(d)) next to dsem(d): instantiating at t creates dsem(paren(t)), which would match again)"""
        bare, nested = {}, set()

        def has_x(e):
            return self.ctx.has_var(e)

        def visit(e, depth):
            if z3.is_quantifier(e):
                return                      # inner quantifiers: their own variables shift the indices; patterns are taken from the outer level only
            if not z3.is_app(e):
                return
            if e.decl().kind() == z3.Z3_OP_UNINTERPRETED and e.num_args() >= 1:
                for ai in range(e.num_args()):
                    a = e.arg(ai)
                    if z3.is_var(a) and z3.get_var_index(a) == 0:
                        bare.setdefault(e.decl().name(), ai)
                    elif has_x(a):
                        nested.add(e.decl().name())
            for c in e.children():
                visit(c, depth)
        visit(q.body(), 0)
        return [(f, ai) for f, ai in bare.items() if f not in nested]

    def trigger(self, q):
        """an application f(.., x, .., y, ..) of an uninterpreted function that has every bound variable of a multi-variable quantifier as a
        bare argument (eqm(x, y) in the symmetry / congruence axioms): such a quantifier is instantiated only with the argument tuples of the
        ground applications of f (E-matching on that pattern) instead of the product of its per-variable pools"""
        n = q.num_vars()
        if n < 2:
            return None
        found = []

        def visit(e, depth):
            if found or not z3.is_app(e):
                if z3.is_quantifier(e):
                    visit(e.body(), depth + e.num_vars())
                return
            if e.decl().kind() == z3.Z3_OP_UNINTERPRETED and e.num_args() >= 2 and depth == 0:
                pos = {}
                for ai in range(e.num_args()):
                    a = e.arg(ai)
                    if z3.is_var(a):
                        pos.setdefault(z3.get_var_index(a), ai)
                if len(pos) == n and all(0 <= v < n for v in pos):
                    found.append((e.decl().name(), pos))
                    return
            for c in e.children():
                visit(c, depth)
        visit(q.body(), 0)
        return found[0] if found else None

    def inst(self, e, path):
        if z3.is_quantifier(e):
            if not e.is_forall():
                raise ValueError("existential after nnf")
            n = e.num_vars()
            body = e.body()
            out = []
            trig = self.trigger(e)
            if trig is not None:
                fname, pos = trig
                combos = []
                for app in list(self.apps.get(fname, {}).values()):
                    combos.append([(app.arg(pos[vi]).get_id(), app.arg(pos[vi])) for vi in range(n)])
            else:
                pools = self.candidates(e)
                keys = [list(p.items()) for p in pools]
                combos = itertools.product(*keys)
            for combo in combos:
                key = (path, e.get_id(), tuple(k for k, _ in combo))
                f = self.instances.get(key)
                if f is None:
                    self.n_inst += 1
                    if self.n_inst > 20000:
                        self.n_inst -= 1
                        self.truncated = True
                        continue          # budget reached: a subset of the instances is still sound
                    # substitute_vars: i-th argument replaces de Bruijn index i
                    f0 = z3.substitute_vars(body, *[t for _, t in combo])
                    self.instances[key] = f0
                    f = f0
                out.append(self.inst(f, key) if self.ctx.has_quant(f) else f)
            return z3.And(*out) if out else z3.BoolVal(True)
        if z3.is_app(e) and e.decl().kind() in (z3.Z3_OP_AND, z3.Z3_OP_OR) and self.ctx.has_quant(e):
            kids = [self.inst(c, path + (i,)) for i, c in enumerate(e.children())]
            return z3.And(*kids) if e.decl().kind() == z3.Z3_OP_AND else z3.Or(*kids)
        return e

    def run(self):
        for g in self.ground:
            self.scan(g)
        for q in self.quant:
            self.scan(q)        # ground reads inside quantified formulas count as well
        self.base_terms = {k for d in self.reads.values() for k in d}
        self.base_apps = {f: dict(d) for f, d in self.apps.items()}
        result = []
        rounds = 0
        last = -1
        import time as _t
        t0 = _t.time()
        while rounds < MAX_ROUNDS:
            rounds += 1
            self.round = rounds
            result = [z3.simplify(self.inst(q, (qi,))) for qi, q in enumerate(self.quant)]
            if _t.time() - t0 > TIME_BUDGET_S:
                self.truncated = True       # keep what we have: a subset of the instances is still sound
                break
            for r in result:
                self.scan(r)
            total = sum(len(d) for d in self.reads.values()) + sum(len(d) for d in self.sort_terms.values())
            if total == last:
                break
            last = total
        return self.ground + result, {"quantified": len(self.quant), "instances": self.n_inst, "rounds": rounds,
                                      "index_terms": last, "truncated": self.truncated or rounds >= MAX_ROUNDS}


def to_qf(assertions, offsets=0):
    """offsets: 0 plain, 1 (or True) + neighbours and shifted index terms, 2 + read sets shared between arrays of the same function symbol"""
    it = Instantiator(assertions)
    it.offsets = bool(offsets)
    it.share = offsets is not True and offsets >= 2
    if not it.quant:
        return it.ground, {"quantified": 0, "instances": 0, "rounds": 0, "index_terms": 0, "truncated": False}
    return it.run()
