"""T-MARK: markers as an abstract sort with observers; `ev(m)` is the value m.evaluate(env) returns at the ghost
environment, `uses(m)` whether m mentions the ghost variable.  The definitional axioms of `ev` are *generated from
the bodies of the real evaluate() methods* on every run."""
from __future__ import annotations

import ast

import z3

from ..values import AbsObj, AList, ClassRef, ListS, NOTIMPL, Obj, Opt, OutsideSubset, RaiseEx, Shape, fresh_name

MK = z3.DeclareSort("Marker")
ev = z3.Function("ev", MK, z3.BoolSort())
uses = z3.Function("uses", MK, z3.BoolSort())
cls_of = z3.Function("cls", MK, z3.IntSort())
kids = z3.Function("kids", MK, z3.ArraySort(z3.IntSort(), MK))
nkids = z3.Function("nkids", MK, z3.IntSort())
eqm = z3.Function("eqm", MK, MK, z3.BoolSort())
name_of = z3.Function("name", MK, z3.StringSort())            # m.name of a single marker
X = z3.String("x!ghost_variable")                              # the pointwise ghost variable name
in_names = z3.Function("in_names", z3.StringSort(), z3.BoolSort())   # membership in the `marker_names` of an only() call
inside = z3.Function("inside", MK, z3.BoolSort())              # every variable m mentions is in `marker_names`

# ---- documents (C07): rendered text abstracted to its PEP 508 structure
DOC = z3.DeclareSort("Doc")
doc_of = z3.Function("doc_of", MK, DOC)               # str(m)
paren = z3.Function("paren", DOC, DOC)                # "(" + d + ")"
dkind = z3.Function("doc_kind", DOC, z3.IntSort())    # top-level shape of the text
dsem = z3.Function("doc_sem", DOC, z3.BoolSort())     # truth value a PEP 508 parser assigns to the text at the ghost environment
K_ATOM, K_AND, K_OR, K_PAREN, K_EMPTYTOK, K_ANYTOK = range(6)

CLASSES = ["AnyMarker", "EmptyMarker", "MarkerExpression", "EqualityMarkerUnion", "InequalityMultiMarker", "MultiMarker", "MarkerUnion"]
CID = {c: i for i, c in enumerate(CLASSES)}
SINGLE = ["MarkerExpression", "EqualityMarkerUnion", "InequalityMultiMarker"]
ANY = z3.Const("ANY_MARKER", MK)
EMPTY = z3.Const("EMPTY_MARKER", MK)


def is_cls(m, *names):
    return z3.Or(*[cls_of(m) == CID[n] for n in names])


class MarkerShape(Shape):
    sort = MK

    def __init__(self, theory):
        self.theory = theory

    def fresh(self, name):
        return AbsObj(z3.Const(fresh_name(name), MK), self.theory)

    def enc(self, v):
        if isinstance(v, AbsObj):
            return v.term
        if isinstance(v, Opt):
            return v.val
        if z3.is_expr(v) and v.sort() == MK:
            return v
        raise OutsideSubset(f"not a marker: {v!r}")

    def dec(self, t):
        return AbsObj(t, self.theory)

    def eq_terms(self, ex, a, b):
        return eqm(a, b)


class _Method:
    def __init__(self, fn):
        self.fn = fn


class DocShape(Shape):
    sort = DOC

    def fresh(self, name):
        return z3.Const(fresh_name(name), DOC)

    def enc(self, v):
        if z3.is_expr(v) and v.sort() == DOC:
            return v
        raise OutsideSubset(f"not a document: {v!r}")

    def dec(self, t):
        return t


class Joined:
    """' and '.join(docs) / ' or '.join(docs)"""

    def __init__(self, op, docs):
        self.op, self.docs = op, docs


class MarkerTheory:
    def __init__(self, index):
        self.index = index
        self.shape = MarkerShape(self)
        self.lshape = ListS(self.shape)
        self.dshape = DocShape()
        self.method_contracts = {}     # (method name) -> callable(ex, self_obj, args) used at call sites
        self.binop_law = None
        self.construct_law = {}
        self.func_contracts = {}
        self._axioms = None

    # ---------------------------------------------------------------- axioms derived from the real code
    def class_table(self, ex_factory):
        """is_any()/is_empty() per class, read off the real methods"""
        out = {}
        for c in CLASSES:
            ci = self.index.cls(c)
            row = {}
            for meth in ("is_any", "is_empty"):
                f, _ = self.index.find_method(ci, meth)
                body = [s for s in f.node.body if not (isinstance(s, ast.Expr) and isinstance(s.value, ast.Constant))]
                if len(body) == 1 and isinstance(body[0], ast.Return) and isinstance(body[0].value, ast.Constant) and isinstance(body[0].value.value, bool):
                    row[meth] = body[0].value.value
                else:
                    raise OutsideSubset(f"{c}.{meth} is not a constant predicate")
            out[c] = row
        return out

    def axioms(self, make_exec, with_names=True):
        """with_names=False leaves out the (string-valued) definition of uses/inside on single markers: the combinator
        proofs never look inside a single marker, and keeping strings out of their VCs keeps them in LIA+arrays+UF"""
        if self._axioms is not None:
            return self._axioms if with_names else [a for a in self._axioms if not getattr(a, "_names", False)]
        m, x, y = z3.Const("m!ax", MK), z3.Const("x!ax", MK), z3.Const("y!ax", MK)
        ax = [cls_of(ANY) == CID["AnyMarker"], cls_of(EMPTY) == CID["EmptyMarker"],
              z3.ForAll([m], z3.And(cls_of(m) >= 0, cls_of(m) < len(CLASSES), nkids(m) >= 0)),
              z3.ForAll([x], eqm(x, x)), z3.ForAll([x, y], eqm(x, y) == eqm(y, x)),
              # C13 interchangeability (law proved for atoms by the C13 check, bounded for compounds)
              z3.ForAll([x, y], z3.Implies(eqm(x, y), z3.And(ev(x) == ev(y), cls_of(x) == cls_of(y), uses(x) == uses(y)))),
              z3.ForAll([x], z3.Implies(is_cls(x, "AnyMarker", "EmptyMarker"), z3.Not(uses(x))))]
        self.table = self.class_table(make_exec)
        # evaluate() bodies, executed symbolically on an abstract instance of each class
        m0 = z3.Const("m!def", MK)
        for c in CLASSES:
            if c in SINGLE:
                continue
            ex = make_exec()
            f, _ = self.index.find_method(self.index.cls(c), "evaluate")
            outcomes, _ = ex.explore(lambda e, f=f: e.call_function(f, [AbsObj(m0, self), EnvToken(), "metadata"]), [cls_of(m0) == CID[c]])
            if len(outcomes) != 1 or outcomes[0].kind != "return":
                raise OutsideSubset(f"{c}.evaluate does not execute to a single expression")
            val = outcomes[0].value
            val = val if z3.is_expr(val) else z3.BoolVal(bool(val))
            ax.append(z3.ForAll([m], z3.Implies(cls_of(m) == CID[c], ev(m) == z3.substitute(val, (m0, m)))))
            # a compound mentions a variable iff one of its children does (definition of `uses` on compounds)
            if c in ("MultiMarker", "MarkerUnion"):
                i = z3.Int("i!ax")
                ax.append(z3.ForAll([m], z3.Implies(cls_of(m) == CID[c], uses(m) == z3.Exists([i], z3.And(0 <= i, i < nkids(m), uses(z3.Select(kids(m), i)))))))
        nm = z3.ForAll([m], z3.Implies(is_cls(m, *SINGLE), z3.And(uses(m) == (name_of(m) == X), inside(m) == in_names(name_of(m)))))
        nm._names = True
        ax.append(nm)
        ax.append(z3.ForAll([m], z3.Implies(is_cls(m, "AnyMarker", "EmptyMarker"), inside(m))))
        i2 = z3.Int("j!ax")
        ax.append(z3.ForAll([m], z3.Implies(is_cls(m, "MultiMarker", "MarkerUnion"),
                                            inside(m) == z3.ForAll([i2], z3.Implies(z3.And(0 <= i2, i2 < nkids(m)), inside(z3.Select(kids(m), i2)))))))
        ax.append(z3.ForAll([x, y], z3.Implies(eqm(x, y), inside(x) == inside(y))))
        # documents: the contract of str() on children (assumed recursively), and of parenthesising
        d = z3.Const("d!ax", DOC)
        kind_by_cls = {"AnyMarker": K_ANYTOK, "EmptyMarker": K_EMPTYTOK, "MarkerExpression": K_ATOM, "EqualityMarkerUnion": K_OR, "InequalityMultiMarker": K_AND,
                       "MultiMarker": K_AND, "MarkerUnion": K_OR}
        for c, k in kind_by_cls.items():
            ax.append(z3.ForAll([m], z3.Implies(cls_of(m) == CID[c], dkind(doc_of(m)) == k)))
        ax.append(z3.ForAll([m], dsem(doc_of(m)) == ev(m)))
        ax.append(z3.ForAll([d], z3.And(dkind(paren(d)) == K_PAREN, dsem(paren(d)) == dsem(d))))
        self._axioms = ax
        return ax if with_names else [a for a in ax if not getattr(a, "_names", False)]

    # ---------------------------------------------------------------- executor protocol
    def external(self, ex, mod, name):
        return None

    def law(self, ex, op, *vals):
        return None

    def isinstance(self, ex, v, c):
        if isinstance(c, ClassRef):
            names = [k for k in CLASSES if ex.index.is_subclass(ex.index.cls(k), c.cinfo.name)]
            if not names:
                return False
            if len(names) == len(CLASSES):
                return True
            return z3.simplify(is_cls(v.term, *names))
        return False

    def getattr(self, ex, o, attr):
        t = o.term
        if attr in ("is_any", "is_empty"):
            names = [c for c in CLASSES if self.table[c][attr]]
            return _Method(lambda: z3.simplify(is_cls(t, *names)) if names else False)
        if attr == "markers":
            if ex.branch(z3.Not(is_cls(t, "MultiMarker", "MarkerUnion"))):
                raise RaiseEx("AttributeError", "markers")
            return AList(self.shape, kids(t), z3.IntVal(0), nkids(t), True)
        if attr == "evaluate":
            return _Method(lambda *a: ev(t))
        if attr == "name":
            if ex.branch(z3.Not(is_cls(t, *SINGLE))):
                raise RaiseEx("AttributeError", "name")
            return name_of(t)
        if attr in ("exclude", "only", "without_extras") and ex.decide(is_cls(t, *SINGLE)) is True:
            from ..values import BoundMethod
            f, _ = self.index.find_method(self.index.cls("SingleMarker"), attr)
            return BoundMethod(o, f)       # the real SingleMarker method (inlined, or its contract if the task says so)
        if attr == "complexity":
            return z3.Int(fresh_name("complexity"))      # only used as a sort key: an unconstrained measure
        if attr == "of":
            from ..values import BoundMethod
            for kind in ("MultiMarker", "MarkerUnion"):
                if ex.decide(is_cls(t, kind)) is True:
                    f, _ = self.index.find_method(self.index.cls(kind), "of")
                    return BoundMethod(ClassRef(self.index.cls(kind)), f)
            raise OutsideSubset("of() on a marker of unknown class")
        if attr in self.method_contracts and self.method_contracts[attr] is not None:
            fn = self.method_contracts[attr]
            return _Method(lambda *a, **k: fn(ex, o, list(a)))
        raise OutsideSubset(f"attribute {attr} of an abstract marker")

    def iterate(self, ex, o):
        """__iter__ of MultiMarker / MarkerUnion (the real methods return iter(self.markers))"""
        if ex.branch(z3.Not(is_cls(o.term, "MultiMarker", "MarkerUnion"))):
            raise RaiseEx("TypeError", "marker is not iterable")
        return AList(self.shape, kids(o.term), z3.IntVal(0), nkids(o.term), True)

    def call_other(self, ex, f, args, kw):
        if isinstance(f, _Method):
            return f.fn(*args)
        return NotImplemented

    # ---- text
    def to_str(self, ex, x):
        if isinstance(x, AbsObj):
            return doc_of(x.term)
        if z3.is_expr(x) and x.sort() == DOC:
            return x
        return None

    def str_concat(self, ex, parts):
        if len(parts) == 3 and parts[0] == "(" and parts[2] == ")" and z3.is_expr(parts[1]) and parts[1].sort() == DOC:
            return paren(parts[1])
        if len(parts) == 1 and z3.is_expr(parts[0]) and parts[0].sort() == DOC:
            return parts[0]
        return None

    def method_builtin(self, ex, recv, name, args, kw):
        if name == "join" and recv in (" and ", " or ") and args and isinstance(args[0], AList) and args[0].shape is self.dshape:
            return Joined("and" if recv == " and " else "or", args[0])
        return NotImplemented

    def builtin(self, ex, name, args, kw):
        from ..calls import StarArgs
        if name in ("itertools.product", "product") and len(args) == 1 and isinstance(args[0], StarArgs) and getattr(self, "product_contract", None) is not None:
            return self.product_contract(ex, args[0].alist)
        return NotImplemented

    def binop(self, ex, name, a, b):
        if self.binop_law is None:
            raise OutsideSubset(f"{name} on abstract markers without a law contract")
        return self.binop_law(ex, name, a, b)

    def equals(self, ex, l, r):
        if isinstance(l, NameOf) or isinstance(r, NameOf):
            return NotImplemented
        if isinstance(l, AbsObj) and isinstance(r, AbsObj):
            return eqm(l.term, r.term)
        return False

    def contains(self, ex, container, item):
        raise OutsideSubset("`in` on an abstract marker")

    def construct(self, ex, cls, args, kwargs):
        if cls.name == "AnyMarker":
            return AbsObj(ANY, self)
        if cls.name == "EmptyMarker":
            return AbsObj(EMPTY, self)
        if cls.name in self.construct_law:
            return self.construct_law[cls.name](ex, args)
        return NotImplemented

    def identical(self, ex, l, r):
        return None

    def hash_of(self, ex, v):
        raise OutsideSubset("hash of abstract marker")


class EnvToken:
    """the (ghost) environment argument of evaluate(); opaque"""


class NameOf:
    """m.name of an abstract single marker; only compared with the ghost variable / membership in the ghost name set"""

    def __init__(self, term):
        self.term = term
