"""T-TAG: formatted tag strings as terms of free constructors.  An f-string with integer holes becomes
Fmt.mk(template id, a1, a2, a3); two renderings are equal iff template and arguments are equal (A-STRFMT: the
renderings are injective on the tag algebra; checked exhaustively on the C09 grid by the bounded part)."""
from __future__ import annotations

import z3

from ..values import Obj, Opt, OutsideSubset, Shape, fresh_name
from .spec import SpecTheory

FmtDT = z3.Datatype("Fmt")
FmtDT.declare("mk", ("tid", z3.IntSort()), ("a1", z3.IntSort()), ("a2", z3.IntSort()), ("a3", z3.IntSort()))
FmtDT = FmtDT.create()

TEMPLATES: dict[str, int] = {}


def tid_of(template):
    if template not in TEMPLATES:
        TEMPLATES[template] = len(TEMPLATES) + 1
    return TEMPLATES[template]


def tag(template, *args):
    """spec-side constructor: tag('manylinux_{}_{}_x86_64', major, minor)"""
    a = [x if z3.is_expr(x) else z3.IntVal(x) for x in args] + [z3.IntVal(0)] * (3 - len(args))
    return FmtDT.mk(z3.IntVal(tid_of(template)), *a)


def is_template(t, template):
    return FmtDT.tid(t) == tid_of(template)


class FmtShape(Shape):
    sort = FmtDT

    def fresh(self, name):
        return z3.Const(fresh_name(name), FmtDT)

    def enc(self, v):
        if isinstance(v, str):
            if "{" in v:
                raise OutsideSubset("brace in tag string")
            return tag(v)
        if z3.is_expr(v) and v.sort() == FmtDT:
            return v
        raise OutsideSubset(f"not a tag: {v!r}")

    def dec(self, t):
        return t


class TagTheory(SpecTheory):
    def __init__(self, index, laws=None):
        super().__init__(index, laws)
        self.fshape = FmtShape()

    def to_str(self, ex, x):
        if z3.is_expr(x) and z3.is_int(x):
            return x            # an integer hole of a template
        if z3.is_expr(x) and x.sort() == FmtDT:
            return x
        return None

    def str_concat(self, ex, parts):
        if any(z3.is_expr(p) and z3.is_string(p) for p in parts):
            return None
        tmpl, args = "", []
        for p in parts:
            if isinstance(p, str):
                if "{" in p:
                    raise OutsideSubset("brace in tag string")
                tmpl += p
            elif z3.is_expr(p) and z3.is_int(p):
                tmpl += "{}"
                args.append(p)
            else:
                raise OutsideSubset(f"f-string part {p!r}")
        if len(args) > 3:
            raise OutsideSubset("more than three holes in a tag template")
        return tag(tmpl, *args)

    def enum_member(self, cname, member):
        cls = self.index.cls(cname)
        return Obj(cls, {"_name_": member, "value": None})

    def coerce_eq(self, l, r):
        if z3.is_expr(l) and l.sort() == FmtDT and isinstance(r, str):
            return l, self.fshape.enc(r)
        if z3.is_expr(r) and r.sort() == FmtDT and isinstance(l, str):
            return self.fshape.enc(l), r
        return l, r
