"""T-VER: structured PEP 440 versions and specifier texts (C06 / C11 / C17-shape).

A version is (epoch, release list, pre?, post?, dev?, suffix code, ord).  `==`/`<` on versions read `ord` (A-ORD).
A-VER (stated once, trusted): two versions with equal epoch, equal zero-padded releases and no suffix are the same version
(same `ord`); the texts the library renders denote what PEP 440 says (`~=V` = [V, next series of V without its last segment),
`==P.*` = [P.0, (P+1).0), `!=` forms their complements), which is what the *parsing* contracts below establish for
`_from_pkg_specifier`.  Rendered text is kept as a structured value (list of clauses), not as characters."""
from __future__ import annotations

import z3

from ..values import AbsObj, AList, INT, ListS, NOTIMPL, Obj, Opt, OutsideSubset, RaiseEx, Shape, SliceView, fresh_name

VerDT = z3.Datatype("Ver")
VerDT.declare("mk", ("epoch", z3.IntSort()), ("rel", z3.ArraySort(z3.IntSort(), z3.IntSort())), ("n", z3.IntSort()),
              ("pre", z3.BoolSort()), ("post", z3.BoolSort()), ("dev", z3.BoolSort()), ("sfx", z3.IntSort()), ("ord", z3.RealSort()))
VerDT = VerDT.create()
V = VerDT
INTL = ListS(INT, is_tuple=True)


_SEGMENT_NUMBER = {a: z3.Function("ver_" + a + "_segment", VerDT, z3.IntSort()) for a in ("pre", "post", "dev")}


def ver_wf(t):
    i = z3.Int(fresh_name("vi"))
    return z3.And(V.epoch(t) >= 0, V.n(t) >= 1, z3.ForAll([i], z3.Implies(z3.And(0 <= i, i < V.n(t)), z3.Select(V.rel(t), i) >= 0)),
                  (V.sfx(t) == 0) == z3.Not(z3.Or(V.pre(t), V.post(t), V.dev(t))))


def suffix_free(t):
    return z3.Not(z3.Or(V.pre(t), V.post(t), V.dev(t)))


def pad(arr, n, i):
    return z3.If(z3.And(0 <= i, i < n), z3.Select(arr, i), 0)


class VersionText:
    """str(version) inside rendered text"""

    def __init__(self, term):
        self.term = term


class EpochText:
    def __init__(self, epoch):
        self.epoch = epoch          # z3 Int; text is f"{epoch}!"


class JoinDots:
    """'.'.join(map(str, ints))"""

    def __init__(self, ints):
        self.ints = ints            # AList of Int


class MapStr:
    def __init__(self, seq):
        self.seq = seq


class SpecText:
    """rendered specifier text as a list of clauses: (op, payload); op in '', '<', '<=', '>', '>=', '==', '!=', '~=',
    '!=*' (payload = (epoch term or None, JoinDots prefix)), '==*'"""

    def __init__(self, clauses):
        self.clauses = clauses

    def __repr__(self):
        return "SpecText(%s)" % ",".join(c[0] for c in self.clauses)


class UnionText:
    """'||'.join(str(r) for r in ranges)"""

    def __init__(self, parts):
        self.parts = parts


class SetOfList:
    def __init__(self, alist):
        self.alist = alist


class VerShape(Shape):
    sort = VerDT

    def __init__(self, theory):
        self.theory = theory

    def fresh(self, name):
        return z3.Const(fresh_name(name), VerDT)

    def enc(self, v):
        if isinstance(v, AbsObj):
            return v.term
        return v

    def dec(self, t):
        return AbsObj(t, self.theory)


class VerTheory:
    def __init__(self, index):
        self.index = index
        self.vshape = VerShape(self)
        self.laws = {}

    def law(self, ex, op, *vals):
        return None

    # ---- symbolic inputs
    def sym_version(self, name):
        return z3.Const(fresh_name(name), VerDT)

    def sym_opt_version(self, name):
        return Opt(z3.Bool(fresh_name(name + "_has")), self.sym_version(name), "version")

    def sym_range(self, name, with_simplified=False):
        return Obj(self.index.cls("RangeSpecifier"), {
            "min": self.sym_opt_version(name + "_min"), "max": self.sym_opt_version(name + "_max"),
            "include_min": z3.Bool(fresh_name(name + "_imin")), "include_max": z3.Bool(fresh_name(name + "_imax")), "simplified": None})

    def range_pre(self, r):
        """type invariant + validity (non-degenerate) of a range over structured versions"""
        mn, mx = r.fields["min"], r.fields["max"]
        imin, imax = r.fields["include_min"], r.fields["include_max"]
        return z3.And(z3.Implies(mn.has, ver_wf(mn.val)), z3.Implies(mx.has, ver_wf(mx.val)),
                      z3.Implies(z3.Not(mn.has), z3.Not(imin)), z3.Implies(z3.Not(mx.has), z3.Not(imax)),
                      z3.Implies(z3.And(mn.has, mx.has), z3.Or(V.ord(mn.val) < V.ord(mx.val), z3.And(V.ord(mn.val) == V.ord(mx.val), imin, imax))))

    # ---- executor hooks
    def external(self, ex, mod, name):
        if mod.startswith("packaging") and name == "Version":
            return _VersionCtor()
        if mod.startswith("packaging") and name == "SpecifierSet":
            return _SpecifierSetCtor()
        return None

    def opt_unwrap(self, ex, o):
        if o.kind == "version":
            return AbsObj(o.val, self)
        return None

    def opt_eq(self, ex, l, r):
        if isinstance(l, Opt) and isinstance(r, Opt) and l.kind == r.kind == "version":
            return z3.And(l.has == r.has, z3.Implies(l.has, V.ord(l.val) == V.ord(r.val)))
        return None

    def getattr(self, ex, o, attr):
        t = o.term
        if attr == "epoch":
            return V.epoch(t)
        if attr == "release":
            return AList(INT, V.rel(t), z3.IntVal(0), V.n(t), True)
        if attr == "is_prerelease":
            return z3.Or(V.pre(t), V.dev(t))
        if attr == "is_postrelease":
            return V.post(t)
        if attr == "is_devrelease":
            return V.dev(t)
        if attr in ("pre", "post", "dev"):
            # packaging: `pre` is None or an ("a"|"b"|"rc", N) pair, `post` / `dev` are None or the segment's number (N >= 0).  The flag says
            # whether the segment is there; its number is an unconstrained non-negative integer (T-VER orders versions by `ord`, not by it)
            flag = {"pre": V.pre, "post": V.post, "dev": V.dev}[attr](t)
            num = _SEGMENT_NUMBER[attr](t)        # a function of the version, so that two reads of one version agree
            if attr == "pre":
                return Opt(flag, num, "pair")
            ex.assume(num >= 0)
            return Opt(flag, num, "int")
        raise OutsideSubset(f"Version.{attr}")

    def equals(self, ex, l, r):
        if isinstance(l, AbsObj) and isinstance(r, AbsObj):
            return V.ord(l.term) == V.ord(r.term)
        return False

    def isinstance(self, ex, v, c):
        return False

    def to_str(self, ex, x):
        if isinstance(x, Opt) and x.kind == "version":
            if ex.branch(z3.Not(x.has)):
                return "None"
            return VersionText(x.val)
        if isinstance(x, AbsObj):
            return VersionText(x.term)
        if z3.is_expr(x) and z3.is_int(x):
            return IntText(x)
        if isinstance(x, (VersionText, JoinDots, SpecText, EpochText, UnionText, RelText, IntText, SpecStr, PaddedText)):
            return x
        if isinstance(x, PkgSpec):
            return SpecStr(x)
        return None

    def str_concat(self, ex, parts):
        parts = [p for p in parts if not (isinstance(p, str) and p == "")]
        if not parts:
            return ""
        if all(isinstance(p, str) for p in parts):
            return "".join(parts)
        if len(parts) == 2 and isinstance(parts[0], (VersionText, PaddedText)) and parts[1] == ".0":
            base = parts[0]
            return PaddedText(base.term, (base.zeros if isinstance(base, PaddedText) else 0) + 1)
        if len(parts) == 2 and isinstance(parts[0], (RelText, JunkText)) and getattr(parts[0], "wild", True) and isinstance(parts[1], str):
            return JunkText(parts)        # "1.2.*" + ".0": text that is no version / wildcard any more
        # "<int>!" -> epoch prefix
        if len(parts) == 2 and isinstance(parts[0], IntText) and parts[1] == "!":
            return EpochText(parts[0].term)
        # [epoch] JoinDots [".*"]
        if any(isinstance(p, JoinDots) for p in parts):
            ep = next((p for p in parts if isinstance(p, EpochText)), None)
            jd = next(p for p in parts if isinstance(p, JoinDots))
            wild = ".*" in parts
            op = parts[0] if isinstance(parts[0], str) and parts[0] in ("!=", "==") else None
            rest = [p for p in parts if p is not ep and p is not jd and p != ".*" and p != op]
            if rest:
                raise OutsideSubset(f"unrecognised text {parts!r}")
            if op is None:
                return RelText(ep, jd, wild)
            return SpecText([(op + "*" if wild else op, (ep, jd))])
        if any(isinstance(p, RelText) for p in parts):
            rt = next(p for p in parts if isinstance(p, RelText))
            ep = next((p for p in parts if isinstance(p, EpochText)), rt.epoch)
            op = parts[0] if isinstance(parts[0], str) and parts[0] in ("!=", "==") else None
            rest = [p for p in parts if p is not rt and p is not ep and p != op]
            if rest:
                raise OutsideSubset(f"unrecognised text {parts!r}")
            if op is None:
                return RelText(ep, rt.ints, rt.wild)
            return SpecText([(op + "*" if rt.wild else op, (ep, rt.ints))])
        # clauses: op VersionText [, op VersionText]
        clauses, i = [], 0
        while i < len(parts):
            p = parts[i]
            if isinstance(p, str) and p in ("<", "<=", ">", ">=", "==", "!=", "~=") and i + 1 < len(parts) and isinstance(parts[i + 1], VersionText):
                clauses.append((p, parts[i + 1].term))
                i += 2
                if i < len(parts):
                    if parts[i] != ",":
                        raise OutsideSubset(f"unrecognised text {parts!r}")
                    i += 1
            else:
                raise OutsideSubset(f"unrecognised text {parts!r}")
        return SpecText(clauses)

    def list_repeat(self, ex, lst, k):
        """[0] * k  with symbolic k"""
        if len(lst) != 1:
            raise OutsideSubset("list repetition of a non-singleton")
        x = lst[0]
        arr = z3.K(z3.IntSort(), x if z3.is_expr(x) else z3.IntVal(x))
        n = z3.If(k < 0, 0, k)
        return AList(INT, arr, z3.IntVal(0), n)

    def builtin(self, ex, name, args, kw):
        if name == "map" and len(args) == 2 and getattr(args[0], "name", None) == "str" and isinstance(args[1], (AList, SliceView)):
            return MapStr(args[1])
        if name == "set" and args and type(args[0]).__name__ in ("AList", "SliceView", "ConcatView"):
            return SetOfList(args[0])
        return NotImplemented

    def method_builtin(self, ex, recv, name, args, kw):
        if name == "count" and args == ["."] and isinstance(recv, (VersionText, PaddedText)):
            t = recv.term
            if ex.branch(z3.Not(suffix_free(t))):
                raise OutsideSubset("dot count of a version text with pre/post/dev segments")
            return z3.simplify(V.n(t) - 1 + (recv.zeros if isinstance(recv, PaddedText) else 0))
        if name == "count" and args == ["."] and isinstance(recv, RelText):
            return recv.ints.ints.n - 1 + (1 if recv.wild else 0)
        if name == "join" and recv == "||" and args and isinstance(args[0], list):
            return UnionText(list(args[0]))
        if name == "join" and recv == "." and args and isinstance(args[0], MapStr):
            seq = args[0].seq
            if isinstance(seq, SliceView):
                seq = ex.materialize(seq)
            return JoinDots(seq)
        return NotImplemented

    def coerce_eq(self, l, r):
        return l, r

    def getattr_other(self, ex, o, attr):
        if isinstance(o, PkgSpec) and attr in ("operator", "version"):
            return getattr(o, attr)
        return None

    def equals_other(self, ex, l, r):
        """== of two texts: texts of the same kind are equal iff their parts are; a text with appended '.0' segments never equals the unpadded one"""
        if isinstance(l, VersionText) and isinstance(r, VersionText):
            return l.term == r.term
        for a, c in ((l, r), (r, l)):
            if isinstance(a, PaddedText) and isinstance(c, VersionText):
                return False if a.zeros > 0 and a.term is c.term else None
        if isinstance(l, PaddedText) and isinstance(r, PaddedText) and l.term is r.term:
            return l.zeros == r.zeros
        return None

    def contains_other(self, ex, container, item):
        if isinstance(container, (VersionText, RelText, PaddedText)) and item == "*":
            return isinstance(container, RelText) and container.wild
        return None

    def slice_other(self, ex, base, lo, hi):
        if isinstance(base, RelText) and base.wild and lo is None and hi == -2:
            return RelText(base.epoch, base.ints, False)
        return None

    def call_other(self, ex, f, args, kw):
        if isinstance(f, _VersionCtor):
            return self.version_from_text(ex, args[0])
        if isinstance(f, _SpecifierSetCtor):
            return self.specifierset_from_text(ex, args[0])
        return NotImplemented

    def specifierset_from_text(self, ex, text):
        """A-PKG-PARSE: SpecifierSet(text) holds exactly the comma-separated clauses of the rendered text"""
        if isinstance(text, str) and text == "":
            return []
        if isinstance(text, SpecText):
            out = []
            for op, payload in text.clauses:
                if op in ("!=*", "==*"):
                    ep, jd = payload
                    out.append(PkgSpec(op[:-1], RelText(ep, jd, True)))
                else:
                    out.append(PkgSpec(op, VersionText(payload)))
            return out
        if isinstance(text, SpecStr):
            return [text.spec]
        raise OutsideSubset(f"SpecifierSet({text!r})")

    def version_from_text(self, ex, text):
        """A-PKG-PARSE: Version(str(v)) == v; Version('<E>!' + '.'.join(ints)) has epoch E, that release, no suffix"""
        if isinstance(text, VersionText):
            return AbsObj(text.term, self)
        if isinstance(text, PaddedText):
            # A-PKG-PARSE + A-VER: appending ".0" to the text of a suffix-free version gives the same version with a longer release
            v = text.term
            t = self.sym_version("padded")
            i = z3.Int(fresh_name("pi"))
            ex.assume(z3.Implies(suffix_free(v), z3.And(suffix_free(t), V.sfx(t) == 0, V.epoch(t) == V.epoch(v), V.n(t) == V.n(v) + text.zeros, V.ord(t) == V.ord(v),
                                                    z3.ForAll([i], z3.Implies(i >= 0, pad(V.rel(t), V.n(t), i) == pad(V.rel(v), V.n(v), i))))))
            return AbsObj(t, self)
        if isinstance(text, JoinDots):
            text = RelText(None, text, False)
        if isinstance(text, RelText) and not text.wild:
            t = self.sym_version("parsed")
            ints = text.ints.ints
            i = z3.Int(fresh_name("pi"))
            ex.assume(z3.And(V.epoch(t) == (text.epoch.epoch if text.epoch is not None else 0), V.n(t) == ints.n, suffix_free(t), V.sfx(t) == 0,
                             z3.ForAll([i], z3.Implies(z3.And(0 <= i, i < ints.n), z3.Select(V.rel(t), i) == z3.Select(ints.arr, i)))))
            return AbsObj(t, self)
        raise OutsideSubset(f"Version({text!r})")


class JunkText:
    """text that neither packaging nor dep-logic reads as a version or a wildcard (e.g. "1.*" + ".0")"""

    def __init__(self, parts):
        self.parts = parts


class PaddedText:
    """str(version) + k times ".0" """

    def __init__(self, term, zeros):
        self.term, self.zeros = term, zeros


class PkgSpec:
    """a packaging.specifiers.Specifier: operator (concrete) and version text; `wild` for the X.* forms"""

    def __init__(self, operator, version_text):
        self.operator, self.version = operator, version_text


class SpecStr:
    """str(spec) of a packaging Specifier (the original clause text)"""

    def __init__(self, spec):
        self.spec = spec


class IntText:
    def __init__(self, term):
        self.term = term


class RelText:
    """[epoch!]a.b.c[.*]"""

    def __init__(self, epoch, ints, wild):
        self.epoch, self.ints, self.wild = epoch, ints, wild


class _VersionCtor:
    pass


class _SpecifierSetCtor:
    pass
