"""Theory for C08/C16: requires_python as an abstract set of versions (uninterpreted predicate over the version order)
whose `&`/is_empty() behave as the C01/C05 laws promise; parse_version_specifier on *concrete* tag-derived texts by shape."""
from __future__ import annotations

import re

import z3

from ..values import AbsObj, Obj, Opt, OutsideSubset, RaiseEx, fresh_name
from . import spec as T
from .tags import TagTheory


def ver(x, y=0, z=0):
    """order-preserving embedding of X.Y.Z (components < 1000) into the reals"""
    return z3.RealVal(x * 1000000 + y * 1000 + z)


class RPSet:
    """an abstract set of versions: pred(p) -> z3 Bool"""

    def __init__(self, pred, label):
        self.pred, self.label = pred, label


class EnvTheory(TagTheory):
    def __init__(self, index):
        super().__init__(index)
        self.eq_rel = z3.Function("spec_eq", z3.IntSort(), z3.IntSort(), z3.BoolSort())

    def fresh_rp(self, name):
        f = z3.Function(fresh_name(name), z3.RealSort(), z3.BoolSort())
        o = AbsObj(RPSet(lambda p: f(p), name), self)
        o.ident = z3.Int(fresh_name(name + "_id"))
        return o

    # ---- AbsObj protocol
    def binop(self, ex, name, a, b):
        if name != "__and__":
            raise OutsideSubset(f"{name} on abstract requires_python")
        pa, pb = self._pred(a), self._pred(b)
        return AbsObj(RPSet(lambda p: z3.And(pa(p), pb(p)), "inter"), self)

    def _pred(self, v):
        if isinstance(v, AbsObj):
            return v.term.pred
        if isinstance(v, Obj) and v.cls.name == "RangeSpecifier":
            t = T.rterm(v)
            return lambda p: T.in_range(t, p)
        if isinstance(v, Obj) and v.cls.name == "EmptySpecifier":
            return lambda p: z3.BoolVal(False)
        raise OutsideSubset(f"set of {v!r}")

    def getattr(self, ex, o, attr):
        if attr == "is_empty":
            return _Method(lambda: self.is_empty(ex, o))
        raise OutsideSubset(f"attribute {attr} of abstract requires_python")

    def is_empty(self, ex, o):
        """law.C05.empty-exact (consequence of the C01/C05 contracts under the dense idealisation):
        (a & b).is_empty()  <=>  no version lies in both"""
        e = z3.Bool(fresh_name("is_empty"))
        p = z3.Real(fresh_name("p"))
        ex.assume(e == z3.Not(z3.Exists([p], o.term.pred(p))))
        return e

    def isinstance(self, ex, v, c):
        from ..values import ClassRef
        if isinstance(c, ClassRef):
            return c.cinfo.name in ("BaseSpecifier", "VersionSpecifier")
        return False

    def equals(self, ex, l, r):
        if isinstance(l, AbsObj) and isinstance(r, AbsObj):
            if l is r:
                return True
            return self.spec_equal(l, r)
        return False

    def spec_equal(self, l, r):
        """== on two abstract specifiers: an equivalence (C13) that implies equal sets (C13 interchangeability)"""
        return self.eq_rel(l.ident, r.ident)

    def call_other(self, ex, f, args, kw):
        if isinstance(f, _Method):
            return f.fn()
        return NotImplemented


class _Method:
    def __init__(self, fn):
        self.fn = fn


_GE = re.compile(r"^>=(\d+)\.(\d+)$")
_EQW2 = re.compile(r"^==(\d+)\.(\d+)\.\*$")
_EQW1 = re.compile(r"^==(\d+)\.\*$")
_GE_EQW1 = re.compile(r"^>=(\d+)\.(\d+),==(\d+)\.\*$")


def parse_by_shape(index, text):
    """A-PARSE-SHAPE: what parse_version_specifier returns on the texts _evaluate_python builds (guarded by the bounded part):
    '>=X.Y' -> [X.Y, inf); '==X.Y.*' -> [X.Y.0, X.(Y+1).0); '==X.*' -> [X.0, (X+1).0); '>=X.Y,==X.*' -> their intersection;
    anything else built from a non-numeric tag -> InvalidSpecifier."""
    R = index.cls("RangeSpecifier")

    def rng(lo, hi):
        return Obj(R, {"min": Opt(z3.BoolVal(True), lo), "max": Opt(z3.BoolVal(hi is not None), hi if hi is not None else z3.RealVal(0)),
                       "include_min": z3.BoolVal(True), "include_max": z3.BoolVal(False), "simplified": None})
    m = _GE.match(text)
    if m:
        return rng(ver(int(m.group(1)), int(m.group(2))), None)
    m = _EQW2.match(text)
    if m:
        x, y = int(m.group(1)), int(m.group(2))
        return rng(ver(x, y), ver(x, y + 1))
    m = _EQW1.match(text)
    if m:
        x = int(m.group(1))
        return rng(ver(x), ver(x + 1))
    m = _GE_EQW1.match(text)
    if m:
        x, y, x2 = int(m.group(1)), int(m.group(2)), int(m.group(3))
        if x == x2:
            return rng(ver(x, y), ver(x + 1))
        raise OutsideSubset("mixed majors in a tag-derived specifier")
    raise RaiseEx("InvalidSpecifier", f"not a specifier: {text!r}")
