"""T-ORD / T-RNG / T-SPEC: versions as an abstract dense total order (Real), ranges, specifier sums."""
from __future__ import annotations

import z3

from ..values import (AList, Obj, Opt, OutsideSubset, Shape, SymObj, ListS, ClassRef, Builtin, NOTIMPL, fresh_name,
                      RaiseEx)

RangeDT = z3.Datatype("Range")
RangeDT.declare("mk", ("hmin", z3.BoolSort()), ("mn", z3.RealSort()), ("imin", z3.BoolSort()),
                ("hmax", z3.BoolSort()), ("mx", z3.RealSort()), ("imax", z3.BoolSort()),
                ("hsimp", z3.BoolSort()), ("simp", z3.StringSort()))
RangeDT = RangeDT.create()
R = RangeDT

SpecDT = z3.Datatype("Spec")
SpecDT.declare("SEmpty")
SpecDT.declare("SAny")
SpecDT.declare("SRng", ("rng", RangeDT))
SpecDT.declare("SUni", ("rs", z3.ArraySort(z3.IntSort(), RangeDT)), ("n", z3.IntSort()), ("uhsimp", z3.BoolSort()), ("usimp", z3.StringSort()))
SpecDT = SpecDT.create()

V = z3.Real("v!ghost")          # the pointwise ghost version


def _b(x):
    return x if z3.is_expr(x) else z3.BoolVal(bool(x))


def opt_of(x, kind="ver"):
    if isinstance(x, Opt):
        return x
    if x is None:
        return Opt(z3.BoolVal(False), z3.RealVal(0) if kind == "ver" else z3.StringVal(""), kind)
    if isinstance(x, str):
        return Opt(z3.BoolVal(True), z3.StringVal(x), "str")
    if z3.is_expr(x):
        return Opt(z3.BoolVal(True), x, "str" if z3.is_string(x) else "ver")
    raise OutsideSubset(f"optional field value {x!r}")


class RangeShape(Shape):
    sort = RangeDT

    def __init__(self, index):
        self.index = index
        self.cls = index.cls("RangeSpecifier")

    def fresh(self, name):
        return self.dec(z3.Const(fresh_name(name), RangeDT))

    def enc(self, o):
        if isinstance(o, SymObj):
            return SpecDT.rng(o.term)
        f = o.fields
        mn, mx, sp = opt_of(f["min"]), opt_of(f["max"]), opt_of(f.get("simplified"), "str")
        return RangeDT.mk(mn.has, mn.val, _b(f["include_min"]), mx.has, mx.val, _b(f["include_max"]), sp.has, sp.val)

    def dec(self, t):
        t = z3.simplify(t)
        return Obj(self.cls, {
            "min": Opt(z3.simplify(R.hmin(t)), z3.simplify(R.mn(t))), "max": Opt(z3.simplify(R.hmax(t)), z3.simplify(R.mx(t))),
            "include_min": z3.simplify(R.imin(t)), "include_max": z3.simplify(R.imax(t)),
            "simplified": Opt(z3.simplify(R.hsimp(t)), z3.simplify(R.simp(t)), "str")})

    def eq_terms(self, ex, a, b):
        """dataclass __eq__ of RangeSpecifier (compare=False for `simplified`) on encoded terms."""
        return z3.And(R.hmin(a) == R.hmin(b), z3.Implies(R.hmin(a), R.mn(a) == R.mn(b)), R.imin(a) == R.imin(b),
                      R.hmax(a) == R.hmax(b), z3.Implies(R.hmax(a), R.mx(a) == R.mx(b)), R.imax(a) == R.imax(b))


class SpecShape(Shape):
    """A specifier whose class is one of Empty/Any/Range/Union (symbolic)."""
    sort = SpecDT
    CLASSES = ["EmptySpecifier", "AnySpecifier", "RangeSpecifier", "UnionSpecifier"]

    def __init__(self, index, rshape):
        self.index, self.rshape = index, rshape

    def fresh(self, name):
        return SymObj(z3.Const(fresh_name(name), SpecDT), self)

    def enc(self, v):
        if isinstance(v, SymObj):
            return v.term
        n = v.cls.name
        if n == "EmptySpecifier":
            return SpecDT.SEmpty
        if n == "AnySpecifier":
            return SpecDT.SAny
        if n == "RangeSpecifier":
            return SpecDT.SRng(self.rshape.enc(v))
        if n == "UnionSpecifier":
            rs = v.fields["ranges"]
            if not isinstance(rs, AList):
                raise OutsideSubset("encoding a union with concrete tuple")
            sp = opt_of(v.fields.get("simplified"), "str")
            if not (z3.is_int_value(z3.simplify(rs.off)) and z3.simplify(rs.off).as_long() == 0):
                raise OutsideSubset("encoding a union with shifted array")
            return SpecDT.SUni(rs.arr, rs.n, sp.has, sp.val)
        raise OutsideSubset(f"not a specifier: {v!r}")

    def dec_as(self, t, clsname):
        c = self.index.cls(clsname)
        if clsname in ("EmptySpecifier", "AnySpecifier"):
            return Obj(c)
        if clsname == "RangeSpecifier":
            return self.rshape.dec(SpecDT.rng(t))
        return Obj(c, {"ranges": AList(self.rshape, SpecDT.rs(t), z3.IntVal(0), SpecDT.n(t), True),
                       "simplified": Opt(SpecDT.uhsimp(t), SpecDT.usimp(t), "str")})

    def tester(self, t, clsname):
        return {"EmptySpecifier": SpecDT.is_SEmpty, "AnySpecifier": SpecDT.is_SAny, "RangeSpecifier": SpecDT.is_SRng,
                "UnionSpecifier": SpecDT.is_SUni}[clsname](t)

    def concretize(self, ex, v):
        for c in self.CLASSES[:-1]:
            if ex.branch(self.tester(v.term, c)):
                return self.dec_as(v.term, c)
        return self.dec_as(v.term, self.CLASSES[-1])

    def isinstance(self, ex, v, c):
        if isinstance(c, ClassRef):
            names = [k for k in self.CLASSES if ex.index.is_subclass(ex.index.cls(k), c.cinfo.name)]
            if not names:
                return False
            if len(names) == len(self.CLASSES):
                return True
            return z3.simplify(z3.Or(*[self.tester(v.term, k) for k in names]))
        return False


# ---------------------------------------------------------------- specification functions (T-RNG)
def rterm(x, rshape=None):
    """Range term of a RangeSpecifier Obj or a term."""
    if z3.is_expr(x):
        return x
    f = x.fields
    mn, mx, sp = opt_of(f["min"]), opt_of(f["max"]), opt_of(f.get("simplified"), "str")
    return RangeDT.mk(mn.has, mn.val, _b(f["include_min"]), mx.has, mx.val, _b(f["include_max"]), sp.has, sp.val)


def lb_sat(r, v):
    return z3.Or(z3.Not(R.hmin(r)), R.mn(r) < v, z3.And(R.mn(r) == v, R.imin(r)))


def ub_sat(r, v):
    return z3.Or(z3.Not(R.hmax(r)), v < R.mx(r), z3.And(v == R.mx(r), R.imax(r)))


def in_range(r, v):
    return z3.And(lb_sat(r, v), ub_sat(r, v))


def post_init_ok(r):
    return z3.And(z3.Implies(z3.Not(R.hmin(r)), z3.Not(R.imin(r))), z3.Implies(z3.Not(R.hmax(r)), z3.Not(R.imax(r))))


def valid(r):
    """__post_init__ rule + non-degenerate (admits a version in a dense order)."""
    return z3.And(post_init_ok(r),
                  z3.Implies(z3.And(R.hmin(r), R.hmax(r)),
                             z3.Or(R.mn(r) < R.mx(r), z3.And(R.mn(r) == R.mx(r), R.imin(r), R.imax(r)))))


def universal(r):
    return z3.And(z3.Not(R.hmin(r)), z3.Not(R.hmax(r)))


def sep(a, b):
    """a entirely below b and not touching (the union of the two is not an interval)."""
    return z3.And(R.hmax(a), R.hmin(b),
                  z3.Or(R.mx(a) < R.mn(b), z3.And(R.mx(a) == R.mn(b), z3.Not(R.imax(a)), z3.Not(R.imin(b)))))


def below(a, b):
    """a entirely below b, possibly touching (no common point)."""
    return z3.And(R.hmax(a), R.hmin(b),
                  z3.Or(R.mx(a) < R.mn(b), z3.And(R.mx(a) == R.mn(b), z3.Not(z3.And(R.imax(a), R.imin(b))))))


def lb_lt(a, b):
    """lower bound of a admits strictly more than lower bound of b."""
    return z3.And(R.hmin(b), z3.Or(z3.Not(R.hmin(a)), R.mn(a) < R.mn(b), z3.And(R.mn(a) == R.mn(b), R.imin(a), z3.Not(R.imin(b)))))


def ub_gt(a, b):
    return z3.And(R.hmax(b), z3.Or(z3.Not(R.hmax(a)), R.mx(a) > R.mx(b), z3.And(R.mx(a) == R.mx(b), R.imax(a), z3.Not(R.imax(b)))))


def lb_eq(a, b):
    return z3.And(R.hmin(a) == R.hmin(b), z3.Implies(R.hmin(a), z3.And(R.mn(a) == R.mn(b), R.imin(a) == R.imin(b))))


def ub_eq(a, b):
    return z3.And(R.hmax(a) == R.hmax(b), z3.Implies(R.hmax(a), z3.And(R.mx(a) == R.mx(b), R.imax(a) == R.imax(b))))


def within(a, b):
    """bounds of a lie inside bounds of b (a subset of b, stated on bounds)."""
    return z3.And(z3.Not(lb_lt(a, b)), z3.Not(ub_gt(a, b)))


def alist_terms(l):
    return l.arr, l.off, l.n


def den_list(l, v, name="di"):
    i = z3.Int(fresh_name(name))
    return z3.Exists([i], z3.And(0 <= i, i < l.n, in_range(z3.Select(l.arr, i), v)))


def wf_list(l, min_len=2):
    """every element valid, all pairs separated (hence sorted, disjoint, non-touching, none universal if len>=2)."""
    i, j = z3.Int(fresh_name("wi")), z3.Int(fresh_name("wj"))
    at = lambda k: z3.Select(l.arr, k)
    cl = [z3.ForAll([i], z3.Implies(z3.And(0 <= i, i < l.n), valid(at(i)))),
          z3.ForAll([i, j], z3.Implies(z3.And(0 <= i, i < j, j < l.n), sep(at(i), at(j))))]
    if min_len:
        cl.insert(0, l.n >= min_len)
    return z3.And(*cl)


def den(x, v, rshape=None):
    """denotation of a specifier value at version v (T-SPEC)."""
    if isinstance(x, SymObj):
        t = x.term
        i = z3.Int(fresh_name("ds"))
        return z3.If(SpecDT.is_SEmpty(t), False, z3.If(SpecDT.is_SAny(t), True, z3.If(
            SpecDT.is_SRng(t), in_range(SpecDT.rng(t), v),
            z3.Exists([i], z3.And(0 <= i, i < SpecDT.n(t), in_range(z3.Select(SpecDT.rs(t), i), v))))))
    if not isinstance(x, Obj):
        return None
    n = x.cls.name
    if n == "EmptySpecifier":
        return z3.BoolVal(False)
    if n == "AnySpecifier":
        return z3.BoolVal(True)
    if n == "RangeSpecifier":
        return in_range(rterm(x), v)
    if n == "UnionSpecifier":
        rs = x.fields["ranges"]
        if isinstance(rs, AList):
            return den_list(rs, v)
        return z3.Or(*[in_range(rterm(r), v) for r in rs]) if rs else z3.BoolVal(False)
    return None


def wf(x):
    """canonical shape of C05."""
    if isinstance(x, SymObj):
        t = x.term
        l = AList(None, SpecDT.rs(t), z3.IntVal(0), SpecDT.n(t))
        return z3.If(z3.Or(SpecDT.is_SEmpty(t), SpecDT.is_SAny(t)), True,
                     z3.If(SpecDT.is_SRng(t), valid(SpecDT.rng(t)), wf_list(l)))
    if not isinstance(x, Obj):
        return z3.BoolVal(False)
    n = x.cls.name
    if n in ("EmptySpecifier", "AnySpecifier"):
        return z3.BoolVal(True)
    if n == "RangeSpecifier":
        return valid(rterm(x))
    if n == "UnionSpecifier":
        rs = x.fields["ranges"]
        if isinstance(rs, AList):
            if not rs.is_tuple:
                return z3.BoolVal(False)
            return wf_list(rs)
        if not isinstance(rs, tuple) or len(rs) < 2:
            return z3.BoolVal(False)
        ts = [rterm(r) for r in rs]
        return z3.And(*[valid(t) for t in ts], *[sep(a, b) for k, a in enumerate(ts) for b in ts[k + 1:]])
    return z3.BoolVal(False)


def is_spec(x):
    return isinstance(x, SymObj) or (isinstance(x, Obj) and x.cls.name in SpecShape.CLASSES)


class SpecTheory:
    """Theory plug-in for the executor: externals, laws at call sites, hash, etc."""

    def __init__(self, index, laws=None):
        self.index = index
        self.rshape = RangeShape(index)
        self.sshape = SpecShape(index, self.rshape)
        self.laws = laws or {}          # op name -> callable(ex, a, b) -> value   (law contracts used modularly)

    def external(self, ex, mod, name):
        return None

    def law(self, ex, op, *vals):
        return self.laws.get(op)

    HLR = z3.Function("hash_tuple_of_ranges", z3.ArraySort(z3.IntSort(), RangeDT), z3.IntSort(), z3.IntSort())

    def hash_alist(self, ex, l):
        return self.HLR(l.arr, l.n)

    def sym_range(self, name):
        return self.rshape.fresh(name)

    def sym_union(self, name):
        rs = ListS(self.rshape, is_tuple=True).fresh(name)
        sp = Opt(z3.Bool(fresh_name(name + "_hs")), z3.String(fresh_name(name + "_s")), "str")
        return Obj(self.index.cls("UnionSpecifier"), {"ranges": rs, "simplified": sp})

    def sym_of_class(self, cname, name):
        if cname == "RangeSpecifier":
            return self.sym_range(name)
        if cname == "UnionSpecifier":
            return self.sym_union(name)
        return Obj(self.index.cls(cname))


# ---------------------------------------------------------------- counter-model extraction
def _ev(m, t):
    return m.eval(t, model_completion=True)


def _num(x):
    x = z3.simplify(x)
    if z3.is_rational_value(x):
        return [x.numerator_as_long(), x.denominator_as_long()]
    if z3.is_algebraic_value(x):
        a = x.approx(10)
        return [a.numerator_as_long(), a.denominator_as_long()]
    return [0, 1]


def model_range(m, t):
    hmin, hmax = z3.is_true(_ev(m, R.hmin(t))), z3.is_true(_ev(m, R.hmax(t)))
    return {"cls": "RangeSpecifier", "min": _num(_ev(m, R.mn(t))) if hmin else None, "max": _num(_ev(m, R.mx(t))) if hmax else None,
            "include_min": z3.is_true(_ev(m, R.imin(t))), "include_max": z3.is_true(_ev(m, R.imax(t)))}


def model_value(m, v, max_len=8):
    """JSON description of a specifier value under model m (used to replay on the real code)."""
    if v is NOTIMPL:
        return {"cls": "NotImplemented"}
    if isinstance(v, SymObj):
        t = v.term
        for c in SpecShape.CLASSES:
            if z3.is_true(_ev(m, v.shape.tester(t, c))):
                return model_value(m, v.shape.dec_as(t, c), max_len)
        return {"cls": "?"}
    if isinstance(v, Obj):
        n = v.cls.name
        if n == "RangeSpecifier":
            return model_range(m, rterm(v))
        if n == "UnionSpecifier":
            rs = v.fields["ranges"]
            if isinstance(rs, AList):
                ln = _ev(m, rs.n)
                ln = ln.as_long() if z3.is_int_value(ln) else 0
                items = [model_range(m, z3.Select(rs.arr, i)) for i in range(max(0, min(ln, max_len)))]
                return {"cls": "UnionSpecifier", "len": ln, "ranges": items}
            return {"cls": "UnionSpecifier", "len": len(rs), "ranges": [model_range(m, rterm(r)) for r in rs]}
        return {"cls": n}
    if z3.is_expr(v):
        return {"term": str(_ev(m, v))}
    return {"py": repr(v)}


def describe_args(names):
    def describe(m, args, result=None):
        out = {"ghost_v": _num(_ev(m, V))}
        for n, a in zip(names, args or []):
            out[n] = model_value(m, a)
        if result is not None:
            out["result_in_model"] = model_value(m, result)
        return out
    return describe
