"""T-ATOM: single markers with symbolic string fields, OrderedSet values as lists of distinct strings, evaluation at a
ghost environment ENV: variable name -> value.  `collections.abc.Set` mixin operators of OrderedSet are modelled (A-STDLIB)
through the verified contract of OrderedSet.__init__."""
from __future__ import annotations

import z3

from ..values import AList, ListS, NOTIMPL, Obj, Opt, OutsideSubset, RaiseEx, STR, SymObj, fresh_name
from .spec import SpecTheory

ENV = z3.Function("env_value", z3.StringSort(), z3.StringSort())       # the ghost environment (string-valued variables)
OPS4 = ["==", "!=", "in", "not in"]
STRL = ListS(STR)


class EnvMapping:
    """the `environment` argument of _evaluate(): environment[name] is ENV(name)"""


def mem(l, s):
    i = z3.Int(fresh_name("m"))
    return z3.Exists([i], z3.And(0 <= i, i < l.n, z3.Select(l.arr, i) == s))


def distinct(l):
    i, j = z3.Int(fresh_name("p")), z3.Int(fresh_name("q"))
    return z3.ForAll([i, j], z3.Implies(z3.And(0 <= i, i < j, j < l.n), z3.Select(l.arr, i) != z3.Select(l.arr, j)))


class AtomTheory(SpecTheory):
    def __init__(self, index):
        super().__init__(index)
        self.oset_cls = index.cls("OrderedSet")

    # ---- symbolic objects
    def sym_oset(self, name):
        d = STRL.fresh(name)
        return Obj(self.oset_cls, {"_data": d})

    def oset_wf(self, o, min_len=0):
        d = o.fields["_data"]
        return z3.And(d.n >= min_len, distinct(d))

    def sym_atom(self, op, tag):
        return Obj(self.index.cls("MarkerExpression"), {"name": z3.String(fresh_name(tag + "_name")), "op": op, "value": z3.String(fresh_name(tag + "_value")),
                                                       "reversed": False, "_specifier": None})

    def sym_group(self, cname, tag):
        return Obj(self.index.cls(cname), {"name": z3.String(fresh_name(tag + "_name")), "values": self.sym_oset(tag + "_values")})

    # ---- executor hooks
    pkg_valid = False      # True while a version-valued atom is run: packaging's Specifier(op + literal) is then a valid specifier

    def getattr_other(self, ex, o, attr):
        if isinstance(o, _PkgSpecVal) and attr == "contains":
            return _PkgContains(o)
        return None

    def external(self, ex, mod, name):
        if mod.startswith("packaging") and name == "Specifier":
            return _ValidSpecifierCtor() if self.pkg_valid else _InvalidSpecifierCtor()
        return None

    def call_other(self, ex, f, args, kw):
        if isinstance(f, _InvalidSpecifierCtor):
            # string atom: whether op + literal happens to be a PEP 440 specifier is a fact about the literal (`platform_version == "10.0"`):
            # both outcomes are followed
            t = args[0]
            t = t if z3.is_expr(t) else z3.StringVal(t)
            if ex.branch(z3.Not(PKG_VALID(t))):
                raise RaiseEx("PkgInvalidSpecifier", "not a version specifier")
            return _PkgSpecVal(t)
        if isinstance(f, _ValidSpecifierCtor):
            # version-valued atom: the specifier packaging builds from this text, known only through its text (uninterpreted membership)
            t = args[0]
            return _PkgSpecVal(t if z3.is_expr(t) else z3.StringVal(t))
        if isinstance(f, _PkgContains):
            x = args[0]
            return PKG_CONTAINS(f.spec.text, x if z3.is_expr(x) else z3.StringVal(x))
        return NotImplemented

    def index_env(self, ex, key):
        return ENV(key if z3.is_expr(key) else z3.StringVal(key))

    def oset_binop(self, ex, opname, a, b):
        """collections.abc.Set.__and__/__or__/__sub__ on an OrderedSet: OrderedSet(<generator>) - the result holds exactly the
        elements the generator yields (contract of OrderedSet.__init__, verified separately)"""
        da = a.fields["_data"]
        if isinstance(b, Obj) and b.cls is self.oset_cls:
            mb = lambda s: mem(b.fields["_data"], s)
        elif isinstance(b, (set, frozenset)) or type(b).__name__ == "SetVal":
            items = list(b) if isinstance(b, (set, frozenset)) else b.items
            mb = lambda s: z3.Or(*[s == (x if z3.is_expr(x) else z3.StringVal(x)) for x in items]) if items else z3.BoolVal(False)
        else:
            return NOTIMPL
        r = self.sym_oset("setop")
        dr = r.fields["_data"]
        s = z3.String(fresh_name("s"))
        comb = {"__and__": lambda x, y: z3.And(x, y), "__or__": lambda x, y: z3.Or(x, y), "__sub__": lambda x, y: z3.And(x, z3.Not(y))}[opname]
        ex.assume(z3.And(dr.n >= 0, distinct(dr)))
        ex.assume(z3.ForAll([s], mem(dr, s) == comb(mem(da, s), mb(s))))
        # instances of the same fact at the first elements of the left operand (so that size arguments find their witnesses)
        for k in (0, 1):
            e = z3.Select(da.arr, k)
            ex.assume(mem(dr, e) == comb(mem(da, e), mb(e)))
        return r


class _InvalidSpecifierCtor:
    pass


class _ValidSpecifierCtor:
    pass


class _PkgSpecVal:
    def __init__(self, text):
        self.text = text


class _PkgContains:
    def __init__(self, spec):
        self.spec = spec


# packaging.specifiers.Specifier(text).contains(item): uninterpreted (A-PKG-EVAL: with and without prereleases=True it is the same function of
# (text, item) in the installed packaging >= 26; the bounded part compares against the installed packaging on pre-release environments)
PKG_CONTAINS = z3.Function("pkg_contains", z3.StringSort(), z3.StringSort(), z3.BoolSort())
PKG_VALID = z3.Function("pkg_valid_specifier", z3.StringSort(), z3.BoolSort())      # Specifier(text) does not raise InvalidSpecifier
