"""T-WHEEL: a file name as the '-'-join of dash-free fields.  Every string is the join of a unique list of dash-free fields, so
the model loses nothing; what is assumed (A-STDLIB) is how the str methods used by parse_wheel_tags act on such a join:
  endswith(s) with dash-free s  = the last field ends with s
  [:-k]                         = the same join with the last field cut by k, when the last field has at least k characters
  count("-")                    = number of fields - 1
  lower()                       = field-wise lower(), which neither adds nor removes dashes
  split("-")                    = the list of fields
`lower` on a field and `split(".")` of a field are uninterpreted: the contract only says *which* field they are applied to."""
from __future__ import annotations

import z3

from ..values import AList, ListS, OutsideSubset, STR, fresh_name

lower = z3.Function("str_lower", z3.StringSort(), z3.StringSort())
STRL = ListS(STR)


class DashText:
    def __init__(self, fields, trim=0, lowered=False):
        self.fields, self.trim, self.lowered = fields, trim, lowered

    def field(self, i):
        """the i-th field as the program sees it"""
        f = z3.Select(self.fields.arr, i)
        last = self.fields.n - 1
        if self.trim:
            f = z3.If(i == last, z3.SubString(f, 0, z3.Length(f) - self.trim), f)
        return lower(f) if self.lowered else f


class DotSplit:
    """text.split("."): compared by the text it was applied to"""

    def __init__(self, term):
        self.term = term


class WheelTheory:
    def __init__(self, index):
        self.index = index
        self.laws = {}

    def law(self, ex, op, *vals):
        return None

    def external(self, ex, mod, name):
        return None

    def sym_name(self):
        f = STRL.fresh("fields")
        i = z3.Int(fresh_name("wi"))
        pre = [f.n >= 1, z3.ForAll([i], z3.Implies(z3.And(0 <= i, i < f.n), z3.Not(z3.Contains(z3.Select(f.arr, i), z3.StringVal("-")))))]
        return DashText(f), pre

    def getattr_other(self, ex, o, attr):
        from ..expr import BoundBuiltin
        if isinstance(o, DashText):
            return BoundBuiltin(o, attr)
        return None

    def method_builtin(self, ex, recv, name, args, kw):
        if isinstance(recv, DashText):
            F = recv.fields
            if name == "endswith" and len(args) == 1 and isinstance(args[0], str) and "-" not in args[0] and not recv.lowered:
                return z3.SuffixOf(z3.StringVal(args[0]), recv.field(F.n - 1))
            if name == "count" and args == ["-"]:
                return F.n - 1
            if name == "lower" and not args:
                return DashText(F, recv.trim, True)
            if name == "split" and args == ["-"]:
                P = STRL.fresh("parts")
                i = z3.Int(fresh_name("pi"))
                ex.assume(P.n == F.n)
                ex.assume(z3.ForAll([i], z3.Implies(z3.And(0 <= i, i < P.n), z3.Select(P.arr, i) == recv.field(i))))
                return P
            raise OutsideSubset(f"str.{name}{tuple(args)!r} on a file name")
        if z3.is_expr(recv) and z3.is_string(recv) and name == "split" and args == ["."]:
            return DotSplit(recv)
        return NotImplemented

    def slice_other(self, ex, base, lo, hi):
        if isinstance(base, DashText) and lo is None and isinstance(hi, int) and hi < 0 and not base.trim and not base.lowered:
            last = z3.Select(base.fields.arr, base.fields.n - 1)
            if ex.branch(z3.Length(last) < -hi):
                raise OutsideSubset("slice that cuts into the separators of a file name")
            return DashText(base.fields, -hi, False)
        return None

    def str_concat(self, ex, parts):
        return "<message>"          # the texts of the exceptions are not part of the contract

    def to_str(self, ex, x):
        if isinstance(x, DashText):
            return "<file name>"
        return None
