"""Value model of the pyvc symbolic executor."""
from __future__ import annotations

import z3


class OutsideSubset(Exception):
    """The construct is outside the supported subset -> verdict undecided, never held/violation."""


class ReturnEx(Exception):
    def __init__(self, v):
        self.v = v


class BreakEx(Exception):
    pass


class ContinueEx(Exception):
    pass


class PathEnd(Exception):
    """Path ends here (loop body finished; invariant obligations recorded)."""


class Infeasible(Exception):
    """Path condition became unsatisfiable."""


class RaiseEx(Exception):
    def __init__(self, cls_name, msg=None):
        self.cls_name = cls_name
        self.msg = msg

    def __repr__(self):
        return f"RaiseEx({self.cls_name})"


class NeedFork(Exception):
    pass


class _NotImpl:
    def __repr__(self):
        return "NotImplemented"


NOTIMPL = _NotImpl()


class _Undef:
    def __repr__(self):
        return "<undefined-after-loop>"


UNDEF = _Undef()


class Opt:
    """Optional scalar: `has` (z3 Bool) and `val` (z3 term, meaningful iff has)."""

    def __init__(self, has, val, kind="ver"):
        self.has, self.val, self.kind = has, val, kind

    def __repr__(self):
        return f"Opt({self.has},{self.val})"


class Obj:
    """Instance of a dep_logic class with (possibly symbolic) fields."""

    def __init__(self, cls, fields=None):
        self.cls = cls
        self.fields = dict(fields or {})
        self.cache = {}

    def __repr__(self):
        return f"<{self.cls.name} {self.fields}>"


class SymObj:
    """Specifier (or other sum-typed value) whose class is symbolic: a z3 datatype term plus its Shape."""

    def __init__(self, term, shape):
        self.term, self.shape = term, shape

    def __repr__(self):
        return f"SymObj({self.term})"


class AbsObj:
    """Abstract object handled by a theory (e.g. abstract markers)."""

    def __init__(self, term, theory):
        self.term, self.theory = term, theory

    def __repr__(self):
        return f"Abs({self.term})"


class AList:
    """Abstract list: z3 array + offset + length; elements en/decoded by `shape`."""

    def __init__(self, shape, arr, off, n, is_tuple=False):
        self.shape, self.arr, self.off, self.n, self.is_tuple = shape, arr, off, n, is_tuple

    def get(self, i):
        return self.shape.dec(z3.Select(self.arr, i))

    def __repr__(self):
        return f"AList({self.arr},{self.off},{self.n})"


class SliceView:
    """l[lo:lo+n] of an abstract list, not materialised (no new array, no axioms)."""

    def __init__(self, base, lo, n):
        self.base, self.lo, self.n = base, lo, n
        self.shape, self.is_tuple = base.shape, base.is_tuple

    def get(self, i):
        return self.base.get(self.lo + i)


class ASet:
    """set(<abstract list>): membership is `==` with some element of the list (A-STDLIB: Python sets compare by ==/hash, hash consistent with ==)"""

    def __init__(self, lst):
        self.lst = lst


class ConcatView:
    """a + b of abstract lists, not materialised"""

    def __init__(self, a, b):
        self.a, self.b = a, b
        self.n = a.n + b.n
        self.shape, self.is_tuple = a.shape, getattr(a, "is_tuple", False)

    def get(self, i):
        import z3
        x, y = self.a.get(i), self.b.get(i - self.a.n)
        if z3.is_expr(x) and z3.is_expr(y):
            return z3.If(i < self.a.n, x, y)
        raise OutsideSubset("element of a lazy concatenation of object lists")


class IterObj:
    def __init__(self, seq, pos=0):
        self.seq, self.pos = seq, pos


class ZipObj:
    def __init__(self, seqs):
        self.seqs = seqs


class EnumObj:
    def __init__(self, seq):
        self.seq = seq


class RangeObj:
    def __init__(self, start, stop, step):
        self.start, self.stop, self.step = start, stop, step


class FuncRef:
    def __init__(self, finfo):
        self.finfo = finfo

    def __repr__(self):
        return f"FuncRef({self.finfo.qualname})"


class Lambda:
    def __init__(self, node, env, module):
        self.node, self.env, self.module = node, env, module


class BoundMethod:
    def __init__(self, self_val, finfo):
        self.self_val, self.finfo = self_val, finfo


class ClassRef:
    def __init__(self, cinfo):
        self.cinfo = cinfo

    def __repr__(self):
        return f"ClassRef({self.cinfo.name})"


class Builtin:
    def __init__(self, name):
        self.name = name

    def __repr__(self):
        return f"Builtin({self.name})"


class ModRef:
    def __init__(self, minfo):
        self.minfo = minfo


class ExcClass:
    """Builtin / external exception class."""

    def __init__(self, name):
        self.name = name


class ExcVal:
    def __init__(self, cls_name, msg=None):
        self.cls_name, self.msg = cls_name, msg


# ---------------------------------------------------------------- shapes
class Shape:
    sort = None

    def fresh(self, name):
        raise NotImplementedError

    def enc(self, v):
        raise NotImplementedError

    def dec(self, t):
        raise NotImplementedError


_ctr = [0]


def fresh_name(p):
    _ctr[0] += 1
    return f"{p}!{_ctr[0]}"


class BoolS(Shape):
    sort = z3.BoolSort()

    def fresh(self, name):
        return z3.Bool(fresh_name(name))

    def enc(self, v):
        return v if z3.is_expr(v) else z3.BoolVal(bool(v))

    def dec(self, t):
        return t


class IntS(Shape):
    sort = z3.IntSort()

    def fresh(self, name):
        return z3.Int(fresh_name(name))

    def enc(self, v):
        return v if z3.is_expr(v) else z3.IntVal(int(v))

    def dec(self, t):
        return t


class VerS(Shape):
    sort = z3.RealSort()

    def fresh(self, name):
        return z3.Real(fresh_name(name))

    def enc(self, v):
        return v

    def dec(self, t):
        return t


class StrS(Shape):
    sort = z3.StringSort()

    def fresh(self, name):
        return z3.String(fresh_name(name))

    def enc(self, v):
        return v if z3.is_expr(v) else z3.StringVal(v)

    def dec(self, t):
        return t


class ListS(Shape):
    def __init__(self, elem, is_tuple=False):
        self.elem, self.is_tuple = elem, is_tuple

    def fresh(self, name):
        arr = z3.Const(fresh_name(name), z3.ArraySort(z3.IntSort(), self.elem.sort))
        n = z3.Int(fresh_name(name + "_len"))
        return AList(self.elem, arr, z3.IntVal(0), n, self.is_tuple)


BOOL, INT, VER, STR = BoolS(), IntS(), VerS(), StrS()
