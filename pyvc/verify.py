"""Obligation generation and discharge."""
from __future__ import annotations

import os
import subprocess
import tempfile
import time

import z3

from . import qinst
from .engine import Exec, Obligation, has_quant
from .values import OutsideSubset, RaiseEx

OFFSETS = True
QUICK_TIMEOUT_MS = int(os.environ.get("PYVC_VC_TIMEOUT_MS", "20000"))


class VCResult:
    def __init__(self, name, status, secs, backend, model=None, detail=None):
        self.name, self.status, self.secs, self.backend, self.model, self.detail = name, status, secs, backend, model, detail


def solve(pc, goal, timeout_ms=None, want_model=True, use_cvc5=True, quick_candidate=False):
    """status in {'unsat','sat','unknown'}; for sat returns the z3 model.  An `unknown` bi-implication is retried
    as its two implications (sound: both must be unsat)."""
    timeout_ms = timeout_ms or QUICK_TIMEOUT_MS
    r = _solve1(pc, goal, timeout_ms, want_model, use_cvc5, quick_candidate)
    if r[0] == "unknown" and z3.is_eq(goal) and z3.is_bool(goal.arg(0)):
        a, b = goal.arg(0), goal.arg(1)
        r1 = _solve1(pc, z3.Implies(a, b), timeout_ms, want_model, use_cvc5)
        if r1[0] != "unsat":
            return r1[0], r[1] + r1[1], r1[2], r1[3]
        r2 = _solve1(pc, z3.Implies(b, a), timeout_ms, want_model, use_cvc5)
        return r2[0], r[1] + r1[1] + r2[1], r2[2] + "(split)", r2[3]
    return r


def _solve1(pc, goal, timeout_ms, want_model=True, use_cvc5=True, quick_candidate=False):
    t0 = time.time()
    fs = list(pc) + [z3.Not(goal)]
    quantified = any(has_quant(f) for f in fs)
    qf_model = None
    if quantified:
        # stage 1: deterministic instantiation to a quantifier-free problem, in passes of growing candidate sets:
        #   0 plain  1 + neighbours / shifted index terms  2 + arrays given by the same function symbol share their read sets
        # `unsat` of any pass is a proof.  A `sat` of a pass that reached its fix-point is a candidate counter-model (kept from the
        # first such pass); a `sat` after a truncated instantiation (instance / time budget) says nothing.
        try:
            for level in ((0, 1, 2) if OFFSETS else (0,)):
                qf, st = qinst.to_qf(fs, offsets=level)
                s = z3.Solver()
                s.set("timeout", timeout_ms)
                s.add(*qf)
                r = s.check()
                if os.environ.get("PYVC_DEBUG"):
                    print("qf-stage pass", level, r, st)
                if os.environ.get("PYVC_DUMP_SLOW") and st.get("instances", 0) >= 10000:
                    s0 = z3.Solver()
                    s0.add(*fs)
                    with open(os.path.join(os.environ["PYVC_DUMP_SLOW"], f"slow{abs(hash(s0.to_smt2())) % 10**8}.smt2"), "w") as f:
                        f.write(s0.to_smt2())
                if r == z3.unsat:
                    return "unsat", time.time() - t0, "z3-qf", None
                if r == z3.sat and quick_candidate:
                    # vacuity (cover) checks only need 'not refuted': a model of the instantiated problem is enough
                    return "candidate", time.time() - t0, "cover:z3-qf-model", None
                if r == z3.sat and not st.get("truncated") and qf_model is None:
                    qf_model = s.model()
                if r == z3.unknown:
                    break
            if os.environ.get("PYVC_DUMP_CAND"):
                s0 = z3.Solver()
                s0.add(*fs)
                with open(os.path.join(os.environ["PYVC_DUMP_CAND"], f"{'cand' if qf_model is not None else 'trunc'}{abs(hash(s0.to_smt2())) % 10**8}.smt2"), "w") as f:
                    f.write(s0.to_smt2())
        except (OverflowError, ValueError, z3.Z3Exception) as e:
            if os.environ.get("PYVC_DEBUG"):
                print("qf-stage failed:", repr(e)[:200])
                if os.environ.get("PYVC_DEBUG") == "2":
                    import traceback
                    traceback.print_exc()
    if qf_model is not None and os.environ.get("PYVC_NO_CONFIRM"):
        # test switch: behave as if the quantified solver could not confirm the counter-model (what happens on a loaded machine)
        return "candidate", time.time() - t0, "z3-qf-candidate", qf_model
    # the quantified problem itself (z3's own instantiation heuristics): answers here depend on the random seed, so a few seeds are tried
    attempts = [(0, timeout_ms)] if not quantified else [(0, min(timeout_ms, 10000)), (7, min(timeout_ms, 10000)), (23, min(timeout_ms, 20000))]
    label = "z3" if not quantified else "z3-quant"
    for seed, tmo in attempts:
        s = z3.Solver()
        s.set("timeout", tmo)
        if seed:
            s.set("random_seed", seed)
        s.add(*fs)
        r = s.check()
        if r != z3.unknown:
            break
    dt = time.time() - t0
    if r == z3.unsat:
        return "unsat", dt, label, None
    if r == z3.sat:
        return "sat", dt, label, s.model() if want_model else None
    if os.environ.get("PYVC_DUMP"):
        with open(os.path.join(os.environ["PYVC_DUMP"], f"vc{abs(hash(s.to_smt2())) % 10**8}.smt2"), "w") as f:
            f.write(s.to_smt2())
    if use_cvc5:
        r2, dt2 = cvc5_check(s, min(timeout_ms, 10000))
        if r2 == "unsat":
            return "unsat", dt + dt2, "cvc5", None
    if qf_model is not None:
        # counter-model of the *instantiated* problem only (instantiation may be incomplete): a candidate, not a refutation.
        # The decision procedure counts it as a failed obligation only if this obligation is recorded as discharged on
        # the reference tree (baseline/), otherwise as undecided.
        return "candidate", time.time() - t0, "z3-qf-candidate", qf_model
    return "unknown", dt, "z3", s.reason_unknown()


def cvc5_check(solver, timeout_ms):
    smt = "(set-logic ALL)\n" + solver.to_smt2()
    t0 = time.time()
    with tempfile.NamedTemporaryFile("w", suffix=".smt2", delete=False) as f:
        f.write(smt)
        path = f.name
    try:
        out = subprocess.run(["/usr/bin/cvc5", "--strings-exp", f"--tlimit={timeout_ms}", path], capture_output=True, text=True,
                             timeout=timeout_ms / 1000 + 5)
        res = out.stdout.strip().splitlines()[0] if out.stdout.strip() else "unknown"
    except Exception:
        res = "unknown"
    finally:
        os.unlink(path)
    return res, time.time() - t0


class Report:
    """Named obligations; each is discharged when every path-VC under it is unsat."""

    def __init__(self):
        self.named = {}      # name -> dict(status, vcs, secs, backends, model, detail)
        self.functions = {}  # qualname -> dict(hash, mode, paths, cases)
        self.errors = []

    def add(self, name, status, secs, backend, model=None, detail=None):
        d = self.named.setdefault(name, {"status": "unsat", "vcs": 0, "secs": 0.0, "backends": set(), "model": None, "detail": None})
        d["vcs"] += 1
        d["secs"] += secs
        d["backends"].add(backend)
        rank = {"unsat": 0, "unknown": 1, "candidate": 2, "sat": 3}
        if rank[status] > rank[d["status"]]:
            d["status"] = status
            d["model"] = model
            d["detail"] = detail

    def merge(self, other):
        for k, v in other.named.items():
            if k not in self.named:
                self.named[k] = v
            else:
                d = self.named[k]
                d["vcs"] += v["vcs"]
                d["secs"] += v["secs"]
                d["backends"] |= v["backends"]
                rank = {"unsat": 0, "unknown": 1, "candidate": 2, "sat": 3}
                if rank[v["status"]] > rank[d["status"]]:
                    d["status"], d["model"], d["detail"] = v["status"], v["model"], v["detail"]
        for k, v in other.functions.items():
            if k in self.functions:
                self.functions[k]["paths"] += v["paths"]
                self.functions[k]["cases"] += v["cases"]
            else:
                self.functions[k] = v
        self.errors.extend(other.errors)

    def counts(self):
        n = len(self.named)
        ok = sum(1 for d in self.named.values() if d["status"] == "unsat")
        return n, ok, sum(d["vcs"] for d in self.named.values())


def model_to_dict(m, terms):
    out = {}
    if m is None:
        return out
    for k, t in terms.items():
        try:
            out[k] = str(m.eval(t, model_completion=True))
        except Exception as e:  # pragma: no cover
            out[k] = f"<{e}>"
    return out


def verify_function(index, theory, contract, use_contracts=(), contracts=None, loop_specs=None, report=None, timeout_ms=None,
                    describe=None, vc_slice=None):
    """Checks `contract` against the real body of its target for every declared case."""
    report = report or Report()
    finfo = index.func(contract.target)
    q = contract.target
    counter = [0]

    def mine():
        """the path-VCs of one function are enumerated in a deterministic order; a job may solve only its slice of them"""
        counter[0] += 1
        return vc_slice is None or (counter[0] - 1) % vc_slice[1] == vc_slice[0]
    frec = report.functions.setdefault(q, {"hash": finfo.source_hash(), "mode": "verified against its contract", "paths": 0, "cases": 0})
    for case_name, args, assumptions in contract.cases(theory):
        ex = Exec(index, theory, contracts=contracts or {}, use_contracts=use_contracts, loop_specs=loop_specs or {})
        pre = list(assumptions)
        # vacuity guard: the precondition must be satisfiable
        ex0 = Exec(index, theory)
        ex0.pc, ex0.obls, ex0.guards = [], [], []
        req = contract.requires(ex0, *args)
        pre.append(req)
        st, secs, be, _ = solve(pre, z3.BoolVal(False), timeout_ms=5000, want_model=False, use_cvc5=False, quick_candidate=True)
        report.add(f"{q}#cover.{case_name}", "unsat" if st != "unsat" else "sat", secs, be,
                   detail=None if st != "unsat" else "precondition unsatisfiable (vacuous contract)")
        try:
            outcomes, obligations = ex.explore(lambda e: e.call_function(finfo, list(args), inline=True), pre)
        except OutsideSubset as e:
            if os.environ.get("PYVC_DEBUG"):
                import traceback
                traceback.print_exc()
            report.add(f"{q}#subset.{case_name}", "unknown", 0.0, "engine", detail=f"outside subset: {e}")
            continue
        frec["paths"] += len(outcomes)
        frec["cases"] += 1
        if not outcomes and not obligations:
            report.add(f"{q}#reach.{case_name}", "sat", 0.0, "engine", detail="no feasible path reaches a return (vacuous)")
        for ob in obligations:
            if not mine():
                continue
            st, secs, be, m = solve(ob.pc, ob.cond, timeout_ms)
            nm = ob.name if "#" in ob.name else f"{q}#{ob.name}"
            report.add(nm, st, secs, be, model=_fmt(m, describe, args) if st in ("sat", "candidate") else None,
                       detail={"case": case_name, **(ob.info or {})} if st != "unsat" else None)
        for oc in outcomes:
            ex1 = Exec(index, theory)
            ex1.pc, ex1.obls, ex1.guards = list(oc.pc), [], []
            if oc.kind == "raise":
                allowed = contract.allowed_raise(ex1, args, oc.value.cls_name)
                if not mine():
                    continue
                st, secs, be, m = solve(oc.pc, allowed, timeout_ms)
                report.add(f"{q}#raises.{oc.value.cls_name}", st, secs, be, model=_fmt(m, describe, args) if st in ("sat", "candidate") else None,
                           detail={"case": case_name, "raised": oc.value.cls_name, "msg": oc.value.msg} if st != "unsat" else None)
                continue
            with oc:
                clauses = contract.ensures(ex1, args, oc.value)
            for nm, cl in clauses:
                if not mine():
                    continue
                st, secs, be, m = solve(oc.pc, cl, timeout_ms)
                report.add(f"{q}#post.{nm}", st, secs, be, model=_fmt(m, describe, args, oc.value) if st in ("sat", "candidate") else None,
                           detail={"case": case_name} if st != "unsat" else None)
    return report


def _fmt(m, describe, args, result=None):
    if m is None:
        return None
    if describe is None:
        return {"z3_model": str(m)[:2000]}
    try:
        return describe(m, args, result)
    except Exception as e:  # pragma: no cover
        return {"z3_model": str(m)[:2000], "describe_error": repr(e)}


def verify_cases(index, theory, qname, cases, use_contracts=(), contracts=None, loop_specs=None, report=None, timeout_ms=None):
    """Generic obligations: each case is a dict(name, pre=[...], thunk(ex)->value, post(ex, value)->[(name, Bool)],
    allowed_raise(exc_name)->Bool (optional), describe (optional))."""
    report = report or Report()
    frec = report.functions.setdefault(qname, {"hash": None, "mode": "law proved from callee contracts", "paths": 0, "cases": 0})
    cases = list(cases)
    many = len(cases) > 40
    for case in cases:
        ex = Exec(index, theory, contracts=contracts or {}, use_contracts=use_contracts, loop_specs=loop_specs or {})
        pre = list(case.get("pre", []))
        st, secs, be, _ = solve(pre, z3.BoolVal(False), timeout_ms=5000, want_model=False, use_cvc5=False, quick_candidate=True)
        report.add(f"{qname}#cover" if many else f"{qname}#cover.{case['name']}", "unsat" if st != "unsat" else "sat", secs, be,
                   detail=None if st != "unsat" else "hypotheses unsatisfiable (vacuous)")
        try:
            outcomes, obligations = ex.explore(case["thunk"], pre)
        except OutsideSubset as e:
            report.add(f"{qname}#subset.{case['name']}", "unknown", 0.0, "engine", detail=f"outside subset: {e}")
            continue
        frec["paths"] += len(outcomes)
        frec["cases"] += 1
        describe = case.get("describe")
        for ob in obligations:
            st, secs, be, m = solve(ob.pc, ob.cond, timeout_ms)
            nm = ob.name if "#" in ob.name else f"{qname}#{ob.name}"
            report.add(nm, st, secs, be, model=_fmt(m, describe, case.get("args")) if st in ("sat", "candidate") else None,
                       detail={"case": case["name"], **(ob.info or {})} if st != "unsat" else None)
        for oc in outcomes:
            ex1 = Exec(index, theory)
            ex1.pc, ex1.obls, ex1.guards = list(oc.pc), [], []
            if oc.kind == "raise":
                ar = case.get("allowed_raise")
                allowed = ar(oc.value.cls_name) if ar else z3.BoolVal(False)
                st, secs, be, m = solve(oc.pc, allowed, timeout_ms)
                report.add(f"{qname}#raises.{oc.value.cls_name}", st, secs, be, model=_fmt(m, describe, case.get("args")) if st in ("sat", "candidate") else None,
                           detail={"case": case["name"], "raised": oc.value.cls_name, "msg": oc.value.msg} if st != "unsat" else None)
                continue
            with oc:
                clauses = case["post"](ex1, oc.value)
            for nm, cl in clauses:
                st, secs, be, m = solve(oc.pc, cl, timeout_ms)
                report.add(f"{qname}#{nm}", st, secs, be, model=_fmt(m, describe, case.get("args"), oc.value) if st in ("sat", "candidate") else None,
                           detail={"case": case["name"]} if st != "unsat" else None)
    return report
