"""pyvc symbolic executor: forward symbolic execution over the Python AST of the real source.

Paths are explored by decision-prefix re-execution (depth-first).  Branch conditions are
decided against the quantifier-free part of the path condition (pruning only ever *keeps*
paths when the solver is unsure).  Calls go to a callee *contract* when the task says so,
otherwise the callee body (from the real source) is inlined.  Loops over abstract lists
need an invariant from the sidecar contract; loops over concrete lists are unrolled.
"""
from __future__ import annotations

import ast
import itertools
import os

import z3

from .values import *  # noqa: F401,F403
from .expr import ExprMixin
from .calls import CallMixin
from .values import (ConcatView, SliceView, AbsObj, AList, BoundMethod, BreakEx, Builtin, ClassRef, ContinueEx, EnumObj, ExcClass, ExcVal,
                     FuncRef, Infeasible, IterObj, Lambda, ModRef, NeedFork, NOTIMPL, Obj, Opt, OutsideSubset, PathEnd,
                     RaiseEx, RangeObj, ReturnEx, SymObj, UNDEF, ZipObj, fresh_name)

BUILTIN_EXC = {
    "Exception": [], "ValueError": ["Exception"], "TypeError": ["Exception"], "IndexError": ["LookupError", "Exception"],
    "KeyError": ["LookupError", "Exception"], "NotImplementedError": ["RuntimeError", "Exception"],
    "AssertionError": ["Exception"], "AttributeError": ["Exception"], "StopIteration": ["Exception"],
    "LookupError": ["Exception"], "RuntimeError": ["Exception"],
    "InvalidVersion": ["ValueError", "Exception"], "PkgInvalidSpecifier": ["ValueError", "Exception"],
}


def B(x):
    if z3.is_expr(x):
        return x
    if isinstance(x, bool):
        return z3.BoolVal(x)
    raise OutsideSubset(f"not a boolean: {x!r}")


def has_quant(e, _memo={}):
    """memoised on the AST id; the expression is kept alive in the memo so that ids cannot be recycled"""
    k = e.get_id()
    hit = _memo.get(k)
    if hit is not None:
        return hit[0]
    r = z3.is_quantifier(e) or any(has_quant(c) for c in e.children())
    _memo[k] = (r, e)
    return r


def qf_weaken(e, pos):
    """a quantifier-free consequence of e (pos) / a quantifier-free formula implied by... dually for negative polarity:
    quantified sub-formulas are replaced by True in positive and False in negative positions"""
    if not has_quant(e):
        return e
    if z3.is_quantifier(e) or not z3.is_app(e):
        return z3.BoolVal(pos)
    k = e.decl().kind()
    if k == z3.Z3_OP_AND:
        return z3.And(*[qf_weaken(c, pos) for c in e.children()])
    if k == z3.Z3_OP_OR:
        return z3.Or(*[qf_weaken(c, pos) for c in e.children()])
    if k == z3.Z3_OP_NOT:
        return z3.Not(qf_weaken(e.arg(0), not pos))
    if k == z3.Z3_OP_IMPLIES:
        return z3.Implies(qf_weaken(e.arg(0), not pos), qf_weaken(e.arg(1), pos))
    return z3.BoolVal(pos)


class Obligation:
    def __init__(self, name, pc, cond, info=None):
        self.name, self.pc, self.cond, self.info = name, pc, cond, info or {}


class Outcome:
    def __init__(self, kind, value, pc, env=None):
        self.kind, self.value, self.pc, self.env = kind, value, pc, env   # kind: 'return' | 'raise'
        self.final = []          # (dict, contents at the end of the path) for every journalled object dictionary

    def __enter__(self):
        """re-installs the end-of-path state of the objects the path mutated (post-conditions read it)"""
        self._saved = [(d, dict(d)) for d, _ in self.final]
        for d, snap in self.final:
            d.clear()
            d.update(snap)
        return self

    def __exit__(self, *exc):
        for d, snap in self._saved:
            d.clear()
            d.update(snap)
        return False


class LoopSpec:
    """modifies: {var: Shape}; invariant(st) -> list[(name, z3 Bool)]; st has .loc(var), .pre(var), .k, .n, .ex"""

    def __init__(self, modifies, invariant, hints=None):
        self.modifies, self.invariant, self.hints = modifies, invariant, hints


class LoopState:
    def __init__(self, ex, env, pre_env, k, n, seqs):
        self.ex, self.env, self.pre_env, self.k, self.n, self.seqs = ex, env, pre_env, k, n, seqs

    def loc(self, v):
        if v not in self.env:
            # the sidecar invariant is keyed to a local of the function: a renamed local leaves the function outside the contract (undecided), not broken
            raise OutsideSubset(f"the loop contract names the local variable '{v}', which this version of the function does not have")
        return self.env[v]

    def pre(self, v):
        if v not in self.pre_env:
            raise OutsideSubset(f"the loop contract names the local variable '{v}', which this version of the function does not have")
        return self.pre_env[v]


class Contract:
    """Sidecar contract; see contracts/*.py.  All hooks receive the executor (for theory helpers)."""
    target = None
    raises = ()            # exception class names the function may raise (any condition) when verified

    def requires(self, ex, *args):
        return z3.BoolVal(True)

    def ensures(self, ex, args, result):      # -> list[(name, z3 Bool)]
        return []

    def result(self, ex, args):               # fresh symbolic result used at call sites
        raise OutsideSubset(f"contract {self.target} has no result shape")

    def raise_cases(self, ex, args):          # -> list[(exc name, z3 Bool cond)] used at call sites
        return []

    loops = {}


class Exec(ExprMixin, CallMixin):
    def __init__(self, index, theory=None, contracts=None, use_contracts=(), loop_specs=None, timeout_ms=2000):
        self.index = index
        self.theory = theory
        self.contracts = contracts or {}
        self.use_contracts = set(use_contracts)
        self.loop_specs = loop_specs or {}
        self.timeout_ms = timeout_ms
        self.stats = {"paths": 0, "branches": 0, "solver_checks": 0, "pruned": 0}
        self.call_depth = 0

    # ------------------------------------------------------------ path exploration
    def explore(self, thunk, pre=()):
        """thunk(ex) performs one symbolic run (may raise ReturnEx/RaiseEx); returns (outcomes, obligations)."""
        outcomes, obligations = [], []
        todo = [[]]
        while todo:
            self.dec = todo.pop()
            self.pos = 0
            self.pc = list(pre)
            self.pending = []
            self.obls = []
            self.guards = []
            self.nofork = 0
            self.solver = z3.Solver()
            self.solver.set("timeout", self.timeout_ms)
            for p in self.pc:
                self.solver.add(p if not has_quant(p) else qf_weaken(p, True))
            self.stats["paths"] += 1
            self.journal = []          # mutations of objects that outlive the path (inputs) are undone at its end
            try:
                try:
                    v = thunk(self)
                    outcomes.append(Outcome("return", v, list(self.pc)))
                except ReturnEx as r:
                    outcomes.append(Outcome("return", r.v, list(self.pc)))
                except RaiseEx as e:
                    outcomes.append(Outcome("raise", e, list(self.pc)))
                except PathEnd:
                    pass
                else:
                    pass
                if outcomes and outcomes[-1].pc == self.pc and not outcomes[-1].final:
                    seen_d = {}
                    for d, k, had, old in self.journal:
                        seen_d.setdefault(id(d), d)
                    outcomes[-1].final = [(d, dict(d)) for d in seen_d.values()]
                obligations.extend(self.obls)
            except Infeasible:
                self.stats["pruned"] += 1
            finally:
                for d, k, had, old in reversed(self.journal):
                    if had:
                        d[k] = old
                    else:
                        d.pop(k, None)
                self.journal = []
            todo.extend(self.pending)
            if self.stats["paths"] > 20000:
                raise OutsideSubset("path explosion (>20000 paths)")
        return outcomes, obligations

    def set_field(self, d, k, v):
        """journalled write into an object's field / cache dictionary"""
        j = getattr(self, "journal", None)
        if j is not None:
            j.append((d, k, k in d, d.get(k)))
        d[k] = v

    def assume(self, cond):
        cond = B(cond)
        self.pc.append(cond)
        if not has_quant(cond):
            self.solver.add(cond)

    def oblige(self, name, cond, info=None):
        self.obls.append(Obligation(name, list(self.pc) + list(self.guards), B(cond), info))

    def _check(self, cond):
        self.stats["solver_checks"] += 1
        self.solver.push()
        for g in self.guards:
            if not has_quant(g):
                self.solver.add(g)
        self.solver.add(cond)
        r = self.solver.check()
        if r == z3.unknown and os.environ.get("PYVC_DEBUG"):
            print("branch-check unknown:", self.solver.reason_unknown(), str(cond)[:100])
        self.solver.pop()
        return r

    def decide(self, cond):
        """True/False if decided by simplification or by the path condition, else None."""
        cond = z3.simplify(B(cond))
        if z3.is_true(cond):
            return True
        if z3.is_false(cond):
            return False
        if has_quant(cond):
            return None
        if self._check(cond) == z3.unsat:
            return False
        if self._check(z3.Not(cond)) == z3.unsat:
            return True
        return None

    def branch(self, cond):
        cond = z3.simplify(B(cond))
        if z3.is_true(cond):
            return True
        if z3.is_false(cond):
            return False
        self.stats["branches"] += 1
        if self.nofork:
            d = self.decide(cond)
            if d is None:
                raise NeedFork()
            return d
        if self.pos < len(self.dec):
            d = self.dec[self.pos]
            self.pos += 1
            self.assume(cond if d else z3.Not(cond))
            return d
        can_t = has_quant(cond) or self._check(cond) != z3.unsat
        can_f = has_quant(cond) or self._check(z3.Not(cond)) != z3.unsat
        if not can_t and not can_f:
            raise Infeasible()
        if can_t and can_f:
            self.pending.append(self.dec[:self.pos] + [False])
            d = True
        else:
            d = can_t
            self.stats["pruned"] += 1
        self.dec.append(d)
        self.pos += 1
        self.assume(cond if d else z3.Not(cond))
        return d

    def choose(self, n):
        """Non-deterministic choice without a condition (loop body / loop exit)."""
        if self.nofork:
            raise OutsideSubset("choice inside no-fork evaluation")
        if self.pos < len(self.dec):
            d = self.dec[self.pos]
            self.pos += 1
            return d
        for alt in range(1, n):
            self.pending.append(self.dec[:self.pos] + [alt])
        self.dec.append(0)
        self.pos += 1
        return 0

    # ------------------------------------------------------------ functions
    def call_function(self, finfo, args, kwargs=None, site=None, inline=False):
        kwargs = kwargs or {}
        q = finfo.qualname
        if not inline and q in self.use_contracts and q in self.contracts:
            return self.apply_contract(self.contracts[q], finfo, args, kwargs, site)
        if self.call_depth > 40:
            raise OutsideSubset(f"recursion depth exceeded at {q}")
        env = self.bind_args(finfo, args, kwargs)
        self.call_depth += 1
        frame = Frame(finfo, env)
        try:
            self.block(finfo.node.body, frame)
        except ReturnEx as r:
            return r.v
        finally:
            self.call_depth -= 1
        return None

    def bind_args(self, finfo, args, kwargs):
        a = finfo.node.args
        env = {}
        names = [x.arg for x in a.posonlyargs + a.args]
        args = list(args)
        if a.vararg:
            pos = args[:len(names)]
            extra = args[len(names):]
            if any(type(x).__name__ == "StarArgs" for x in extra):
                if len(extra) != 1:
                    raise OutsideSubset("mixed concrete and abstract star-args")
                l = extra[0].alist
                env[a.vararg.arg] = AList(l.shape, l.arr, l.off, l.n, True)
            else:
                env[a.vararg.arg] = tuple(extra)
            args = pos
        if len(args) > len(names):
            raise RaiseEx("TypeError", "too many arguments")
        for n, v in zip(names, args):
            env[n] = v
        defaults = a.defaults
        for i, n in enumerate(names):
            if n in env:
                continue
            if n in kwargs:
                env[n] = kwargs.pop(n)
                continue
            di = i - (len(names) - len(defaults))
            if di >= 0:
                env[n] = self.const_expr(defaults[di], finfo)
            else:
                raise RaiseEx("TypeError", f"missing argument {n}")
        for kwa, d in zip(a.kwonlyargs, a.kw_defaults):
            if kwa.arg in kwargs:
                env[kwa.arg] = kwargs.pop(kwa.arg)
            elif d is not None:
                env[kwa.arg] = self.const_expr(d, finfo)
        if kwargs:
            raise RaiseEx("TypeError", f"unexpected keyword {list(kwargs)}")
        return env

    def const_expr(self, node, finfo):
        return self.ev(node, Frame(finfo, {}))

    def apply_contract(self, c, finfo, args, kwargs, site):
        env = self.bind_args(finfo, args, dict(kwargs))
        names = [x.arg for x in finfo.node.args.posonlyargs + finfo.node.args.args]
        argv = [env[n] for n in names]
        if finfo.node.args.vararg:
            argv.append(env[finfo.node.args.vararg.arg])
        self.oblige(f"pre@{finfo.qualname}", c.requires(self, *argv), {"site": site})
        for exc, cond in c.raise_cases(self, argv):
            if self.branch(cond):
                raise RaiseEx(exc)
        res = c.result(self, argv)
        for _, cl in c.ensures(self, argv, res):
            self.assume(cl)
        return res

    # ------------------------------------------------------------ statements
    def block(self, stmts, fr):
        for st in stmts:
            self.stmt(st, fr)

    def stmt(self, st, fr):
        if isinstance(st, ast.Return):
            raise ReturnEx(self.ev(st.value, fr) if st.value is not None else None)
        if isinstance(st, ast.If):
            if self.truth(self.ev(st.test, fr)):
                self.block(st.body, fr)
            else:
                self.block(st.orelse, fr)
        elif isinstance(st, ast.Assign):
            v = self.ev(st.value, fr)
            for t in st.targets:
                self.assign(t, v, fr)
        elif isinstance(st, ast.AnnAssign):
            if st.value is not None:
                self.assign(st.target, self.ev(st.value, fr), fr)
        elif isinstance(st, ast.AugAssign):
            cur = self.ev(_load(st.target), fr)
            v = self.binop(st.op, cur, self.ev(st.value, fr), inplace=True)
            self.assign(st.target, v, fr)
        elif isinstance(st, ast.Expr):
            if isinstance(st.value, ast.Constant):
                return
            self.expr_stmt(st.value, fr)
        elif isinstance(st, ast.ImportFrom):
            mod = ("." * st.level) + (st.module or "")
            target = self.resolve_module(mod, fr.module)
            for a in st.names:
                if target is not None:
                    fr.env[a.asname or a.name] = self.global_lookup(a.name, target)
                else:
                    ext = self.theory.external(self, mod, a.name) if self.theory else None
                    fr.env[a.asname or a.name] = ext if ext is not None else Builtin(f"{mod}.{a.name}")
        elif isinstance(st, (ast.Import, ast.Pass)):
            pass
        elif isinstance(st, ast.Raise):
            raise self.make_raise(st, fr)
        elif isinstance(st, ast.Assert):
            if not self.truth(self.ev(st.test, fr)):
                raise RaiseEx("AssertionError")
        elif isinstance(st, ast.For):
            self.for_loop(st, fr)
        elif isinstance(st, ast.While):
            self.while_loop(st, fr)
        elif isinstance(st, ast.Break):
            raise BreakEx()
        elif isinstance(st, ast.Continue):
            raise ContinueEx()
        elif isinstance(st, ast.Try):
            self.try_stmt(st, fr)
        else:
            raise OutsideSubset(f"statement {type(st).__name__} at line {st.lineno}")

    def make_raise(self, st, fr):
        if st.exc is None:
            if fr.current_exc is not None:
                return fr.current_exc
            raise OutsideSubset("bare raise")
        e = st.exc
        name = None
        if isinstance(e, ast.Call):
            name = _name_of(e.func)
        else:
            name = _name_of(e)
        if name is None:
            raise OutsideSubset("raise of a computed exception")
        return RaiseEx(name)

    def exc_matches(self, exc_name, handler_names):
        for h in handler_names:
            if h == exc_name:
                return True
            # repo classes
            c = self.index.classes.get(exc_name)
            if c is not None and self.index.is_subclass(c, h):
                return True
            seen, todo = set(), [exc_name]
            while todo:
                x = todo.pop()
                if x == h:
                    return True
                if x in seen:
                    continue
                seen.add(x)
                if x in BUILTIN_EXC:
                    todo.extend(BUILTIN_EXC[x])
                elif x in self.index.classes:
                    todo.extend(b.split(".")[-1] for b in self.index.classes[x].base_names)
        return False

    def try_stmt(self, st, fr):
        if st.finalbody:
            raise OutsideSubset("try/finally")
        try:
            self.block(st.body, fr)
        except RaiseEx as e:
            for h in st.handlers:
                if h.type is None:
                    names = ["Exception"]
                elif isinstance(h.type, ast.Tuple):
                    names = [_name_of(x) for x in h.type.elts]
                else:
                    names = [_name_of(h.type)]
                names = [fr.resolve_exc_alias(n) for n in names]
                if self.exc_matches(e.cls_name, names):
                    if h.name:
                        fr.env[h.name] = ExcVal(e.cls_name, e.msg)
                    saved = fr.current_exc
                    fr.current_exc = e
                    try:
                        self.block(h.body, fr)
                    finally:
                        fr.current_exc = saved
                    return
            raise
        else:
            self.block(st.orelse, fr)

    def expr_stmt(self, e, fr):
        # list mutation through a local name: x.append(v) / x.extend(v)
        if isinstance(e, ast.Call) and isinstance(e.func, ast.Attribute) and isinstance(e.func.value, ast.Name):
            var = e.func.value.id
            recv = fr.env.get(var)
            if isinstance(recv, AList) and e.func.attr in ("append", "extend"):
                arg = self.ev(e.args[0], fr)
                fr.env[var] = self.alist_append(recv, arg) if e.func.attr == "append" else self.alist_extend(recv, arg)
                return
        # the same on a list held in an object field: self.X.append(v)
        if isinstance(e, ast.Call) and isinstance(e.func, ast.Attribute) and isinstance(e.func.value, ast.Attribute) \
                and isinstance(e.func.value.value, ast.Name) and e.func.attr in ("append", "extend"):
            owner = fr.env.get(e.func.value.value.id)
            if isinstance(owner, Obj) and isinstance(owner.fields.get(e.func.value.attr), AList):
                recv = owner.fields[e.func.value.attr]
                arg = self.ev(e.args[0], fr)
                self.set_field(owner.fields, e.func.value.attr, self.alist_append(recv, arg) if e.func.attr == "append" else self.alist_extend(recv, arg))
                return
        self.ev(e, fr)

    def assign(self, t, v, fr):
        if isinstance(t, ast.Name):
            fr.env[t.id] = v
        elif isinstance(t, (ast.Tuple, ast.List)):
            star = [i for i, x in enumerate(t.elts) if isinstance(x, ast.Starred)]
            vals = self.to_pylist(v)
            if star:
                si = star[0]
                after = len(t.elts) - si - 1
                if vals is None:
                    # abstract list: fixed-shape starred unpacking  a, b, *rest = xs
                    if not isinstance(v, AList) or after:
                        raise OutsideSubset("starred unpacking of abstract value")
                    if self.branch(v.n < si):
                        raise RaiseEx("ValueError", "not enough values to unpack")
                    for i in range(si):
                        self.assign(t.elts[i], v.get(i), fr)
                    self.assign(t.elts[si].value, self.alist_slice(v, z3.IntVal(si), v.n - si), fr)
                    return
                if len(vals) < len(t.elts) - 1:
                    raise RaiseEx("ValueError", "not enough values to unpack")
                for i in range(si):
                    self.assign(t.elts[i], vals[i], fr)
                self.assign(t.elts[si].value, list(vals[si:len(vals) - after]), fr)
                for j in range(after):
                    self.assign(t.elts[si + 1 + j], vals[len(vals) - after + j], fr)
                return
            if vals is None:
                if isinstance(v, (AList, SliceView)):
                    if self.branch(v.n != len(t.elts)):
                        raise RaiseEx("ValueError", "unpack length mismatch")
                    vals = [v.get(i) for i in range(len(t.elts))]
                else:
                    raise OutsideSubset(f"unpacking of {v!r}")
            if len(vals) != len(t.elts):
                raise RaiseEx("ValueError", "unpack length mismatch")
            for x, y in zip(t.elts, vals):
                self.assign(x, y, fr)
        elif isinstance(t, ast.Subscript):
            if not isinstance(t.value, ast.Name):
                raise OutsideSubset("subscript store on non-local")
            base = fr.env[t.value.id]
            idx = self.ev(t.slice, fr)
            if isinstance(base, list):
                if z3.is_expr(idx):
                    idx = self.concretize_int(idx, len(base))
                if not -len(base) <= idx < len(base):
                    raise RaiseEx("IndexError")
                base[idx] = v
            elif isinstance(base, AList):
                idx = self.norm_index(base, idx)
                fr.env[t.value.id] = AList(base.shape, z3.Store(base.arr, idx, base.shape.enc(v)), base.off, base.n)
            elif isinstance(base, dict):
                base[idx] = v
            else:
                raise OutsideSubset("subscript store")
        elif isinstance(t, ast.Attribute):
            o = self.ev(t.value, fr)
            if isinstance(o, Obj):
                if o.cls.dataclass and o.cls.dataclass.get("frozen"):
                    raise RaiseEx("FrozenInstanceError")
                self.set_field(o.fields, t.attr, v)
            else:
                raise OutsideSubset("attribute store")
        else:
            raise OutsideSubset(f"assignment target {type(t).__name__}")

    def concretize_int(self, idx, n):
        for i in range(n):
            if self.branch(idx == i):
                return i
        raise RaiseEx("IndexError")

    def norm_index(self, lst, idx):
        """Python index semantics on an abstract list; raises IndexError on the out-of-range path."""
        if isinstance(idx, int) and idx < 0:
            idx = lst.n + idx
        elif z3.is_expr(idx):
            idx = z3.If(idx < 0, lst.n + idx, idx)
        if self.branch(z3.Or(idx < 0, idx >= lst.n)):
            raise RaiseEx("IndexError")
        return idx

    # ------------------------------------------------------------ lists
    def to_pylist(self, v):
        if isinstance(v, (list, tuple)):
            return list(v)
        if isinstance(v, Obj):
            it, _ = self.index.find_method(v.cls, "__iter__")
            if it is not None:
                r = self.call_function(it, [v])
                return self.to_pylist(r)
        if isinstance(v, IterObj) and isinstance(v.seq, (list, tuple)) and isinstance(v.pos, int):
            out = list(v.seq[v.pos:])
            v.pos = len(v.seq)
            return out
        if isinstance(v, ZipObj):
            ls = [self.to_pylist(s) for s in v.seqs]
            if all(x is not None for x in ls):
                return [tuple(t) for t in zip(*ls)]
        if isinstance(v, EnumObj):
            l = self.to_pylist(v.seq)
            if l is not None:
                return [(i, x) for i, x in enumerate(l)]
        if isinstance(v, RangeObj) and all(isinstance(x, int) for x in (v.start, v.stop, v.step)):
            return list(range(v.start, v.stop, v.step))
        if isinstance(v, dict):
            return list(v.keys())
        if isinstance(v, (set, frozenset)):
            return sorted(v, key=repr)
        return None

    def alist_append(self, l, x):
        return AList(l.shape, z3.Store(l.arr, l.n, l.shape.enc(x)), l.off, l.n + 1, l.is_tuple)

    def alist_extend(self, l, xs):
        if isinstance(xs, (list, tuple)):
            for x in xs:
                l = self.alist_append(l, x)
            return l
        if isinstance(xs, (AList, SliceView)):
            return self.alist_concat(l, xs)
        if isinstance(xs, Concat):
            for part in xs.parts:
                l = self.alist_extend(l, part)
            return l
        raise OutsideSubset("extend with unsupported value")

    def alist_concat(self, a, b):
        """res = a ++ b defined by axioms (conservative extension); patterns carry no arithmetic."""
        if isinstance(a, SliceView):
            a = self.materialize(a)
        res = z3.Const(fresh_name("cat"), z3.ArraySort(z3.IntSort(), a.shape.sort))
        i, p = z3.Int(fresh_name("ci")), z3.Int(fresh_name("cp"))
        self.assume(z3.ForAll([i], z3.Implies(z3.And(0 <= i, i < a.n), res[i] == a.arr[i]), patterns=[res[i]]))
        if isinstance(b, SliceView):
            barr, lo = b.base.arr, b.lo
        else:
            barr, lo = b.arr, z3.IntVal(0)
        self.assume(z3.ForAll([i], z3.Implies(z3.And(a.n <= i, i < a.n + b.n), res[i] == barr[z3.simplify(lo + (i - a.n))]), patterns=[res[i]]))
        # the second fact indexed from the source side (so that source elements find their place in `res`)
        self.assume(z3.ForAll([p], z3.Implies(z3.And(lo <= p, p < lo + b.n), res[z3.simplify(a.n + (p - lo))] == barr[p]), patterns=[barr[p]]))
        return AList(a.shape, res, z3.IntVal(0), a.n + b.n, a.is_tuple)

    def materialize(self, v):
        t = z3.Const(fresh_name("slice"), z3.ArraySort(z3.IntSort(), v.shape.sort))
        i, p = z3.Int(fresh_name("si")), z3.Int(fresh_name("sp"))
        self.assume(z3.ForAll([i], z3.Implies(z3.And(0 <= i, i < v.n), t[i] == v.base.arr[v.lo + i]), patterns=[t[i]]))
        self.assume(z3.ForAll([p], z3.Implies(z3.And(v.lo <= p, p < v.lo + v.n), t[p - v.lo] == v.base.arr[p]), patterns=[v.base.arr[p]]))
        return AList(v.shape, t, z3.IntVal(0), v.n, v.is_tuple)

    def alist_slice(self, l, lo, n):
        if isinstance(l, SliceView):
            return SliceView(l.base, z3.simplify(l.lo + lo), n)
        if z3.is_int_value(z3.simplify(lo)) and z3.simplify(lo).as_long() == 0:
            return AList(l.shape, l.arr, z3.IntVal(0), n, l.is_tuple)
        return SliceView(l, lo, n)

    def as_alist(self, v, shape, is_tuple=False):
        if isinstance(v, AList):
            return v
        l = AList(shape, z3.Const(fresh_name("lst"), z3.ArraySort(z3.IntSort(), shape.sort)), z3.IntVal(0), z3.IntVal(0), is_tuple)
        for x in self.to_pylist(v):
            l = self.alist_append(l, x)
        l.n = z3.simplify(l.n)
        return l

    # ------------------------------------------------------------ loops
    def loop_spec(self, node, fr):
        if hasattr(node, "_spec"):
            return node._spec, node._ordn
        ordn = fr.loop_ordinal(node)
        return self.loop_specs.get((fr.finfo.qualname, ordn)), ordn

    def for_loop(self, st, fr):
        it = self.ev(st.iter, fr)
        items = self.to_pylist(it) if not (isinstance(it, IterObj) and not isinstance(it.pos, int)) else None
        if items is not None and isinstance(it, RangeObj) and self.loop_spec(st, fr)[0] is not None:
            items = None        # a loop over a concrete range with a registered invariant is treated by the invariant
        if items is not None:
            broke = False
            for idx, x in enumerate(items):
                if isinstance(it, IterObj):
                    pass
                self.assign(st.target, x, fr)
                try:
                    self.block(st.body, fr)
                except BreakEx:
                    if isinstance(it, IterObj):
                        it.pos = len(it.seq) - (len(items) - idx - 1)
                    broke = True
                    break
                except ContinueEx:
                    continue
            if not broke:
                self.block(st.orelse, fr)
            return
        spec, ordn = self.loop_spec(st, fr)
        if spec is None and isinstance(it, RangeObj) and it.step == 1 and isinstance(it.start, int):
            # `for _ in range(small symbolic n)`: fork over n = 0..3 and unroll (larger n: outside subset)
            stop = it.stop
            for n in range(0, 4):
                if self.branch(stop <= it.start + n if n == 0 else stop == it.start + n):
                    it = RangeObj(it.start, it.start + n, 1)
                    for x in self.to_pylist(it):
                        self.assign(st.target, x, fr)
                        try:
                            self.block(st.body, fr)
                        except BreakEx:
                            return
                        except ContinueEx:
                            continue
                    self.block(st.orelse, fr)
                    return
            raise OutsideSubset(f"loop #{ordn} of {fr.finfo.qualname}: symbolic range longer than 3 without an invariant (stop = {str(z3.simplify(stop))[:120]})")
        if spec is None or not isinstance(spec, LoopSpec):
            # (a contract written for a comprehension at this ordinal does not fit a for statement: the code was restructured)
            raise OutsideSubset(f"loop #{ordn} of {fr.finfo.qualname} over an abstract sequence has no invariant")
        self.abstract_loop(st, fr, spec, ordn, it)

    def seq_len_get(self, it):
        """(length term, getter(k)) for abstract iterables."""
        if isinstance(it, (AList, SliceView, ConcatView)):
            return it.n, it.get
        if isinstance(it, IterObj):
            n, g = self.seq_len_get(it.seq)
            p0 = it.pos
            return n - p0, (lambda k: g(p0 + k))
        if isinstance(it, ZipObj):
            parts = [self.seq_len_get(s) for s in it.seqs]
            n = parts[0][0]
            for m, _ in parts[1:]:
                n = z3.If(m < n, m, n)
            return n, (lambda k: tuple(g(k) for _, g in parts))
        if isinstance(it, EnumObj):
            n, g = self.seq_len_get(it.seq)
            return n, (lambda k: (k, g(k)))
        if isinstance(it, RangeObj):
            if it.step == -1:
                n = it.start - it.stop
                n = z3.If(n < 0, 0, n)
                return n, (lambda k: it.start - k)
            if it.step == 1:
                n = it.stop - it.start
                n = z3.If(n < 0, 0, n)
                return n, (lambda k: it.start + k)
        if isinstance(it, (list, tuple)):
            return len(it), (lambda k: self.py_index(list(it), k))
        if isinstance(it, AbsObj):
            return self.seq_len_get(it.theory.iterate(self, it))
        if isinstance(it, Obj):
            itf, _ = self.index.find_method(it.cls, "__iter__")
            if itf is not None:
                return self.seq_len_get(self.call_function(itf, [it]))
        raise OutsideSubset(f"iteration over {it!r}")

    def py_index(self, items, k):
        if isinstance(k, int):
            return items[k]
        return items[self.concretize_int(k, len(items))]

    def abstract_loop(self, st, fr, spec, ordn, it, while_test=None):
        q = fr.finfo.qualname
        is_for = while_test is None
        if is_for:
            n, get = self.seq_len_get(it)
            n = z3.simplify(n) if z3.is_expr(n) else n
        else:
            n, get = None, None
        assigned = _assigned_names(st.body) | (_assigned_names([ast.Assign(targets=[st.target], value=None)]) if is_for else set())
        for var, shape in spec.modifies.items():
            cur = self._get_path(fr, var)
            if isinstance(shape, ListS) and isinstance(cur, (list, tuple)):
                self._set_path(fr, var, self.as_alist(cur, shape.elem, isinstance(cur, tuple)))
        pre_env = dict(fr.env)
        iter_pos0 = it.pos if isinstance(it, IterObj) else None
        # init
        st0 = LoopState(self, fr.env, pre_env, z3.IntVal(0), n, it)
        for nm, cl in spec.invariant(st0):
            self.oblige(f"{q}#inv{ordn}.init.{nm}", cl)
        choice = self.choose(2)
        # havoc
        k = z3.Int(fresh_name("k"))
        fr.env[f"__k{ordn}"] = k
        for var, shape in spec.modifies.items():
            self._set_path(fr, var, shape.fresh(var.replace(".", "_")))
        for var in assigned:
            if var not in spec.modifies and var in fr.env:
                fr.env[var] = UNDEF
        self.assume(k >= 0)
        sth = LoopState(self, fr.env, pre_env, k, n, it)
        for nm, cl in spec.invariant(sth):
            self.assume(cl)
        if choice == 0:   # one arbitrary iteration
            if is_for:
                self.assume(k < n)
                if isinstance(it, IterObj):
                    it.pos = iter_pos0 + k + 1
                self.assign(st.target, get(k), fr)
            else:
                if not self.truth(self.ev(while_test, fr)):
                    raise PathEnd()
            try:
                self.block(st.body, fr)
            except ContinueEx:
                pass
            except BreakEx:
                return
            st1 = LoopState(self, fr.env, pre_env, k + 1, n, it)
            for nm, cl in spec.invariant(st1):
                self.oblige(f"{q}#inv{ordn}.keep.{nm}", cl)
            raise PathEnd()
        else:             # exit
            if is_for:
                self.assume(k == n)
                if isinstance(it, IterObj):
                    it.pos = iter_pos0 + k
            else:
                if self.truth(self.ev(while_test, fr)):
                    raise PathEnd()
            for var in assigned:
                if var not in spec.modifies and is_for and var in _assigned_names([ast.Assign(targets=[st.target], value=None)]):
                    fr.env[var] = UNDEF
            self.block(st.orelse, fr)

    def _get_path(self, fr, var):
        if "." in var:
            o, f = var.split(".", 1)
            return fr.env[o].fields.get(f)
        return fr.env.get(var)

    def _set_path(self, fr, var, val):
        if "." in var:
            o, f = var.split(".", 1)
            self.set_field(fr.env[o].fields, f, val)
        else:
            fr.env[var] = val

    def while_loop(self, st, fr):
        spec, ordn = self.loop_spec(st, fr)
        if spec is None:
            # bounded unrolling is not sound in general -> only concrete-decidable loops
            for _ in range(64):
                c = self.ev(st.test, fr)
                d = self.decide(B(c)) if z3.is_expr(c) else bool(self.truth(c))
                if d is None:
                    raise OutsideSubset(f"while loop #{ordn} of {fr.finfo.qualname} has no invariant")
                if not d:
                    self.block(st.orelse, fr)
                    return
                try:
                    self.block(st.body, fr)
                except BreakEx:
                    return
                except ContinueEx:
                    continue
            raise OutsideSubset("while loop did not finish in 64 concrete iterations")
        self.abstract_loop(st, fr, spec, ordn, None, while_test=st.test)

    # ------------------------------------------------------------ truthiness
    def truth(self, v):
        if isinstance(v, bool):
            return v
        if v is None:
            return False
        if isinstance(v, (int, str, list, tuple, dict, set, frozenset)):
            return bool(v)
        if z3.is_expr(v):
            if z3.is_bool(v):
                return self.branch(v)
            if z3.is_int(v):
                return self.branch(v != 0)
            if z3.is_string(v):
                return self.branch(z3.Length(v) > 0)
            raise OutsideSubset("truth of real")
        if isinstance(v, Opt):
            if not self.branch(v.has):
                return False
            if v.kind == "str":
                return self.branch(z3.Length(v.val) > 0)
            if v.kind == "int":
                return self.branch(v.val != 0)
            return True
        if isinstance(v, (AList, SliceView)):
            return self.branch(v.n > 0)
        if isinstance(v, ASet):
            return self.branch(v.lst.n > 0)
        if isinstance(v, Obj):
            ln, _ = self.index.find_method(v.cls, "__len__")
            if ln is not None:
                return self.truth(self.call_function(ln, [v]))
            return True
        if isinstance(v, (SymObj, AbsObj, FuncRef, ClassRef, BoundMethod, Lambda, ExcVal)):
            return True
        if v is NOTIMPL:
            return True
        raise OutsideSubset(f"truth of {v!r}")

    def truth_term(self, v):
        """Boolean term for the truthiness of v, without forking (raises NeedFork if impossible)."""
        if isinstance(v, bool):
            return z3.BoolVal(v)
        if z3.is_expr(v) and z3.is_bool(v):
            return v
        self.nofork += 1
        try:
            return z3.BoolVal(self.truth(v))
        finally:
            self.nofork -= 1


class Frame:
    def __init__(self, finfo, env):
        self.finfo = finfo
        self.env = env
        self.module = finfo.module
        self.current_exc = None
        self._loops = None

    def loop_ordinal(self, node):
        if self._loops is None:
            self._loops = [n for n in ast.walk(self.finfo.node) if isinstance(n, (ast.For, ast.While, ast.ListComp, ast.GeneratorExp, ast.SetComp))]
            self._loops.sort(key=lambda n: (n.lineno, n.col_offset))
        return self._loops.index(node)

    def resolve_exc_alias(self, n):
        imp = self.module.imports.get(n)
        if imp and imp[1] and imp[1] != n and imp[0].startswith("packaging"):
            return {"InvalidSpecifier": "PkgInvalidSpecifier", "InvalidMarker": "PkgInvalidMarker"}.get(imp[1], imp[1])
        if imp and imp[0].startswith("packaging") and n == "InvalidSpecifier":
            return "PkgInvalidSpecifier"
        return n


class Concat:
    """[a, b, *rest] with an abstract tail: sequence of parts (python lists / ALists)."""

    def __init__(self, parts):
        self.parts = parts


def _load(t):
    t2 = ast.parse(ast.unparse(t), mode="eval").body
    return ast.copy_location(t2, t)


def _name_of(e):
    if isinstance(e, ast.Name):
        return e.id
    if isinstance(e, ast.Attribute):
        return e.attr
    return None


def _assigned_names(stmts):
    out = set()
    for st in stmts:
        for n in ast.walk(st):
            if isinstance(n, ast.Name) and isinstance(n.ctx, ast.Store):
                out.add(n.id)
            elif isinstance(n, ast.NamedExpr) and isinstance(n.target, ast.Name):
                out.add(n.target.id)
            elif isinstance(n, ast.Call) and isinstance(n.func, ast.Attribute) and isinstance(n.func.value, ast.Name) \
                    and n.func.attr in ("append", "extend"):
                out.add(n.func.value.id)
            elif isinstance(n, ast.Subscript) and isinstance(n.ctx, ast.Store) and isinstance(n.value, ast.Name):
                out.add(n.value.id)
    return out
