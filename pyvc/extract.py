"""Extraction: re-reads the real dep_logic sources on every run and indexes them.

What is *dropped* (reported in every evidence file): type annotations, docstrings,
import statements (names are resolved against this index), TYPE_CHECKING blocks,
``t.cast(T, x)`` (identity), ``__repr__``, ``__slots__`` effects of DATACLASS_ARGS.
Nothing else is removed: every other statement/expression is interpreted by
pyvc.engine or makes the function "outside subset" (verdict undecided, never held).
"""
from __future__ import annotations

import ast
import hashlib
import os

REPO = os.environ.get("VERIF_REPO", "/repo")
SRC_ROOT = os.path.join(REPO, "src", "dep_logic")

DROPPED = [
    "type annotations", "docstrings", "import statements (resolved against the index)",
    "TYPE_CHECKING blocks", "typing.cast (identity)", "__repr__", "__slots__ effects of DATACLASS_ARGS",
]


class FuncInfo:
    def __init__(self, module, cls, node, decorators):
        self.module = module          # ModuleInfo
        self.cls = cls                # ClassInfo | None
        self.node = node              # ast.FunctionDef | ast.Lambda
        self.name = getattr(node, "name", "<lambda>")
        self.decorators = decorators  # list[str]

    @property
    def qualname(self):
        c = f"{self.cls.name}." if self.cls else ""
        return f"{self.module.name}:{c}{self.name}"

    @property
    def is_classmethod(self):
        return "classmethod" in self.decorators

    @property
    def is_staticmethod(self):
        return "staticmethod" in self.decorators

    @property
    def is_property(self):
        return "property" in self.decorators or "cached_property" in self.decorators

    def source_hash(self):
        return hashlib.sha256(ast.dump(self.node).encode()).hexdigest()[:16]

    def __repr__(self):
        return f"<Func {self.qualname}>"


class FieldInfo:
    def __init__(self, name, default, compare, hash_, init):
        self.name, self.default, self.compare, self.hash, self.init = name, default, compare, hash_, init


class ClassInfo:
    def __init__(self, module, node):
        self.module = module
        self.node = node
        self.name = node.name
        self.base_names = [_dotted(b) for b in node.bases]
        self.methods: dict[str, FuncInfo] = {}
        self.attrs: dict[str, ast.expr] = {}      # class-level assignments (ClassVar values, aliases)
        self.fields: list[FieldInfo] = []         # dataclass fields in order (own only)
        self.dataclass = None                     # dict of dataclass(...) keyword constants or None
        self.enum_members: list[tuple[str, ast.expr]] = []
        for dec in node.decorator_list:
            nm = _dotted(dec.func) if isinstance(dec, ast.Call) else _dotted(dec)
            if nm == "dataclass":
                self.dataclass = {}
                if isinstance(dec, ast.Call):
                    for kw in dec.keywords:
                        if kw.arg and isinstance(kw.value, ast.Constant):
                            self.dataclass[kw.arg] = kw.value.value
        for st in node.body:
            if isinstance(st, ast.FunctionDef):
                decs = [(_dotted(d.func) if isinstance(d, ast.Call) else _dotted(d)).split(".")[-1] for d in st.decorator_list]
                self.methods[st.name] = FuncInfo(module, self, st, decs)
            elif isinstance(st, ast.AnnAssign) and isinstance(st.target, ast.Name):
                ann = ast.unparse(st.annotation)
                if "ClassVar" in ann:
                    if st.value is not None:
                        self.attrs[st.target.id] = st.value
                    continue
                if self.dataclass is not None:
                    default, compare, hash_, init = None, True, None, True
                    has_default = st.value is not None
                    if isinstance(st.value, ast.Call) and _dotted(st.value.func) == "field":
                        has_default = False
                        for kw in st.value.keywords:
                            if kw.arg == "default":
                                default, has_default = kw.value, True
                            elif kw.arg == "compare":
                                compare = kw.value.value
                            elif kw.arg == "hash":
                                hash_ = kw.value.value
                            elif kw.arg == "init":
                                init = kw.value.value
                    elif st.value is not None:
                        default = st.value
                    f = FieldInfo(st.target.id, default if has_default else None, compare, hash_, init)
                    f.has_default = has_default
                    self.fields.append(f)
                else:
                    # plain annotated class attribute (e.g. SingleMarker.name) - no value
                    if st.value is not None:
                        self.attrs[st.target.id] = st.value
            elif isinstance(st, ast.Assign) and len(st.targets) == 1 and isinstance(st.targets[0], ast.Name):
                self.attrs[st.targets[0].id] = st.value
                self.enum_members.append((st.targets[0].id, st.value))

    def __repr__(self):
        return f"<Class {self.module.name}:{self.name}>"


class ModuleInfo:
    def __init__(self, name, path):
        self.name = name
        self.path = path
        src = open(path).read()
        self.sha256 = hashlib.sha256(src.encode()).hexdigest()
        self.tree = ast.parse(src)
        self.classes: dict[str, ClassInfo] = {}
        self.functions: dict[str, FuncInfo] = {}
        self.globals: dict[str, ast.expr] = {}
        self.imports: dict[str, tuple[str, str | None]] = {}   # local name -> (module, attr)
        self._scan(self.tree.body)

    def _scan(self, body):
        for st in body:
            if isinstance(st, ast.ClassDef):
                self.classes[st.name] = ClassInfo(self, st)
            elif isinstance(st, ast.FunctionDef):
                decs = [(_dotted(d.func) if isinstance(d, ast.Call) else _dotted(d)).split(".")[-1] for d in st.decorator_list]
                self.functions[st.name] = FuncInfo(self, None, st, decs)
            elif isinstance(st, ast.Assign) and len(st.targets) == 1 and isinstance(st.targets[0], ast.Name):
                self.globals[st.targets[0].id] = st.value
            elif isinstance(st, ast.AnnAssign) and isinstance(st.target, ast.Name) and st.value is not None:
                self.globals[st.target.id] = st.value
            elif isinstance(st, ast.ImportFrom):
                for a in st.names:
                    self.imports[a.asname or a.name] = (("." * st.level) + (st.module or ""), a.name)
            elif isinstance(st, ast.Import):
                for a in st.names:
                    self.imports[a.asname or a.name.split(".")[0]] = (a.name, None)
            elif isinstance(st, ast.If):
                # `if TYPE_CHECKING:` dropped; `if sys.version_info >= (3, 10)` -> take the branch that runs (3.12)
                test = ast.unparse(st.test)
                if "TYPE_CHECKING" in test:
                    continue
                if test.startswith("sys.version_info >="):
                    self._scan(st.body)


def _dotted(node):
    if isinstance(node, ast.Name):
        return node.id
    if isinstance(node, ast.Attribute):
        return _dotted(node.value) + "." + node.attr
    if isinstance(node, ast.Call):
        return _dotted(node.func)
    return "?"


class Index:
    """All dep_logic modules, read from the working tree."""

    MODULES = {
        "dep_logic.utils": "utils.py",
        "dep_logic.specifiers.base": "specifiers/base.py",
        "dep_logic.specifiers.special": "specifiers/special.py",
        "dep_logic.specifiers.range": "specifiers/range.py",
        "dep_logic.specifiers.union": "specifiers/union.py",
        "dep_logic.specifiers.generic": "specifiers/generic.py",
        "dep_logic.specifiers.arbitrary": "specifiers/arbitrary.py",
        "dep_logic.specifiers": "specifiers/__init__.py",
        "dep_logic.markers.base": "markers/base.py",
        "dep_logic.markers.any": "markers/any.py",
        "dep_logic.markers.empty": "markers/empty.py",
        "dep_logic.markers.single": "markers/single.py",
        "dep_logic.markers.multi": "markers/multi.py",
        "dep_logic.markers.union": "markers/union.py",
        "dep_logic.markers": "markers/__init__.py",
        "dep_logic.tags.os": "tags/os.py",
        "dep_logic.tags.platform": "tags/platform.py",
        "dep_logic.tags.tags": "tags/tags.py",
    }

    def __init__(self, root=None):
        root = root or SRC_ROOT
        self.root = root
        self.modules: dict[str, ModuleInfo] = {}
        for name, rel in self.MODULES.items():
            self.modules[name] = ModuleInfo(name, os.path.join(root, rel))
        # class lookup by bare name; module-qualified lookups for the two `MarkerUnion`/`UnionSpecifier` etc. are unique
        self.classes: dict[str, ClassInfo] = {}
        for m in self.modules.values():
            for c in m.classes.values():
                if c.name in self.classes:
                    # name clash (none expected except re-definitions); keep first, record both under qualified key
                    pass
                else:
                    self.classes[c.name] = c
                self.classes[f"{m.name}:{c.name}"] = c

    def cls(self, name) -> ClassInfo:
        return self.classes[name]

    def func(self, qual) -> FuncInfo:
        mod, _, rest = qual.partition(":")
        m = self.modules[mod]
        if "." in rest:
            c, _, f = rest.partition(".")
            return m.classes[c].methods[f]
        return m.functions[rest]

    def mro(self, cls: ClassInfo) -> list[ClassInfo]:
        out = [cls]
        for b in cls.base_names:
            b = b.split(".")[-1]
            if b in self.classes:
                for x in self.mro(self.classes[b]):
                    if x not in out:
                        out.append(x)
        return out

    def is_subclass(self, cls: ClassInfo, base_name: str) -> bool:
        if any(c.name == base_name for c in self.mro(cls)):
            return True
        # builtin exception bases
        for c in self.mro(cls):
            for b in c.base_names:
                if b.split(".")[-1] == base_name:
                    return True
                if b == "ValueError" and base_name == "Exception":
                    return True
        return False

    def find_method(self, cls: ClassInfo, name: str):
        """Returns (FuncInfo | ast.expr alias target, defining class) following the MRO; resolves `__rand__ = __and__`."""
        for c in self.mro(cls):
            if name in c.methods:
                return c.methods[name], c
            if name in c.attrs:
                v = c.attrs[name]
                if isinstance(v, ast.Name) and v.id in c.methods:
                    return c.methods[v.id], c
                return v, c
        return None, None

    def all_fields(self, cls: ClassInfo) -> list[FieldInfo]:
        out: list[FieldInfo] = []
        for c in reversed(self.mro(cls)):
            if c.dataclass is not None:
                for f in c.fields:
                    out = [x for x in out if x.name != f.name] + [f]
        return out

    def sha(self):
        return {m.name: m.sha256 for m in self.modules.values()}
