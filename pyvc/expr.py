"""Expression evaluation for the pyvc symbolic executor (mixin of engine.Exec)."""
from __future__ import annotations

import ast

import z3

from .values import (ASet, ConcatView, SliceView, AbsObj, AList, BoundMethod, Builtin, ClassRef, EnumObj, ExcClass, ExcVal, FuncRef, IterObj, Lambda,
                     ModRef, NeedFork, NOTIMPL, Obj, Opt, OutsideSubset, RaiseEx, RangeObj, ReturnEx, SymObj, UNDEF,
                     ZipObj, fresh_name)

BUILTINS = {"isinstance", "len", "tuple", "list", "iter", "zip", "enumerate", "range", "any", "all", "sorted", "str",
            "int", "set", "max", "min", "sum", "type", "map", "next", "hasattr", "bool", "filter", "frozenset", "hash",
            "object", "super", "reversed", "dict", "repr", "abs"}
EXC_NAMES = {"ValueError", "TypeError", "IndexError", "KeyError", "NotImplementedError", "AssertionError", "Exception",
             "AttributeError", "StopIteration", "InvalidVersion"}

BINOPS = {ast.BitAnd: ("__and__", "__rand__"), ast.BitOr: ("__or__", "__ror__"), ast.Add: ("__add__", "__radd__"),
          ast.Sub: ("__sub__", "__rsub__"), ast.Mult: ("__mul__", "__rmul__")}



def B(x):
    if z3.is_expr(x):
        return x
    if isinstance(x, bool):
        return z3.BoolVal(x)
    raise OutsideSubset(f"not a boolean: {x!r}")


TEXT_TOKENS = {"VersionText", "EpochText", "JoinDots", "RelText", "SpecText", "IntText", "PaddedText", "JunkText"}


def is_sym(v):
    return z3.is_expr(v)


class ExprMixin:
    # ------------------------------------------------------------ names
    def lookup(self, name, fr):
        if name in fr.env:
            v = fr.env[name]
            if v is UNDEF:
                raise OutsideSubset(f"variable {name} read after a loop that does not declare it in `modifies`")
            return v
        return self.global_lookup(name, fr.module)

    def global_lookup(self, name, module):
        if name in module.classes:
            return ClassRef(module.classes[name])
        if name in module.functions:
            return FuncRef(module.functions[name])
        if name in module.globals:
            key = (module.name, name)
            cache = self.__dict__.setdefault("_gcache", {})
            if key not in cache:
                from .engine import Frame
                from .extract import FuncInfo
                dummy = FuncInfo(module, None, ast.parse("def _m(): pass").body[0], [])
                cache[key] = self.ev(module.globals[name], Frame(dummy, {}))
            return cache[key]
        if name in module.imports:
            mod, attr = module.imports[name]
            target = self.resolve_module(mod, module)
            if target is not None:
                if attr is None:
                    return ModRef(target)
                if attr in target.classes or attr in target.functions or attr in target.globals or attr in target.imports:
                    return self.global_lookup(attr, target)
                sub = self.resolve_module((mod + "." + attr) if not mod.endswith(".") else mod + attr, module)
                if sub is not None:
                    return ModRef(sub)
            if target is None and attr is not None:
                sub = self.resolve_module((mod + attr) if mod.endswith(".") else (mod + "." + attr), module)
                if sub is not None:
                    return ModRef(sub)
            ext = self.theory.external(self, mod, attr or name) if self.theory else None
            if ext is not None:
                return ext
            if (attr or name) in EXC_NAMES or (attr or name).startswith("Invalid"):
                return ExcClass(attr or name)
            return Builtin(f"{mod}.{attr}" if attr else mod)
        if name == "NotImplemented":
            return NOTIMPL
        if name in EXC_NAMES:
            return ExcClass(name)
        if name in BUILTINS:
            return Builtin(name)
        raise OutsideSubset(f"unknown name {name} in {module.name}")

    def resolve_module(self, mod, frm):
        if mod.startswith("."):
            pkg = frm.name if frm.path.endswith("__init__.py") else frm.name.rsplit(".", 1)[0]
            level = len(mod) - len(mod.lstrip("."))
            for _ in range(level - 1):
                pkg = pkg.rsplit(".", 1)[0]
            rest = mod.lstrip(".")
            mod = pkg + ("." + rest if rest else "")
        return self.index.modules.get(mod)

    # ------------------------------------------------------------ expressions
    def ev(self, e, fr):
        m = getattr(self, "ev_" + type(e).__name__, None)
        if m is None:
            raise OutsideSubset(f"expression {type(e).__name__} at line {getattr(e, 'lineno', '?')}")
        return m(e, fr)

    def ev_Name(self, e, fr):
        return self.lookup(e.id, fr)

    def ev_Constant(self, e, fr):
        return e.value

    def ev_Tuple(self, e, fr):
        r = self.ev_elts(e.elts, fr, tuple)
        return r if isinstance(r, AList) else tuple(r)

    def ev_List(self, e, fr):
        return self.ev_elts(e.elts, fr, list)

    def ev_Set(self, e, fr):
        vals = [self.ev(x, fr) for x in e.elts]
        if all(isinstance(v, (str, int)) for v in vals):
            return set(vals)
        return SetVal(vals)

    def ev_elts(self, elts, fr, kind):
        from .engine import Concat
        parts, cur, abstract = [], [], False
        for x in elts:
            if isinstance(x, ast.Starred):
                v = self.ev(x.value, fr)
                l = None if isinstance(v, IterObj) and not isinstance(v.seq, (list, tuple)) else self.to_pylist(v)
                if l is not None:
                    cur.extend(l)
                else:
                    if isinstance(v, IterObj):
                        seq = v.seq
                        tail = self.alist_slice(seq, v.pos if z3.is_expr(v.pos) else z3.IntVal(v.pos), seq.n - v.pos)
                        v.pos = seq.n
                        v = tail
                    if not isinstance(v, (AList, SliceView)):
                        raise OutsideSubset("starred abstract value")
                    parts.append(cur)
                    parts.append(v)
                    cur, abstract = [], True
            else:
                cur.append(self.ev(x, fr))
        if not abstract:
            return cur
        parts.append(cur)
        parts = [p for p in parts if not (isinstance(p, list) and not p)]
        shape = next(p.shape for p in parts if not isinstance(p, list))
        acc = None
        for p in parts:
            if acc is None:
                acc = self.materialize(p) if isinstance(p, SliceView) else (p if isinstance(p, AList) else self.as_alist(p, shape))
                acc = AList(acc.shape, acc.arr, acc.off, acc.n, kind is tuple)
            elif isinstance(p, list):
                for x in p:
                    acc = self.alist_append(acc, x)
            else:
                acc = self.alist_concat(acc, p)
        return acc

    def ev_Dict(self, e, fr):
        return {self.ev(k, fr): self.ev(v, fr) for k, v in zip(e.keys, e.values)}

    def ev_Lambda(self, e, fr):
        return Lambda(e, fr.env, fr)

    def ev_NamedExpr(self, e, fr):
        v = self.ev(e.value, fr)
        fr.env[e.target.id] = v
        return v

    def ev_IfExp(self, e, fr):
        if self.truth(self.ev(e.test, fr)):
            return self.ev(e.body, fr)
        return self.ev(e.orelse, fr)

    def ev_JoinedStr(self, e, fr):
        parts = []
        for v in e.values:
            if isinstance(v, ast.Constant):
                parts.append(v.value)
            else:
                x = self.ev(v.value, fr)
                parts.append(self.to_str(x, repr_=(v.conversion == 114)))
        return self.str_concat(parts)

    def str_concat(self, parts):
        if all(isinstance(p, str) for p in parts):
            return "".join(parts)
        if self.theory is not None and hasattr(self.theory, "str_concat"):
            r = self.theory.str_concat(self, parts)
            if r is not None:
                return r
        ts = [z3.StringVal(p) if isinstance(p, str) else p for p in parts]
        if not all(z3.is_expr(t) and z3.is_string(t) for t in ts):
            raise OutsideSubset("f-string over non-string symbolic value")
        return z3.Concat(*ts) if len(ts) > 1 else ts[0]

    def to_str(self, x, repr_=False):
        if isinstance(x, str):
            return repr(x) if repr_ else x
        if isinstance(x, bool) or x is None or isinstance(x, int):
            return str(x)
        if z3.is_expr(x) and z3.is_string(x):
            if repr_:
                raise OutsideSubset("repr of symbolic string")
            return x
        if isinstance(x, Obj):
            f, _ = self.index.find_method(x.cls, "__str__")
            if f is not None:
                return self.call_function(f, [x])
        if self.theory is not None and hasattr(self.theory, "to_str"):
            r = self.theory.to_str(self, x)
            if r is not None:
                return r
        raise OutsideSubset(f"str() of {x!r}")

    def ev_BoolOp(self, e, fr):
        is_and = isinstance(e.op, ast.And)
        # first try: evaluate without forking (guards pushed for later operands)
        if not self.nofork:
            snapshot = (len(self.guards), dict(fr.env))
            self.nofork += 1
            try:
                acc = None
                for v in e.values:
                    x = self.ev(v, fr)
                    if z3.is_expr(x) and z3.is_bool(x):
                        xs = z3.simplify(x)
                        if z3.is_true(xs) or z3.is_false(xs):
                            x = z3.is_true(xs)          # a constant operand short-circuits like a Python bool (later operands are not evaluated)
                    if not (isinstance(x, bool) or (z3.is_expr(x) and z3.is_bool(x))):
                        raise NeedFork()
                    if isinstance(x, bool):
                        if x != is_and:          # False in an `and` / True in an `or`: Python stops here
                            return x
                        if acc is None and v is e.values[-1]:
                            return x
                        continue
                    x = B(x)
                    acc = x if acc is None else (z3.And(acc, x) if is_and else z3.Or(acc, x))
                    self.guards.append(x if is_and else z3.Not(x))
                return z3.simplify(acc) if acc is not None else is_and
            except NeedFork:
                fr.env.clear()
                fr.env.update(snapshot[1])
            finally:
                self.nofork -= 1
                del self.guards[snapshot[0]:]
        else:
            n0 = len(self.guards)
            try:
                acc = None
                for v in e.values:
                    x = self.ev(v, fr)
                    if z3.is_expr(x) and z3.is_bool(x):
                        xs = z3.simplify(x)
                        if z3.is_true(xs) or z3.is_false(xs):
                            x = z3.is_true(xs)          # a constant operand short-circuits like a Python bool (later operands are not evaluated)
                    if not (isinstance(x, bool) or (z3.is_expr(x) and z3.is_bool(x))):
                        raise NeedFork()
                    if isinstance(x, bool):
                        if x != is_and:          # False in an `and` / True in an `or`: Python stops here
                            return x
                        if acc is None and v is e.values[-1]:
                            return x
                        continue
                    x = B(x)
                    acc = x if acc is None else (z3.And(acc, x) if is_and else z3.Or(acc, x))
                    self.guards.append(x if is_and else z3.Not(x))
                return z3.simplify(acc) if acc is not None else is_and
            finally:
                del self.guards[n0:]
        # forking evaluation with Python's value-returning short circuit
        last = None
        for i, v in enumerate(e.values):
            last = self.ev(v, fr)
            if i == len(e.values) - 1:
                return last
            t = self.truth(last)
            if is_and and not t:
                return last if not z3.is_expr(last) else False
            if not is_and and t:
                return last if not z3.is_expr(last) else True
        return last

    def ev_UnaryOp(self, e, fr):
        v = self.ev(e.operand, fr)
        if isinstance(e.op, ast.Not):
            if isinstance(v, bool):
                return not v
            if z3.is_expr(v) and z3.is_bool(v):
                return z3.Not(v)
            return not self.truth(v)
        if isinstance(e.op, ast.USub):
            return -v
        if isinstance(e.op, ast.Invert):
            return self.invert(v)
        raise OutsideSubset("unary op")

    def invert(self, v):
        if isinstance(v, SymObj):
            law = self.law_contract("invert", v)
            if law is not None:
                return law(self, v)
            v = self.concretize(v)
        if isinstance(v, AbsObj):
            return v.theory.invert(self, v)
        if isinstance(v, Obj):
            f, _ = self.index.find_method(v.cls, "__invert__")
            if f is None:
                raise RaiseEx("TypeError")
            return self.call_function(f, [v])
        raise OutsideSubset("invert")

    def ev_BinOp(self, e, fr):
        return self.binop(e.op, self.ev(e.left, fr), self.ev(e.right, fr))

    def law_contract(self, op, *vals):
        if self.theory is None:
            return None
        return self.theory.law(self, op, *vals)

    def binop(self, op, a, b, inplace=False):
        t = type(op)
        # plain data
        if t in (ast.Add, ast.Sub, ast.Mult) and _is_num(a) and _is_num(b):
            return {ast.Add: lambda: a + b, ast.Sub: lambda: a - b, ast.Mult: lambda: a * b}[t]()
        if t is ast.Add:
            if isinstance(a, (str,)) or (z3.is_expr(a) and z3.is_string(a)) or type(a).__name__ in TEXT_TOKENS or type(b).__name__ in TEXT_TOKENS:
                return self.str_concat([a, b])
            if isinstance(a, list) and isinstance(b, list):
                return a + b
            if isinstance(a, tuple) and isinstance(b, tuple):
                return a + b
            if isinstance(a, (AList, SliceView)) or isinstance(b, (AList, SliceView)):
                shape = a.shape if isinstance(a, (AList, SliceView)) else b.shape
                if isinstance(a, (AList, SliceView)) and isinstance(b, (AList, SliceView)) and hasattr(shape, "sort") and shape.sort.kind() == z3.Z3_INT_SORT:
                    return ConcatView(a, b)          # lists of ints: kept lazy (len / iteration / set() read through it)
                a2 = self.materialize(a) if isinstance(a, SliceView) else self.as_alist(a, shape)
                b2 = b if isinstance(b, (AList, SliceView)) else self.as_alist(b, shape)
                return self.alist_concat(a2, b2)
        if t is ast.Mult and isinstance(a, list) and isinstance(b, int):
            return a * b
        if t is ast.Mult and isinstance(a, list) and z3.is_expr(b):
            if self.theory is not None and hasattr(self.theory, "list_repeat"):
                return self.theory.list_repeat(self, a, b)
        if t in (ast.BitAnd, ast.BitOr, ast.Sub) and isinstance(a, (set, frozenset)) and isinstance(b, (set, frozenset)):
            return {ast.BitAnd: a & b, ast.BitOr: a | b, ast.Sub: a - b}[t]
        if t in (ast.BitAnd, ast.Sub) and isinstance(a, ASet) and isinstance(b, ASet):
            return self.aset_op("intersection" if t is ast.BitAnd else "difference", a, b)
        if t not in BINOPS:
            raise OutsideSubset(f"binary operator {t.__name__}")
        name, rname = BINOPS[t]
        if isinstance(a, (SymObj,)) or isinstance(b, (SymObj,)):
            law = self.law_contract(name, a, b)
            if law is not None:
                return law(self, a, b)
            if isinstance(a, SymObj):
                a = self.concretize(a)
            if isinstance(b, SymObj):
                b = self.concretize(b)
        if isinstance(a, AbsObj) or isinstance(b, AbsObj):
            th = a.theory if isinstance(a, AbsObj) else b.theory
            return th.binop(self, name, a, b)
        if isinstance(a, Obj) and a.cls.name == "OrderedSet" and self.theory is not None and hasattr(self.theory, "oset_binop"):
            r = self.theory.oset_binop(self, name, a, b)
            if r is not NOTIMPL:
                return r
        return self.dispatch_binop(name, rname, a, b)

    def dispatch_binop(self, name, rname, a, b):
        """Python's binary operator protocol on repo objects."""
        ca, cb = self.class_of(a), self.class_of(b)
        fa = self.index.find_method(ca, name)[0] if ca else None
        fb = self.index.find_method(cb, rname)[0] if cb else None
        tried_reflected = False
        if ca is not None and cb is not None and cb is not ca and self.index.is_subclass(cb, ca.name) and fb is not None:
            # reflected first when right operand's type is a proper subclass overriding the reflected method
            fa_r = self.index.find_method(ca, rname)[0]
            if fb is not fa_r:
                r = self.call_function(fb, [b, a])
                tried_reflected = True
                if r is not NOTIMPL:
                    return r
        if fa is not None:
            r = self.call_function(fa, [a, b])
            if r is not NOTIMPL:
                return r
        if fb is not None and not tried_reflected and ca is not cb:
            r = self.call_function(fb, [b, a])
            if r is not NOTIMPL:
                return r
        if ca is None and cb is None:
            # neither operand is an object of the library: a built-in operation the executor does not model (str * n, ...) - not a TypeError of the program
            raise OutsideSubset(f"operator {name} on {type(a).__name__} and {type(b).__name__} is not modelled")
        raise RaiseEx("TypeError", f"unsupported operand types for {name}")

    def class_of(self, v):
        if isinstance(v, Obj):
            return v.cls
        return None

    def concretize(self, v):
        return v.shape.concretize(self, v)

    # ------------------------------------------------------------ comparison
    def ev_Compare(self, e, fr):
        left = self.ev(e.left, fr)
        if len(e.ops) == 1:
            return self.compare(e.ops[0], left, self.ev(e.comparators[0], fr))
        acc = None
        # chained comparison a op b op c  ==  (a op b) and (b op c); operands here are pure
        vals = [left] + [self.ev(c, fr) for c in e.comparators]
        for op, l, r in zip(e.ops, vals, vals[1:]):
            x = self.compare(op, l, r)
            x = B(x) if (isinstance(x, bool) or z3.is_expr(x)) else B(self.truth(x))
            acc = x if acc is None else z3.And(acc, x)
        return z3.simplify(acc)

    def compare(self, op, l, r):
        t = type(op)
        if t in (ast.Is, ast.IsNot):
            res = self.identical(l, r)
            return res if t is ast.Is else self.negate(res)
        if t in (ast.Eq, ast.NotEq):
            res = self.equals(l, r)
            return res if t is ast.Eq else self.negate(res)
        if t in (ast.In, ast.NotIn):
            res = self.contains(r, l)
            return res if t is ast.In else self.negate(res)
        # ordering
        return self.order(t, l, r)

    def negate(self, x):
        if isinstance(x, bool):
            return not x
        return z3.simplify(z3.Not(x))

    def identical(self, l, r):
        if r is None or l is None:
            o = l if r is None else r
            if o is None:
                return True
            if isinstance(o, Opt):
                return z3.Not(o.has)
            return False
        if isinstance(l, bool) and z3.is_expr(r):
            return r == z3.BoolVal(l)
        if isinstance(r, bool) and z3.is_expr(l):
            return l == z3.BoolVal(r)
        if z3.is_expr(l) and z3.is_expr(r) and z3.is_bool(l) and z3.is_bool(r):
            return l == r
        if isinstance(l, ClassRef) and isinstance(r, ClassRef):
            return l.cinfo is r.cinfo
        if isinstance(l, (bool, int, str)) and isinstance(r, (bool, int, str)):
            return l is r or (type(l) is type(r) and l == r)
        if self.theory is not None and hasattr(self.theory, "identical"):
            x = self.theory.identical(self, l, r)
            if x is not None:
                return x
        if l is r:
            return True
        if isinstance(l, Obj) and isinstance(r, Obj):
            return False        # two separately created objects (callers add an aliased case where both operands are one object)
        raise OutsideSubset(f"`is` on {l!r}, {r!r}")

    def equals(self, l, r):
        if isinstance(l, Opt) or isinstance(r, Opt):
            if self.theory is not None and hasattr(self.theory, "opt_eq"):
                x = self.theory.opt_eq(self, l, r)
                if x is not None:
                    return x
            if isinstance(l, Opt) and isinstance(r, Opt):
                return z3.And(l.has == r.has, z3.Implies(l.has, l.val == r.val))
            o, x = (l, r) if isinstance(l, Opt) else (r, l)
            if x is None:
                return z3.Not(o.has)
            if o.kind == "pair":
                raise OutsideSubset("comparison of Version.pre with a value other than None")
            if isinstance(x, str):
                x = z3.StringVal(x)
            if o.kind == "int" and isinstance(x, int) and not isinstance(x, bool):
                x = z3.IntVal(x)
            if z3.is_expr(x):
                return z3.And(o.has, o.val == x)
            return False
        if self.theory is not None and hasattr(self.theory, "coerce_eq") and (isinstance(l, str) or isinstance(r, str)):
            l, r = self.theory.coerce_eq(l, r)
        if z3.is_expr(l) or z3.is_expr(r):
            if l is None or r is None:
                return False
            if isinstance(l, (Obj, AbsObj, SymObj)) or isinstance(r, (Obj, AbsObj, SymObj)):
                return False if not isinstance(l, AbsObj) and not isinstance(r, AbsObj) else self._abs_eq(l, r)
            if isinstance(l, (tuple, list)) or isinstance(r, (tuple, list)):
                return False
            lz, rz = _lift(l, r), _lift(r, l)
            if lz is None or rz is None or lz.sort() != rz.sort():
                return False
            return lz == rz
        if isinstance(l, (tuple, list)) and isinstance(r, (tuple, list)):
            if type(l) is not type(r):
                return False
            if len(l) != len(r):
                return False
            acc = []
            for x, y in zip(l, r):
                c = self.equals(x, y)
                if c is False:
                    return False
                if c is not True:
                    acc.append(B(c))
            return True if not acc else z3.And(*acc)
        if isinstance(l, ASet) and isinstance(r, ASet):
            return z3.And(self.aset_op("issubset", l, r), self.aset_op("issubset", r, l))       # set equality = mutual inclusion
        if isinstance(l, AList) or isinstance(r, AList):
            return self.alist_eq(l, r)
        if isinstance(l, (AbsObj,)) or isinstance(r, (AbsObj,)):
            return self._abs_eq(l, r)
        if isinstance(l, SymObj) or isinstance(r, SymObj):
            law = self.law_contract("__eq__", l, r)
            if law is not None:
                return law(self, l, r)
            if isinstance(l, SymObj):
                l = self.concretize(l)
            if isinstance(r, SymObj):
                r = self.concretize(r)
        if isinstance(l, Obj) or isinstance(r, Obj):
            return self.obj_eq(l, r)
        if isinstance(l, ClassRef) and isinstance(r, ClassRef):
            return l.cinfo is r.cinfo
        if type(l).__name__ == "SetOfList" or type(r).__name__ == "SetOfList":
            sl, other = (l, r) if type(l).__name__ == "SetOfList" else (r, l)
            if not isinstance(other, (set, frozenset)) or not all(isinstance(x, int) for x in other):
                raise OutsideSubset("set(list) compared with a non-constant set")
            seq = sl.alist
            i = z3.Int(fresh_name("si"))
            n, get = self.seq_len_get(seq)
            members = z3.ForAll([i], z3.Implies(z3.And(0 <= i, i < n), z3.Or(*[get(i) == x for x in other]) if other else z3.BoolVal(False)))
            each = [z3.Exists([i], z3.And(0 <= i, i < n, get(i) == x)) for x in other]
            return z3.And(members, *each)
        if isinstance(l, (SetVal, set, frozenset)) and isinstance(r, (SetVal, set, frozenset)) and (isinstance(l, SetVal) or isinstance(r, SetVal)):
            li = l.items if isinstance(l, SetVal) else sorted(l, key=repr)
            ri = r.items if isinstance(r, SetVal) else sorted(r, key=repr)
            sub = lambda xs, ys: z3.And(*[B(self.contains(list(ys), x)) if not isinstance(self.contains(list(ys), x), bool) else z3.BoolVal(self.contains(list(ys), x)) for x in xs]) if xs else z3.BoolVal(True)
            return z3.simplify(z3.And(sub(li, ri), sub(ri, li)))
        if isinstance(l, (str, int, bool, type(None), set, frozenset, dict)) and isinstance(r, (str, int, bool, type(None), set, frozenset, dict)):
            return l == r
        if l is NOTIMPL or r is NOTIMPL:
            return l is r
        if l is r:
            return True                  # the very same value (str ==, or a dataclass-free object compared with itself)
        if self.theory is not None and hasattr(self.theory, "equals_other"):
            x = self.theory.equals_other(self, l, r)
            if x is not None:
                return x
        raise OutsideSubset(f"== on {l!r}, {r!r}")

    def _abs_eq(self, l, r):
        th = l.theory if isinstance(l, AbsObj) else r.theory
        return th.equals(self, l, r)

    def alist_eq(self, l, r):
        if isinstance(l, AList) and isinstance(r, AList):
            if l.is_tuple != r.is_tuple:
                return False
            i = z3.Int(fresh_name("qi"))
            sh = l.shape
            if hasattr(sh, "eq_terms"):
                body = sh.eq_terms(self, z3.Select(l.arr, i), z3.Select(r.arr, i))
            else:
                body = z3.Select(l.arr, i) == z3.Select(r.arr, i)
            return z3.And(l.n == r.n, z3.ForAll([i], z3.Implies(z3.And(0 <= i, i < l.n), body)))
        a, o = (l, r) if isinstance(l, AList) else (r, l)
        items = self.to_pylist(o) if isinstance(o, (list, tuple)) else None
        if items is None or (isinstance(o, tuple) != a.is_tuple):
            return False
        acc = [a.n == len(items)]
        for j, x in enumerate(items):
            c = self.equals(a.get(j), x)
            acc.append(B(c))
        return z3.And(*acc)

    def obj_eq(self, l, r):
        """Python == protocol: l.__eq__(r), then reflected r.__eq__(l), then identity."""
        def call_eq(x, y):
            if not isinstance(x, Obj):
                return NOTIMPL
            f, owner = self.index.find_method(x.cls, "__eq__")
            if f is not None and not self._dataclass_eq_shadows(x.cls, owner):
                return self.call_function(f, [x, y])
            if self._has_dataclass_eq(x.cls):
                return self.dataclass_eq(x, y)
            if self._is_enum(x.cls) and isinstance(y, Obj) and self._is_enum(y.cls):
                return x.cls is y.cls and self.equals(x.fields["_name_"], y.fields["_name_"])
            return NOTIMPL
        cr, cl = self.class_of(r), self.class_of(l)
        if cl is not None and cr is not None and cr is not cl and self.index.is_subclass(cr, cl.name):
            res = call_eq(r, l)
            if res is not NOTIMPL:
                return res
        res = call_eq(l, r)
        if res is NOTIMPL:
            res = call_eq(r, l)
        if res is NOTIMPL:
            return l is r
        return res

    def _is_enum(self, cls):
        return any(b.split(".")[-1] in ("Enum", "IntEnum") for c in self.index.mro(cls) for b in c.base_names)

    def _has_dataclass_eq(self, cls):
        return any(c.dataclass is not None and c.dataclass.get("eq", True) for c in self.index.mro(cls))

    def _dataclass_eq_shadows(self, cls, owner):
        """A dataclass decorator on a class generates __eq__ unless the class body defines it."""
        for c in self.index.mro(cls):
            if c is owner:
                return False
            if c.dataclass is not None and c.dataclass.get("eq", True):
                return True
        return False

    def dataclass_eq(self, x, y):
        if not isinstance(y, Obj) or y.cls is not x.cls:
            return NOTIMPL
        acc = []
        for f in self.index.all_fields(x.cls):
            if not f.compare:
                continue
            c = self.equals(x.fields[f.name], y.fields[f.name])
            if c is False:
                return False
            if c is not True:
                acc.append(B(c))
        return True if not acc else z3.simplify(z3.And(*acc))

    def order(self, t, l, r):
        sym = {ast.Lt: lambda a, b: a < b, ast.LtE: lambda a, b: a <= b, ast.Gt: lambda a, b: a > b, ast.GtE: lambda a, b: a >= b}[t]
        for o in (l, r):
            if isinstance(o, Opt):
                if self.branch(z3.Not(o.has)):
                    raise RaiseEx("TypeError", "ordering comparison with None")
        if l is None or r is None:
            raise RaiseEx("TypeError", "ordering comparison with None")
        lv = l.val if isinstance(l, Opt) else l
        rv = r.val if isinstance(r, Opt) else r
        if isinstance(lv, tuple) and isinstance(rv, tuple):
            return self.tuple_order(t, lv, rv)
        if isinstance(lv, (int, str)) and isinstance(rv, (int, str)) and type(lv) is type(rv):
            return sym(lv, rv)
        if isinstance(lv, Obj) or isinstance(rv, Obj):
            name, rname = {ast.Lt: ("__lt__", "__gt__"), ast.Gt: ("__gt__", "__lt__"), ast.LtE: ("__le__", "__ge__"), ast.GtE: ("__ge__", "__le__")}[t]
            return self.dispatch_binop(name, rname, lv, rv)
        if z3.is_expr(lv) or z3.is_expr(rv):
            lz, rz = _lift(lv, rv), _lift(rv, lv)
            if lz is None or rz is None:
                raise OutsideSubset("ordering of mixed values")
            if z3.is_string(lz):
                return {ast.Lt: lz < rz, ast.LtE: lz <= rz, ast.Gt: rz < lz, ast.GtE: rz <= lz}[t]
            return sym(lz, rz)
        raise OutsideSubset(f"ordering on {l!r},{r!r}")

    def tuple_order(self, t, l, r):
        # lexicographic, equal lengths of numbers only
        if len(l) != len(r):
            raise OutsideSubset("tuple ordering with different lengths")
        strict = t in (ast.Lt, ast.Gt)
        less = (lambda a, b: a < b) if t in (ast.Lt, ast.LtE) else (lambda a, b: a > b)
        acc = z3.BoolVal(not strict)
        for a, b in reversed(list(zip(l, r))):
            a, b = _lift(a, b), _lift(b, a)
            acc = z3.Or(less(a, b), z3.And(a == b, acc))
        return z3.simplify(acc)

    def contains(self, container, item):
        if isinstance(container, str) and isinstance(item, str):
            return item in container
        if (isinstance(container, str) or (z3.is_expr(container) and z3.is_string(container))) and \
                (isinstance(item, str) or (z3.is_expr(item) and z3.is_string(item))):
            c = z3.StringVal(container) if isinstance(container, str) else container
            i = z3.StringVal(item) if isinstance(item, str) else item
            return z3.Contains(c, i)
        if isinstance(container, (set, frozenset, dict)) and isinstance(item, (str, int)):
            return item in container
        if isinstance(container, (list, tuple, set, frozenset)) or isinstance(container, dict):
            items = list(container.keys()) if isinstance(container, dict) else list(container)
            acc = []
            for x in items:
                c = self.equals(x, item) if not (isinstance(x, bool) or isinstance(item, bool) or _both_bool(x, item)) else self._bool_eq(x, item)
                if c is True:
                    return True
                if c is not False:
                    acc.append(B(c))
            return False if not acc else z3.simplify(z3.Or(*acc))
        if isinstance(container, AList):
            i = z3.Int(fresh_name("mi"))
            sh = container.shape
            it = sh.enc(item)
            if hasattr(sh, "eq_terms"):
                body = sh.eq_terms(self, z3.Select(container.arr, i), it)
            else:
                body = z3.Select(container.arr, i) == it
            return z3.Exists([i], z3.And(0 <= i, i < container.n, body))
        if isinstance(container, SetVal):
            return self.contains(container.items, item)
        if isinstance(container, ASet):
            return self.contains(container.lst, item)
        if isinstance(container, SymObj):
            container = self.concretize(container)
        if isinstance(container, AbsObj):
            return container.theory.contains(self, container, item)
        if isinstance(container, Obj):
            f, _ = self.index.find_method(container.cls, "__contains__")
            if f is not None:
                return self.call_function(f, [container, item])
            f, _ = self.index.find_method(container.cls, "__iter__")
            if f is not None:
                return self.contains(self.call_function(f, [container]), item)
            raise RaiseEx("TypeError", "not a container")
        if isinstance(container, IterObj):
            return self.contains(container.seq, item)
        if self.theory is not None and hasattr(self.theory, "contains_other"):
            r = self.theory.contains_other(self, container, item)
            if r is not None:
                return r
        raise OutsideSubset(f"`in` on {container!r}")

    def _bool_eq(self, x, y):
        return B(x) == B(y) if (z3.is_expr(x) or z3.is_expr(y)) else x == y

    # ------------------------------------------------------------ attribute / subscript
    def ev_Attribute(self, e, fr):
        o = self.ev(e.value, fr)
        return self.getattr(o, e.attr, fr)

    def getattr(self, o, attr, fr=None):
        if isinstance(o, SymObj):
            o = self.concretize(o)
        if isinstance(o, Opt) and self.theory is not None and hasattr(self.theory, "opt_unwrap"):
            if self.branch(z3.Not(o.has)):
                raise RaiseEx("AttributeError", f"'NoneType' object has no attribute '{attr}'")
            u = self.theory.opt_unwrap(self, o)
            if u is None:
                raise OutsideSubset(f"attribute {attr} of optional {o.kind}")
            o = u
        if isinstance(o, Obj):
            if attr in o.fields:
                return o.fields[attr]
            if attr == "__class__":
                return ClassRef(o.cls)
            f, owner = self.index.find_method(o.cls, attr)
            if f is None:
                if self.theory is not None and hasattr(self.theory, "obj_getattr"):
                    r = self.theory.obj_getattr(self, o, attr)
                    if r is not None:
                        return r
                raise RaiseEx("AttributeError", attr)
            if hasattr(f, "node") and isinstance(f.node, ast.FunctionDef):
                if f.is_property:
                    if "cached_property" in f.decorators and attr in o.cache:
                        return o.cache[attr]
                    v = self.call_function(f, [o])
                    if "cached_property" in f.decorators:
                        self.set_field(o.cache, attr, v)
                    return v
                if f.is_classmethod:
                    return BoundMethod(ClassRef(o.cls), f)
                if f.is_staticmethod:
                    return FuncRef(f)
                return BoundMethod(o, f)
            # class attribute expression
            return self.class_attr(owner, attr)
        if isinstance(o, ClassRef):
            f, owner = self.index.find_method(o.cinfo, attr)
            if f is None:
                if attr == "__name__":
                    return o.cinfo.name
                raise RaiseEx("AttributeError", attr)
            if hasattr(f, "node") and isinstance(f.node, ast.FunctionDef):
                if f.is_classmethod:
                    return BoundMethod(o, f)
                return FuncRef(f)
            return self.class_attr(owner, attr)
        if isinstance(o, AbsObj):
            return o.theory.getattr(self, o, attr)
        if isinstance(o, ModRef):
            return self.global_lookup(attr, o.minfo)
        if isinstance(o, Builtin):
            return Builtin(o.name + "." + attr)
        if isinstance(o, (str, list, tuple, dict, set, frozenset, AList, IterObj, ASet)) or (z3.is_expr(o)):
            return BoundBuiltin(o, attr)
        if self.theory is not None and hasattr(self.theory, "getattr_other"):
            r = self.theory.getattr_other(self, o, attr)
            if r is not None:
                return r
        if type(o).__name__ in TEXT_TOKENS:
            return BoundBuiltin(o, attr)
        raise OutsideSubset(f"attribute {attr} of {o!r}")

    def class_attr(self, cls, attr):
        key = (cls.module.name, cls.name, attr)
        cache = self.__dict__.setdefault("_cacache", {})
        if key not in cache:
            from .engine import Frame
            from .extract import FuncInfo
            dummy = FuncInfo(cls.module, cls, ast.parse("def _c(): pass").body[0], [])
            if self._is_enum(cls) and any(n == attr for n, _ in cls.enum_members):
                vexpr = cls.attrs[attr]
                if isinstance(vexpr, ast.Call) and ast.unparse(vexpr.func) in ("auto", "enum.auto"):
                    val = [n for n, _ in cls.enum_members].index(attr) + 1      # enum.auto(): 1, 2, 3, ...
                else:
                    val = self.ev(vexpr, Frame(dummy, {}))
                cache[key] = Obj(cls, {"_name_": attr, "value": val})
            else:
                cache[key] = self.ev(cls.attrs[attr], Frame(dummy, {}))
        return cache[key]

    def ev_Subscript(self, e, fr):
        base = self.ev(e.value, fr)
        if isinstance(e.slice, ast.Slice):
            lo = self.ev(e.slice.lower, fr) if e.slice.lower is not None else None
            hi = self.ev(e.slice.upper, fr) if e.slice.upper is not None else None
            if e.slice.step is not None:
                raise OutsideSubset("slice step")
            return self.slice(base, lo, hi)
        idx = self.ev(e.slice, fr)
        return self.index_value(base, idx)

    def index_value(self, base, idx):
        if isinstance(base, (list, tuple, str)):
            if isinstance(idx, int):
                if not -len(base) <= idx < len(base):
                    raise RaiseEx("IndexError")
                return base[idx]
            if isinstance(base, str):
                raise OutsideSubset("symbolic index into concrete str")
            return self.py_index(list(base), idx)
        if type(base).__name__ == "EnvMapping":
            return self.theory.index_env(self, idx)
        if isinstance(base, dict):
            if isinstance(idx, (str, int, tuple)):
                if idx not in base:
                    raise RaiseEx("KeyError")
                return base[idx]
            # symbolic key over a concrete dict: fork over keys
            for k in base:
                if self.truth(self.equals(k, idx)):
                    return base[k]
            raise RaiseEx("KeyError")
        if isinstance(base, (AList, SliceView)):
            idx = self.norm_index(base, idx)
            return base.get(idx)
        if z3.is_expr(base) and z3.is_string(base):
            if isinstance(idx, int) and idx >= 0:
                if self.branch(z3.Length(base) <= idx):
                    raise RaiseEx("IndexError")
                return z3.SubString(base, idx, 1)
        raise OutsideSubset(f"subscript of {base!r}")

    def slice(self, base, lo, hi):
        if isinstance(base, (list, tuple, str)) and all(x is None or isinstance(x, int) for x in (lo, hi)):
            return base[lo:hi]
        if isinstance(base, (AList, SliceView)):
            def norm(x, dflt):
                if x is None:
                    return dflt
                if isinstance(x, int) and x < 0:
                    x = base.n + x
                x = x if z3.is_expr(x) else z3.IntVal(x)
                return z3.If(x < 0, 0, z3.If(x > base.n, base.n, x))
            lo2, hi2 = norm(lo, z3.IntVal(0)), norm(hi, base.n)
            n = z3.If(hi2 - lo2 < 0, 0, hi2 - lo2)
            return self.alist_slice(base, z3.simplify(lo2), z3.simplify(n))
        if z3.is_expr(base) and z3.is_string(base):
            L = z3.Length(base)
            def norm(x, dflt):
                if x is None:
                    return dflt
                if isinstance(x, int) and x < 0:
                    return z3.If(L + x < 0, 0, L + x)
                x = x if z3.is_expr(x) else z3.IntVal(x)
                return z3.If(x > L, L, x)
            lo2, hi2 = norm(lo, z3.IntVal(0)), norm(hi, L)
            return z3.SubString(base, lo2, z3.If(hi2 - lo2 < 0, 0, hi2 - lo2))
        if isinstance(base, list) and (z3.is_expr(lo) or z3.is_expr(hi)) and self.theory is not None and hasattr(self.theory, "list_slice"):
            return self.theory.list_slice(self, base, lo, hi)
        if self.theory is not None and hasattr(self.theory, "slice_other"):
            r = self.theory.slice_other(self, base, lo, hi)
            if r is not None:
                return r
        raise OutsideSubset(f"slice of {base!r}")

    # ------------------------------------------------------------ comprehensions
    def ev_ListComp(self, e, fr):
        return self.comprehension(e, fr, e.elt)

    def ev_GeneratorExp(self, e, fr):
        return self.comprehension(e, fr, e.elt)

    def ev_SetComp(self, e, fr):
        vals = self.comprehension(e, fr, e.elt)
        if isinstance(vals, list) and all(isinstance(v, (str, int)) for v in vals):
            return set(vals)
        return SetVal(vals)

    def comprehension(self, e, fr, elt, acc_shape=None):
        """Executed as the equivalent nested loops appending to a fresh local (Python semantics)."""
        out = []
        abstract = [False]
        tmp = "__comp%d" % id(e)

        def rec(gi):
            if gi == len(e.generators):
                out.append(self.ev(elt, fr))
                return
            g = e.generators[gi]
            it = self.ev(g.iter, fr)
            items = self.to_pylist(it)
            if items is None:
                raise _AbstractComp(it)
            for x in items:
                self.assign(g.target, x, fr)
                if all(self.truth(self.ev(c, fr)) for c in g.ifs):
                    rec(gi + 1)
        saved = dict(fr.env)
        try:
            rec(0)
        except _AbstractComp:
            fr.env.clear()
            fr.env.update(saved)
            return self.abstract_comprehension(e, fr, elt)
        # comprehension variables do not leak (except walrus targets)
        walrus = {n.target.id for n in ast.walk(e) if isinstance(n, ast.NamedExpr)}
        for k in list(fr.env):
            if k not in saved and k not in walrus:
                del fr.env[k]
        for k, v in saved.items():
            if k not in walrus:
                fr.env[k] = v
        return out

    def abstract_comprehension(self, e, fr, elt):
        """Comprehension over abstract sequences = nested for-loops appending to a hidden local `__acc`,
        each generator needing a loop invariant (ordinal of the comprehension node + generator index)."""
        spec_key = (fr.finfo.qualname, fr.loop_ordinal(e))
        spec = self.loop_specs.get(spec_key)
        if spec is None or not (isinstance(spec, tuple) and len(spec) == 2):
            # (a contract written for a for statement at this ordinal does not fit a comprehension: the code was restructured)
            raise OutsideSubset(f"comprehension #{spec_key[1]} of {spec_key[0]} over an abstract sequence has no invariant")
        acc_shape, gens = spec      # (ListS, [LoopSpec per generator])
        fr.env["__acc"] = AList(acc_shape.elem, z3.Const(fresh_name("acc"), z3.ArraySort(z3.IntSort(), acc_shape.elem.sort)), z3.IntVal(0), z3.IntVal(0))
        body = [ast.Expr(ast.Call(ast.Attribute(ast.Name("__acc", ast.Load()), "append", ast.Load()), [elt], []))]
        generators = []
        for g in e.generators:
            # `for (a, b) in itertools.product(X, Y)` == `for a in X for b in Y` (X, Y pure reads, evaluated once)
            if (isinstance(g.iter, ast.Call) and ast.unparse(g.iter.func) in ("itertools.product", "product")
                    and len(g.iter.args) == 2 and isinstance(g.target, ast.Tuple) and len(g.target.elts) == 2
                    and all(isinstance(a, (ast.Name, ast.Attribute)) for a in g.iter.args)):
                generators.append(ast.comprehension(g.target.elts[0], g.iter.args[0], [], 0))
                generators.append(ast.comprehension(g.target.elts[1], g.iter.args[1], g.ifs, 0))
            else:
                generators.append(g)
        for gi, (g, ls) in reversed(list(enumerate(zip(generators, gens)))):
            for c in reversed(g.ifs):
                body = [ast.If(c, body, [])]
            loop = ast.For(g.target, g.iter, body, [], lineno=e.lineno, col_offset=e.col_offset)
            loop._spec = ls
            loop._ordn = f"{spec_key[1]}g{gi}"
            body = [loop]
        ast.fix_missing_locations(body[0])
        self.for_loop(body[0], fr)
        return fr.env.pop("__acc")


class _AbstractComp(Exception):
    def __init__(self, it):
        self.it = it


class SetVal:
    """Set of symbolic values (membership by ==)."""

    def __init__(self, items):
        self.items = list(items)


class BoundBuiltin:
    def __init__(self, recv, name):
        self.recv, self.name = recv, name


def _is_num(x):
    return (isinstance(x, int) and not isinstance(x, bool)) or (z3.is_expr(x) and (z3.is_int(x) or z3.is_real(x)))


def _both_bool(x, y):
    return False


def _lift(v, other):
    if z3.is_expr(v):
        return v
    if isinstance(v, bool):
        return z3.BoolVal(v)
    if isinstance(v, int):
        if z3.is_expr(other) and z3.is_real(other):
            return z3.RealVal(v)
        return z3.IntVal(v)
    if isinstance(v, str):
        return z3.StringVal(v)
    return None
