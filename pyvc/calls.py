"""Call evaluation for the pyvc symbolic executor (mixin of engine.Exec)."""
from __future__ import annotations

import ast
import itertools

import z3

from .expr import B, BoundBuiltin, SetVal
from .values import (ASet, ListS, fresh_name, SliceView, AbsObj, AList, BoundMethod, Builtin, ClassRef, EnumObj, ExcClass, ExcVal, FuncRef, IterObj, Lambda,
                     ModRef, NOTIMPL, Obj, Opt, OutsideSubset, RaiseEx, RangeObj, ReturnEx, SymObj, ZipObj, fresh_name)


class CallMixin:
    def ev_Call(self, e, fr):
        if isinstance(e.func, ast.Name) and e.func.id in ("any", "all") and len(e.args) == 1 and isinstance(e.args[0], ast.GeneratorExp) \
                and e.func.id not in fr.env:
            q = self.quantified_any_all(e.func.id, e.args[0], fr)
            if q is not None:
                return q
        if self._is_reduce_of_map(e):
            r = self.abstract_reduce(e, fr)
            if r is not NotImplemented:
                return r
        f = self.ev(e.func, fr)
        args = []
        for a in e.args:
            if isinstance(a, ast.Starred):
                v = self.ev(a.value, fr)
                l = self.to_pylist(v)
                if l is None:
                    if isinstance(v, AList):
                        args.append(StarArgs(v))
                        continue
                    if isinstance(v, ASet):
                        args.append(StarArgs(v.lst))        # some order of the elements
                        continue
                    raise OutsideSubset("star-args of abstract value")
                args.extend(l)
            else:
                args.append(self.ev(a, fr))
        kwargs = {}
        for k in e.keywords:
            if k.arg is None:
                d = self.ev(k.value, fr)
                if not isinstance(d, dict):
                    raise OutsideSubset("**kwargs of non-dict")
                kwargs.update(d)
            else:
                kwargs[k.arg] = self.ev(k.value, fr)
        return self.call(f, args, kwargs, site=f"{fr.finfo.qualname}:{e.lineno}")

    # ---- functools.reduce(F, map(G, XS), INIT) over an abstract sequence: run as the loop it abbreviates, under a registered invariant
    @staticmethod
    def _is_reduce_of_map(e):
        f = e.func
        is_reduce = (isinstance(f, ast.Attribute) and f.attr == "reduce" and isinstance(f.value, ast.Name) and f.value.id == "functools") or \
                    (isinstance(f, ast.Name) and f.id == "reduce")
        return is_reduce and len(e.args) in (2, 3) and not e.keywords and isinstance(e.args[1], ast.Call) and isinstance(e.args[1].func, ast.Name) \
            and e.args[1].func.id == "map" and len(e.args[1].args) == 2

    def abstract_reduce(self, e, fr):
        xs = self.ev(e.args[1].args[1], fr)
        if self.to_pylist(xs) is not None:
            return NotImplemented                      # concrete sequence: the ordinary evaluation unrolls it
        calls = [n for n in ast.walk(fr.finfo.node) if isinstance(n, ast.Call) and self._is_reduce_of_map(n)]
        calls.sort(key=lambda n: (n.lineno, n.col_offset))
        ordn = f"reduce{calls.index(e)}"
        spec = self.loop_specs.get((fr.finfo.qualname, ordn))
        if spec is None:
            raise OutsideSubset(f"{ordn} of {fr.finfo.qualname}: reduce over an abstract sequence without an invariant")
        loop = ast.parse("for __rx in __rxs:\n    __racc = __RF(__racc, __RG(__rx))" if len(e.args) == 3 else
                         "for __rx in __rxs[1:]:\n    __racc = __RF(__racc, __RG(__rx))").body[0]

        class Sub(ast.NodeTransformer):
            def visit_Name(self_, n):
                if n.id == "__RF":
                    return e.args[0]
                if n.id == "__RG":
                    return e.args[1].args[0]
                return n
        loop = ast.fix_missing_locations(ast.copy_location(Sub().visit(loop), e))
        for n in ast.walk(loop):
            if not hasattr(n, "lineno"):
                n.lineno, n.col_offset = e.lineno, e.col_offset
        loop._spec, loop._ordn = spec, ordn
        fr.env["__rxs"] = xs
        if len(e.args) == 3:
            fr.env["__racc"] = self.ev(e.args[2], fr)
        else:
            # reduce(F, seq) without an initial value: TypeError on an empty sequence, else starts from the first element
            if self.branch(self.length(xs) == 0):
                raise RaiseEx("TypeError", "reduce() of empty iterable with no initial value")
            first = ast.fix_missing_locations(ast.copy_location(Sub().visit(ast.parse("__RG(__rxs[0])", mode="eval").body), e))
            for n in ast.walk(first):
                if not hasattr(n, "lineno"):
                    n.lineno, n.col_offset = e.lineno, e.col_offset
            fr.env["__racc"] = self.ev(first, fr)
        self.for_loop(loop, fr)
        return fr.env["__racc"]

    def quantified_any_all(self, name, g, fr):
        """any()/all() of a generator over an abstract list = bounded quantifier (element expression must be fork-free)"""
        if len(g.generators) != 1 or g.generators[0].ifs:
            return None
        it = self.ev(g.generators[0].iter, fr)
        if isinstance(it, Obj):
            itf, _ = self.index.find_method(it.cls, "__iter__")
            if itf is not None:
                it = self.call_function(itf, [it])
        if isinstance(it, IterObj) and isinstance(it.seq, (AList, SliceView)) and isinstance(it.pos, int) and it.pos == 0:
            it = it.seq
        if not isinstance(it, (AList, SliceView)):
            return None
        i = z3.Int(fresh_name("qa"))
        # a slice is quantified over the absolute index of its base list (bare-variable reads `a[j]`: offset-free patterns)
        base, lo = it, 0
        while isinstance(base, SliceView):
            base, lo = base.base, lo + base.lo
        saved = dict(fr.env)
        self.nofork += 1
        try:
            self.assign(g.generators[0].target, base.get(i), fr)
            body = self.ev(g.elt, fr)
            if isinstance(body, bool):
                body = z3.BoolVal(body)
            if not (z3.is_expr(body) and z3.is_bool(body)):
                raise OutsideSubset("non-boolean element in any()/all() over an abstract list")
        finally:
            self.nofork -= 1
            fr.env.clear()
            fr.env.update(saved)
        rng = z3.And(lo <= i, i < lo + it.n)
        return z3.Exists([i], z3.And(rng, body)) if name == "any" else z3.ForAll([i], z3.Implies(rng, body))

    def call(self, f, args, kwargs=None, site=None):
        kwargs = kwargs or {}
        if isinstance(f, FuncRef):
            return self.call_function(f.finfo, args, kwargs, site)
        if isinstance(f, BoundMethod):
            return self.call_function(f.finfo, [f.self_val] + list(args), kwargs, site)
        if isinstance(f, Lambda):
            from .engine import Frame
            a = f.node.args
            env = dict(f.env)
            for n, v in zip([x.arg for x in a.args], args):
                env[n] = v
            fr2 = Frame(f.module.finfo, env)
            fr2.module = f.module.module
            return self.ev(f.node.body, fr2)
        if isinstance(f, ClassRef):
            return self.construct(f.cinfo, args, kwargs, site)
        if isinstance(f, BoundBuiltin):
            return self.call_method_builtin(f.recv, f.name, args, kwargs)
        if isinstance(f, Builtin):
            return self.call_builtin(f.name, args, kwargs)
        if isinstance(f, ExcClass):
            return ExcVal(f.name)
        if isinstance(f, OpFunc):
            return self.compare(f.cmpop(), args[0], args[1])
        if self.theory is not None and hasattr(self.theory, "call_other"):
            r = self.theory.call_other(self, f, args, kwargs)
            if r is not NotImplemented:
                return r
        raise OutsideSubset(f"call of {f!r}")

    # ------------------------------------------------------------ construction
    def construct(self, cls, args, kwargs, site=None):
        if self.theory is not None and hasattr(self.theory, "construct"):
            r = self.theory.construct(self, cls, args, kwargs)
            if r is not NotImplemented:
                return r
        if self.index.is_subclass(cls, "Exception") or any(b in ("ValueError", "Exception") for b in cls.base_names):
            return ExcVal(cls.name)
        if self._is_enum(cls):
            # Enum lookup by value
            val = args[0]
            for n, _ in cls.enum_members:
                m = self.class_attr(cls, n)
                if isinstance(m, Obj) and self.truth(self.equals(m.fields["value"], val)):
                    return m
            raise RaiseEx("ValueError", "not a valid enum value")
        init, owner = self.index.find_method(cls, "__init__")
        o = Obj(cls)
        if init is not None and not self._dataclass_init_shadows(cls, owner):
            self.call_function(init, [o] + list(args), kwargs, site)
            return o
        fields = self.index.all_fields(cls)
        if not fields and not any(c.dataclass is not None for c in self.index.mro(cls)):
            if args or kwargs:
                raise RaiseEx("TypeError", "object() takes no arguments")
            return o
        args = list(args)
        from .engine import Frame
        from .extract import FuncInfo
        init_fields = [f for f in fields if f.init]
        if len(args) > len(init_fields):
            raise RaiseEx("TypeError", "too many positional arguments")
        kw = dict(kwargs)
        for f in fields:
            if f.init and args:
                o.fields[f.name] = args.pop(0)
                if f.name in kw:
                    raise RaiseEx("TypeError", "multiple values")
            elif f.init and f.name in kw:
                o.fields[f.name] = kw.pop(f.name)
            elif getattr(f, "has_default", False):
                dummy = FuncInfo(cls.module, cls, ast.parse("def _d(): pass").body[0], [])
                o.fields[f.name] = self.ev(f.default, Frame(dummy, {})) if f.default is not None else None
            else:
                raise RaiseEx("TypeError", f"missing field {f.name}")
        if kw:
            raise RaiseEx("TypeError", f"unexpected keyword {list(kw)}")
        post, _ = self.index.find_method(cls, "__post_init__")
        if post is not None:
            self.call_function(post, [o])
        return o

    def _dataclass_init_shadows(self, cls, owner):
        for c in self.index.mro(cls):
            if c is owner:
                return False
            if c.dataclass is not None and c.dataclass.get("init", True):
                return True
        return False

    # ------------------------------------------------------------ builtins
    def call_builtin(self, name, args, kw):
        th = self.theory
        if th is not None and hasattr(th, "builtin"):
            r = th.builtin(self, name, args, kw)
            if r is not NotImplemented:
                return r
        if name == "isinstance":
            return self.isinstance(args[0], args[1])
        if name == "len":
            return self.length(args[0])
        if name in ("tuple", "list"):
            if not args:
                return () if name == "tuple" else []
            v = args[0]
            if isinstance(v, AList):
                return AList(v.shape, v.arr, v.off, v.n, is_tuple=(name == "tuple"))
            l = self.to_pylist(v)
            if l is None:
                from .engine import Concat
                if isinstance(v, Concat):
                    return v
                raise OutsideSubset(f"{name}() of {v!r}")
            return tuple(l) if name == "tuple" else list(l)
        if name == "iter":
            v = args[0]
            if isinstance(v, Obj):
                f, _ = self.index.find_method(v.cls, "__iter__")
                return self.call_function(f, [v])
            if isinstance(v, IterObj):
                return v
            return IterObj(v, 0)
        if name == "next":
            it = args[0]
            if isinstance(it, IterObj):
                if isinstance(it.seq, (list, tuple)):
                    if it.pos >= len(it.seq):
                        if len(args) > 1:
                            return args[1]
                        raise RaiseEx("StopIteration")
                    it.pos += 1
                    return it.seq[it.pos - 1]
            l = self.to_pylist(it)
            if l:
                return l[0]
            raise OutsideSubset("next()")
        if name == "zip":
            return ZipObj(list(args))
        if name == "enumerate":
            return EnumObj(args[0])
        if name == "range":
            a = list(args)
            if len(a) == 1:
                a = [0, a[0], 1]
            elif len(a) == 2:
                a = [a[0], a[1], 1]
            return RangeObj(*a)
        if name in ("any", "all"):
            return self.any_all(name, args[0])
        if name == "type":
            v = args[0]
            if isinstance(v, SymObj):
                v = self.concretize(v)
            if isinstance(v, Obj):
                return ClassRef(v.cls)
            raise OutsideSubset("type() of non-object")
        if name == "str":
            return self.to_str(args[0]) if args else ""
        if name == "repr":
            return self.to_str(args[0], repr_=True)
        if name == "int":
            v = args[0]
            if isinstance(v, (int, str)):
                try:
                    return int(v)
                except ValueError:
                    raise RaiseEx("ValueError", "invalid literal for int()")
            if z3.is_expr(v) and z3.is_int(v):
                return v
            if th is not None and hasattr(th, "to_int"):
                return th.to_int(self, v)
            raise OutsideSubset("int() of symbolic value")
        if name == "bool":
            return self.truth(args[0])
        if name in ("set", "frozenset"):
            if not args:
                return set()
            l = self.to_pylist(args[0])
            if l is None and isinstance(args[0], AList) and hasattr(args[0].shape, "eq_terms"):
                return ASet(args[0])
            if l is None:
                raise OutsideSubset("set() of abstract")
            if all(isinstance(x, (str, int)) for x in l):
                return set(l)
            return SetVal(l)
        if name == "sorted":
            return self.sorted(args[0], kw.get("key"))
        if name in ("max", "min"):
            return self.maxmin(name, args, kw)
        if name == "sum":
            l = self.to_pylist(args[0])
            if l is None:
                raise OutsideSubset("sum of abstract")
            acc = args[1] if len(args) > 1 else 0
            for x in l:
                acc = acc + x
            return acc
        if name == "map":
            l = self.to_pylist(args[1])
            if l is None:
                raise OutsideSubset("map over abstract")
            return [self.call(args[0], [x]) for x in l]
        if name == "filter":
            l = self.to_pylist(args[1])
            if l is None:
                raise OutsideSubset("filter over abstract")
            return [x for x in l if self.truth(x if args[0] is None else self.call(args[0], [x]))]
        if name == "hasattr":
            o, a = args
            if isinstance(o, SymObj):
                o = self.concretize(o)
            if isinstance(o, Obj):
                return a in o.fields or self.index.find_method(o.cls, a)[0] is not None
            raise OutsideSubset("hasattr")
        if name == "hash":
            return self.hash_of(args[0])
        if name in ("t.cast", "typing.cast", "cast"):
            return args[1]
        if name == "object.__setattr__":
            o, a, v = args
            self.set_field(o.fields, a, v)
            return None
        if name in ("dataclasses.replace", "replace"):
            o = args[0]
            if isinstance(o, SymObj):
                o = self.concretize(o)
            new = {f.name: o.fields[f.name] for f in self.index.all_fields(o.cls) if f.init}
            new.update(kw)
            return self.construct(o.cls, [], new)
        if name in ("functools.reduce", "reduce"):
            f, seq = args[0], args[1]
            l = self.to_pylist(seq)
            if l is None:
                raise OutsideSubset("reduce over abstract sequence")
            if len(args) > 2:
                acc = args[2]
            else:
                if not l:
                    raise RaiseEx("TypeError", "reduce() of empty iterable with no initial value")
                acc, l = l[0], l[1:]
            for x in l:
                acc = self.call(f, [acc, x])
            return acc
        if name in ("operator.and_", "operator.or_"):
            return self.binop(ast.BitAnd() if name.endswith("and_") else ast.BitOr(), args[0], args[1])
        if name.startswith("operator."):
            opn = name.split(".")[1]
            cmpop = {"eq": ast.Eq, "ne": ast.NotEq, "lt": ast.Lt, "le": ast.LtE, "gt": ast.Gt, "ge": ast.GtE}.get(opn)
            if cmpop:
                return self.compare(cmpop(), args[0], args[1])
        if name in ("itertools.product", "product"):
            ls = [self.to_pylist(a) for a in args]
            if any(x is None for x in ls):
                return ProductObj(list(args))
            return [tuple(t) for t in itertools.product(*ls)]
        if name in ("itertools.takewhile", "takewhile"):
            l = self.to_pylist(args[1])
            if l is None:
                raise OutsideSubset("takewhile over abstract")
            out = []
            for x in l:
                if not self.truth(self.call(args[0], [x])):
                    break
                out.append(x)
            return out
        raise OutsideSubset(f"builtin {name}")

    # hash(): uninterpreted per kind; a tuple's hash is a function of its items' hashes (A-STDLIB)
    HSTR = z3.Function("hash_str", z3.StringSort(), z3.IntSort())
    HVER = z3.Function("hash_version", z3.RealSort(), z3.IntSort())
    HNONE = z3.Int("hash_None")
    _HT = {}

    def hash_tuple(self, hs):
        n = len(hs)
        if n not in self._HT:
            self._HT[n] = z3.Function(f"hash_tuple{n}", *([z3.IntSort()] * n), z3.IntSort())
        return self._HT[n](*hs) if n else z3.IntVal(5740354900026072187)

    def hash_of(self, v):
        if isinstance(v, bool):
            return z3.IntVal(1 if v else 0)
        if isinstance(v, int):
            return z3.IntVal(v)
        if v is None:
            return self.HNONE
        if isinstance(v, str):
            return self.HSTR(z3.StringVal(v))
        if z3.is_expr(v):
            if z3.is_string(v):
                return self.HSTR(v)
            if z3.is_bool(v):
                return z3.If(v, 1, 0)
            if z3.is_real(v):
                return self.HVER(v)
            if z3.is_int(v):
                return v
        if isinstance(v, Opt):
            return z3.If(v.has, self.hash_of(v.val), self.HNONE)
        if isinstance(v, (tuple, list)) and not isinstance(v, list):
            return self.hash_tuple([self.hash_of(x) for x in v])
        if isinstance(v, AList) and v.is_tuple:
            if self.theory is not None and hasattr(self.theory, "hash_alist"):
                return self.theory.hash_alist(self, v)
        if isinstance(v, SymObj):
            v = self.concretize(v)
        if isinstance(v, AbsObj):
            return v.theory.hash_of(self, v)
        if isinstance(v, Obj):
            f, owner = self.index.find_method(v.cls, "__hash__")
            if f is not None and not self._dataclass_hash_shadows(v.cls, owner):
                return self.call_function(f, [v])
            if any(c.dataclass is not None for c in self.index.mro(v.cls)):
                fields = [fl for fl in self.index.all_fields(v.cls) if (fl.hash if fl.hash is not None else fl.compare)]
                return self.hash_tuple([self.hash_of(v.fields[fl.name]) for fl in fields])
            if self._is_enum(v.cls):
                return self.hash_of(v.fields["_name_"])
        raise OutsideSubset(f"hash() of {v!r}")

    def _dataclass_hash_shadows(self, cls, owner):
        """@dataclass(unsafe_hash=True) (or eq+frozen) on a class nearer in the MRO replaces an inherited __hash__;
        a __hash__ defined in the decorated class body itself is kept only without unsafe_hash."""
        for c in self.index.mro(cls):
            if c.dataclass is not None and (c.dataclass.get("unsafe_hash") or (c.dataclass.get("frozen") and c.dataclass.get("eq", True))):
                if c is owner and not c.dataclass.get("unsafe_hash"):
                    return False
                return True
            if c is owner:
                return False
        return False

    def isinstance(self, v, c):
        if isinstance(c, tuple):
            res = [self.isinstance(v, x) for x in c]
            if any(r is True for r in res):
                return True
            syms = [B(r) for r in res if r is not False]
            return z3.Or(*syms) if syms else False
        if isinstance(v, SymObj):
            return v.shape.isinstance(self, v, c)
        if isinstance(v, AbsObj):
            return v.theory.isinstance(self, v, c)
        if isinstance(c, ClassRef):
            if isinstance(v, Obj):
                return self.index.is_subclass(v.cls, c.cinfo.name)
            return False
        if isinstance(c, Builtin):
            py = {"str": str, "int": int, "set": (set, frozenset), "tuple": tuple, "list": list, "bool": bool, "dict": dict}.get(c.name)
            if py is None:
                if self.theory is not None and hasattr(self.theory, "isinstance_ext"):
                    return self.theory.isinstance_ext(self, v, c)
                raise OutsideSubset(f"isinstance(_, {c.name})")
            if z3.is_expr(v):
                return (c.name == "str" and z3.is_string(v)) or (c.name == "int" and z3.is_int(v)) or (c.name == "bool" and z3.is_bool(v))
            if isinstance(v, SetVal):
                return c.name == "set"
            if isinstance(v, AList):
                return c.name == ("tuple" if v.is_tuple else "list")
            if c.name == "str" and type(v).__name__ in getattr(self.theory, "text_tokens", ()):
                return True         # a theory's token for a str value
            return isinstance(v, py)
        if isinstance(c, ExcClass):
            return False
        if self.theory is not None and hasattr(self.theory, "isinstance_other"):
            r = self.theory.isinstance_other(self, v, c)
            if r is not None:
                return r
        raise OutsideSubset(f"isinstance against {c!r}")

    def length(self, v):
        if isinstance(v, (list, tuple, str, dict, set, frozenset)):
            return len(v)
        if isinstance(v, (AList, SliceView)) or type(v).__name__ == "ConcatView":
            return v.n
        if isinstance(v, SetVal):
            raise OutsideSubset("len of symbolic set")
        if z3.is_expr(v) and z3.is_string(v):
            return z3.Length(v)
        if isinstance(v, Obj):
            f, _ = self.index.find_method(v.cls, "__len__")
            if f is not None:
                return self.call_function(f, [v])
        from .engine import Concat
        if isinstance(v, Concat):
            return sum((self.length(p) for p in v.parts), 0)
        if self.theory is not None and hasattr(self.theory, "length"):
            r = self.theory.length(self, v)
            if r is not None:
                return r
        raise OutsideSubset(f"len of {v!r}")

    def any_all(self, name, v):
        l = self.to_pylist(v)
        if l is None:
            raise OutsideSubset(f"{name}() over abstract sequence")
        terms = []
        for x in l:
            if isinstance(x, bool):
                if name == "any" and x:
                    return True if not terms else z3.BoolVal(True)
                if name == "all" and not x:
                    return False
                continue
            if z3.is_expr(x) and z3.is_bool(x):
                terms.append(x)
            else:
                terms.append(B(self.truth(x)))
        if not terms:
            return name == "all"
        return z3.simplify(z3.Or(*terms) if name == "any" else z3.And(*terms))

    def sorted(self, seq, key):
        l = self.to_pylist(seq)
        if l is None:
            raise OutsideSubset("sorted of abstract")
        keys = [self.call(key, [x]) if key is not None else x for x in l]
        # stable insertion sort with forking comparisons
        out = []
        for x, k in zip(l, keys):
            pos = len(out)
            for i in range(len(out)):
                lt = self.order(ast.Lt, k, out[i][1])
                if self.truth(lt):
                    pos = i
                    break
            out.insert(pos, (x, k))
        return [x for x, _ in out]

    def maxmin(self, name, args, kw):
        if len(args) == 1:
            l = self.to_pylist(args[0])
            if l is None:
                raise OutsideSubset(f"{name} over abstract")
        else:
            l = list(args)
        if not l:
            if "default" in kw:
                return kw["default"]
            raise RaiseEx("ValueError", f"{name}() arg is an empty sequence")
        key = kw.get("key")
        best, bk = l[0], (self.call(key, [l[0]]) if key else l[0])
        for x in l[1:]:
            k = self.call(key, [x]) if key else x
            if all(isinstance(t, int) for t in (k, bk)):
                better = k > bk if name == "max" else k < bk
            else:
                better = self.truth(self.order(ast.Gt if name == "max" else ast.Lt, k, bk))
            if better:
                best, bk = x, k
        return best

    # ------------------------------------------------------------ methods of builtin values
    # ---- abstract sets (A-STDLIB set semantics over the element equality of the list shape)
    def aset_mem(self, lst, x):
        i = z3.Int(fresh_name("sm"))
        return z3.Exists([i], z3.And(0 <= i, i < lst.n, lst.shape.eq_terms(self, z3.Select(lst.arr, i), x)))

    def aset_op(self, name, a, b):
        A, Bl = a.lst, b.lst
        i = z3.Int(fresh_name("si"))
        if name == "issubset":
            return z3.ForAll([i], z3.Implies(z3.And(0 <= i, i < A.n), self.aset_mem(Bl, z3.Select(A.arr, i))))
        R = ListS(A.shape).fresh(name)
        k = z3.Int(fresh_name("sk"))
        rk, ai = z3.Select(R.arr, k), z3.Select(A.arr, i)
        keep = (lambda x: self.aset_mem(Bl, x)) if name == "intersection" else (lambda x: z3.Not(self.aset_mem(Bl, x)))
        self.assume(R.n >= 0)
        self.assume(z3.ForAll([k], z3.Implies(z3.And(0 <= k, k < R.n), z3.And(self.aset_mem(A, rk), keep(rk)))))
        self.assume(z3.ForAll([i], z3.Implies(z3.And(0 <= i, i < A.n, keep(ai)), self.aset_mem(R, ai))))
        return ASet(R)

    def call_method_builtin(self, recv, name, args, kw):
        if isinstance(recv, ASet) and name in ("issubset", "intersection", "difference") and len(args) == 1 and isinstance(args[0], ASet):
            return self.aset_op(name, recv, args[0])
        th = self.theory
        if th is not None and hasattr(th, "method_builtin"):
            r = th.method_builtin(self, recv, name, args, kw)
            if r is not NotImplemented:
                return r
        if isinstance(recv, str) and all(isinstance(a, (str, int, tuple)) for a in args):
            try:
                r = getattr(recv, name)(*args)
            except ValueError:
                raise RaiseEx("ValueError")
            return list(r) if isinstance(r, list) else r
        if isinstance(recv, list):
            if name == "append":
                recv.append(args[0])
                return None
            if name == "pop" and (not args or isinstance(args[0], int)):
                if not recv:
                    raise RaiseEx("IndexError", "pop from empty list")
                try:
                    return recv.pop(*args)
                except IndexError:
                    raise RaiseEx("IndexError", "pop index out of range")
            if name == "extend":
                l = self.to_pylist(args[0])
                if l is None:
                    raise OutsideSubset("extend concrete list with abstract")
                recv.extend(l)
                return None
            if name == "count":
                terms = []
                for x in recv:
                    c = self._bool_eq(x, args[0]) if (isinstance(args[0], bool) or (z3.is_expr(args[0]) and z3.is_bool(args[0]))) else self.equals(x, args[0])
                    terms.append(z3.If(B(c), 1, 0))
                return z3.simplify(z3.Sum(*terms)) if terms else 0
            if name == "index":
                for i, x in enumerate(recv):
                    if self.truth(self.equals(x, args[0])):
                        return i
                raise RaiseEx("ValueError")
            if name == "insert":
                recv.insert(args[0], args[1])
                return None
            if name == "copy":
                return list(recv)
        if isinstance(recv, tuple) and name == "count":
            return self.call_method_builtin(list(recv), "count", args, kw)
        if isinstance(recv, tuple) and name == "index":
            return self.call_method_builtin(list(recv), "index", args, kw)
        if isinstance(recv, dict):
            if name == "get":
                k = args[0]
                dflt = args[1] if len(args) > 1 else None
                if isinstance(k, (str, int)):
                    return recv.get(k, dflt)
                for kk, vv in recv.items():
                    if self.truth(self.equals(kk, k)):
                        return vv
                return dflt
            if name == "update":
                if args:
                    recv.update(args[0])
                recv.update(kw)
                return None
            if name in ("items", "keys", "values"):
                return list(getattr(recv, name)())
        if isinstance(recv, (set, frozenset)):
            if name in ("issubset", "intersection", "union", "difference") and isinstance(args[0], (set, frozenset)):
                return getattr(recv, name)(args[0])
        if z3.is_expr(recv) and z3.is_string(recv):
            a0 = args[0] if args else None
            if isinstance(a0, str):
                a0 = z3.StringVal(a0)
            if name == "startswith":
                if isinstance(args[0], tuple):
                    return z3.Or(*[z3.PrefixOf(z3.StringVal(p), recv) for p in args[0]])
                return z3.PrefixOf(a0, recv)
            if name == "endswith":
                return z3.SuffixOf(a0, recv)
            if name == "replace":
                raise OutsideSubset("str.replace on symbolic string")
        if isinstance(recv, str) and args and z3.is_expr(args[0]) and z3.is_string(args[0]):
            if name == "startswith":
                return z3.PrefixOf(args[0], z3.StringVal(recv))
            if name == "endswith":
                return z3.SuffixOf(args[0], z3.StringVal(recv))
        if isinstance(recv, AList):
            if name == "index":
                # first index holding an element == args[0]; ValueError when absent
                if not self.truth(self.contains(recv, args[0])):
                    raise RaiseEx("ValueError", "x not in list")
                idx = z3.Int(fresh_name("idx"))
                sh = recv.shape
                it = sh.enc(args[0])
                eq = (lambda t: sh.eq_terms(self, t, it)) if hasattr(sh, "eq_terms") else (lambda t: t == it)
                j = z3.Int(fresh_name("ij"))
                self.assume(z3.And(0 <= idx, idx < recv.n, eq(z3.Select(recv.arr, idx))))
                self.assume(z3.ForAll([j], z3.Implies(z3.And(0 <= j, j < idx), z3.Not(eq(z3.Select(recv.arr, j))))))
                return idx
            if name == "count":
                raise OutsideSubset(f"list.{name} on abstract list")
        raise OutsideSubset(f"method {name} of {recv!r}")


class StarArgs:
    def __init__(self, alist):
        self.alist = alist


class ProductObj:
    def __init__(self, seqs):
        self.seqs = seqs


class OpFunc:
    def __init__(self, cmpop):
        self.cmpop = cmpop
