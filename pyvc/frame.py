"""Frame (read-set) analysis for memoisation transparency (C10).

Memoising f under key equality is unobservable iff f is deterministic and key-equal arguments give observationally equal
results.  The second part holds when everything f reads *through its parameters* is state that `==`/`hash` of the argument
classes compare.  From the AST of the real source this module computes, for every memoised function, the *uncompared*
fields (dataclass fields with compare=False) it can read on objects reachable from its parameters: receiver chains
`p.f`, `p.m()`, `str(p)`, `for x in p.f`, followed transitively through the methods of the receivers' classes.  Receiver
classes come from the parameter / field annotations in the source (assumed truthful; they are only used to resolve
method names to class families)."""
from __future__ import annotations

import ast
import re

MEMO_DECORATORS = {"lru_cache", "cache"}
DUNDER_OF_BUILTIN = {"str": "__str__", "len": "__len__", "hash": "__hash__", "repr": "__repr__", "iter": "__iter__", "bool": "__len__"}


class ReadSets:
    def __init__(self, index):
        self.index = index
        self.class_names = {c.name for m in index.modules.values() for c in m.classes.values()}
        self.unc = {}
        for m in index.modules.values():
            for c in m.classes.values():
                if c.dataclass is not None:
                    fs = [f.name for f in c.fields if not f.compare]
                    if fs:
                        self.unc[c.name] = fs
        self.memo = {}

    # ---- typing helpers (annotations are only used to resolve receivers)
    def types_in(self, ann):
        if ann is None:
            return set()
        txt = ast.unparse(ann) if not isinstance(ann, str) else ann
        if txt.startswith("type["):
            return set()
        return {w for w in re.findall(r"[A-Za-z_][A-Za-z_0-9]*", txt) if w in self.class_names}

    def family(self, tname):
        return [c for c in {id(c): c for c in self.index.classes.values()}.values() if self.index.is_subclass(c, tname)]

    def field_types(self, cls):
        out = {}
        for c in reversed(self.index.mro(cls)):
            for st in c.node.body:
                if isinstance(st, ast.AnnAssign) and isinstance(st.target, ast.Name):
                    out[st.target.id] = self.types_in(st.annotation)
        return out

    def uncompared_of(self, cls):
        out = set()
        for c in self.index.mro(cls):
            out |= set(self.unc.get(c.name, []))
        return out

    # ---- reads of one method on its receiver
    def method_reads(self, cls, mname, stack=()):
        key = (cls.name, mname)
        if key in self.memo:
            return self.memo[key]
        if key in stack or len(stack) > 16:
            return set()
        f, _ = self.index.find_method(cls, mname)
        if f is None or not hasattr(f, "node") or not isinstance(f.node, ast.FunctionDef):
            return set()
        env = {"self": {cls.name}}
        reads = self.body_reads(f.node, env, stack + (key,), self_cls=cls)
        if f.is_property:
            # a lazily filled cache field read inside its own accessor is labelled as such (`C._specifier@specifier`): only that way of
            # reading it can be whitelisted; a direct read or a dataclasses.replace copy of the same field keeps the plain label
            reads = {r + "@" + mname if r.endswith("._" + mname) else r for r in reads}
        self.memo[key] = reads
        return reads

    def receiver_types(self, e, env, self_cls):
        """class names an expression may denote, when it is a receiver chain rooted at a typed name"""
        if isinstance(e, ast.Name):
            return env.get(e.id, set())
        if isinstance(e, ast.Attribute):
            base = self.receiver_types(e.value, env, self_cls)
            out = set()
            for t in base:
                for c in self.family(t):
                    out |= self.field_types(c).get(e.attr, set())
                    g, _ = self.index.find_method(c, e.attr)
                    if g is not None and hasattr(g, "node") and isinstance(g.node, ast.FunctionDef) and g.is_property and g.node.returns is not None:
                        out |= self.types_in(g.node.returns)
            return out
        return set()

    def body_reads(self, node, env, stack, self_cls=None):
        reads = set()
        env = dict(env)
        # local typing: loop / comprehension targets over typed receivers
        # local aliases: `x = <typed receiver>` (flow-insensitive, two rounds for chains)
        for _ in range(2):
            for n in ast.walk(node):
                if isinstance(n, ast.Assign) and len(n.targets) == 1 and isinstance(n.targets[0], ast.Name):
                    ts = self.receiver_types(n.value, env, self_cls)
                    if ts:
                        env[n.targets[0].id] = env.get(n.targets[0].id, set()) | ts
        for n in ast.walk(node):
            it, tgt = None, None
            if isinstance(n, (ast.For, ast.comprehension)):
                it, tgt = n.iter, n.target
            if it is not None and isinstance(tgt, ast.Name):
                ts = self.receiver_types(it, env, self_cls)
                if ts:
                    env[tgt.id] = env.get(tgt.id, set()) | ts
        for n in ast.walk(node):
            recv, callee = None, None
            if isinstance(n, ast.Attribute) and isinstance(n.ctx, ast.Load):
                recv, callee = n.value, n.attr
            elif isinstance(n, ast.Call) and isinstance(n.func, ast.Name) and n.func.id in DUNDER_OF_BUILTIN and n.args:
                recv, callee = n.args[0], DUNDER_OF_BUILTIN[n.func.id]
            elif isinstance(n, ast.FormattedValue):
                recv, callee = n.value, "__str__"
            if isinstance(n, ast.Call) and isinstance(n.func, (ast.Name, ast.Attribute)):
                fname = n.func.id if isinstance(n.func, ast.Name) else n.func.attr
                if fname == "replace" and n.args and not (isinstance(n.func, ast.Attribute) and not (isinstance(n.func.value, ast.Name) and n.func.value.id == "dataclasses")):
                    # dataclasses.replace(x, **changes) reads every init field of x that is not overridden - the uncompared ones included
                    over = {k.arg for k in n.keywords if k.arg}
                    for t in self.receiver_types(n.args[0], env, self_cls):
                        for c in self.family(t):
                            for fld in self.uncompared_of(c) - over:
                                reads.add(f"{c.name}.{fld}")
                elif isinstance(n.func, ast.Name):
                    # a call of a module-level function with typed arguments: its reads through those parameters are reads of the caller
                    for g in self.functions_named(fname):
                        key = ("<fn>", g.qualname)
                        if key in stack or len(stack) > 16:
                            continue
                        a = g.node.args
                        params = [p.arg for p in a.posonlyargs + a.args]
                        env2 = {}
                        for p, arg in zip(params, n.args):
                            ts = self.receiver_types(arg, env, self_cls)
                            if ts:
                                env2[p] = ts
                        for k in n.keywords:
                            if k.arg in params:
                                ts = self.receiver_types(k.value, env, self_cls)
                                if ts:
                                    env2[k.arg] = ts
                        if env2:
                            reads |= self.body_reads(g.node, env2, stack + (key,))
            if recv is None:
                continue
            for t in self.receiver_types(recv, env, self_cls):
                for c in self.family(t):
                    if callee in self.uncompared_of(c):
                        reads.add(f"{c.name}.{callee}")
                    reads |= self.method_reads(c, callee, stack)
        return reads

    def functions_named(self, name):
        return [m.functions[name] for m in self.index.modules.values() if name in m.functions]

    # ---- memoised functions
    def memoised(self):
        out = []
        for m in self.index.modules.values():
            fs = list(m.functions.values()) + [f for c in m.classes.values() for f in c.methods.values()]
            for f in fs:
                if any(d in MEMO_DECORATORS for d in f.decorators):
                    out.append(f)
        return out

    def param_reads(self, finfo):
        a = finfo.node.args
        env = {}
        for i, p in enumerate(a.posonlyargs + a.args + a.kwonlyargs):
            if i == 0 and finfo.cls is not None and not finfo.is_staticmethod:
                # the receiver of a memoised method is part of the cache key (a classmethod's `cls` carries no instance state)
                if not finfo.is_classmethod:
                    env[p.arg] = {finfo.cls.name}
                continue
            env[p.arg] = self.types_in(p.annotation)
        if a.vararg:
            env[a.vararg.arg] = self.types_in(a.vararg.annotation)
        return self.body_reads(finfo.node, env, ()), {k: sorted(v) for k, v in env.items()}

    OBSERVERS = ("__str__", "evaluate", "_evaluate")

    def escaping_params(self, finfo):
        """parameters that may be returned (or embedded in the returned value)"""
        a = finfo.node.args
        params = {p.arg for p in a.posonlyargs + a.args + a.kwonlyargs} - {"self", "cls"}
        out = set()
        for n in ast.walk(finfo.node):
            if isinstance(n, ast.Return) and n.value is not None:
                for m in ast.walk(n.value):
                    if isinstance(m, ast.Name) and m.id in params:
                        out.add(m.id)
        return out

    def observable_uncompared(self, tnames):
        """uncompared fields of the given class families that the observers (text, evaluation) read"""
        out = set()
        for t in tnames:
            for c in self.family(t):
                for ob in self.OBSERVERS:
                    out |= self.method_reads(c, ob)
        return out
