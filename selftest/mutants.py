"""Self-test battery (DESIGN Appendix D): edits applied to a scratch copy of /repo (never to /repo itself).
Each entry: id, file (relative to src/dep_logic), old text, new text, checks expected to report a violation (exit 1),
kind: 'breaking' (must be flagged by every listed check) or 'benign' (a harmless refactor: the listed checks must NOT print a
VIOLATION line; exit 0 or 2 is acceptable)."""

MUTANTS = [
    # ---- specifiers/range.py
    ("r01-is-strictly-lower-le", "specifiers/range.py", "            self.max < other.min\n            or self.max == other.min\n            and False in",
     "            self.max <= other.min\n            or self.max == other.min\n            and False in", ["C01", "C05"], "breaking"),
    ("r02-or-union-max-wrong-operand", "specifiers/range.py", "            union_max = other.max\n            union_include_max = other.include_max",
     "            union_max = self.max\n            union_include_max = self.include_max", ["C01"], "breaking"),
    ("r03-invert-inclusivity", "specifiers/range.py", "include_max=not self.include_min", "include_max=self.include_min", ["C01", "C05"], "breaking"),
    ("r04-and-keeps-wrong-min", "specifiers/range.py", "            intersect_min = other.min\n            intersect_include_min = other.include_min",
     "            intersect_min = other.min\n            intersect_include_min = self.include_min", ["C01"], "breaking"),
    ("r05-benign-false-in-tuple", "specifiers/range.py", "and False in (self.include_max, other.include_min)", "and not (self.include_max and other.include_min)", ["C01", "C05"], "benign"),
    ("r06-benign-count-true", "specifiers/range.py", "[self.include_max, other.include_min].count(True) == 1", "self.include_max != other.include_min", ["C01", "C05"], "benign"),
    ("r07-benign-adjacent-ge1", "specifiers/range.py", "[self.include_max, other.include_min].count(True) == 1", "[self.include_max, other.include_min].count(True) >= 1", ["C01", "C05"], "benign"),
    # ---- specifiers/union.py
    ("u01-or-drops-range-on-break", "specifiers/union.py", "new_ranges.extend([other, range, *ranges])", "new_ranges.extend([other, *ranges])", ["C01"], "breaking"),
    ("u02-or-wrong-direction", "specifiers/union.py", "elif other.allows_lower(range):", "elif range.allows_lower(other):", ["C05"], "breaking"),
    ("u03-invert-skips-neighbour", "specifiers/union.py", "zip(self.ranges, self.ranges[1:])", "zip(self.ranges, self.ranges[2:])", ["C01"], "breaking"),
    ("u04-from-ranges-one-element-union", "specifiers/union.py", "        elif ranges_number == 1:\n            return ranges[0]", "        elif ranges_number == 7:\n            return ranges[0]", ["C05"], "breaking"),
    ("u05-and-any-returns-other", "specifiers/union.py", "            if other.is_any():\n                return self\n", "            if other.is_any():\n                return other\n", ["C01"], "breaking"),
    ("u06-benign-rename-local", "specifiers/union.py", "new_ranges", "merged_ranges", ["C01", "C05"], "benign"),
    # ---- specifiers/special.py, generic.py
    ("s01-empty-or-returns-self", "specifiers/special.py", "            return NotImplemented\n        return other\n\n    __ror__ = __or__", "            return NotImplemented\n        return self\n\n    __ror__ = __or__", ["C01"], "breaking"),
    ("s02-any-eq-always-true", "specifiers/special.py", "        return other.is_any()", "        return True", ["C13"], "breaking"),
    ("g01-and-eq-in-returns-that", "specifiers/generic.py", "            if this.value in that.value:\n                return this\n            return EmptySpecifier()",
     "            if this.value in that.value:\n                return that\n            return EmptySpecifier()", ["C19"], "breaking"),
    ("g02-invert-lt", "specifiers/generic.py", "\"<\": \">=\",", "\"<\": \">\",", ["C19"], "breaking"),
    ("g03-or-drops-in-guard", "specifiers/generic.py", "        elif this.op == \"==\" and that.op == \"in\" and this.value in that.value:\n            return that",
     "        elif this.op == \"==\" and that.op == \"in\":\n            return that", ["C19"], "breaking"),
    # ---- markers
    ("m01-merge-swaps-and-or", "markers/single.py", "        if merge_class is MultiMarker:\n            result_specifier = marker1.specifier & marker2.specifier\n        else:\n            result_specifier = marker1.specifier | marker2.specifier",
     "        if merge_class is MultiMarker:\n            result_specifier = marker1.specifier | marker2.specifier\n        else:\n            result_specifier = marker1.specifier & marker2.specifier", ["C02"], "breaking"),
    ("m02-of-skips-empty-instead-of-any", "markers/multi.py", "                if marker.is_any():\n                    continue", "                if marker.is_empty():\n                    continue", ["C02"], "breaking"),
    ("m03-of-replace-drops-marker", "markers/multi.py", "new_markers[i] = new_marker", "new_markers[i] = mark", ["C02"], "breaking"),
    ("m04-union-simplify-returns-other", "markers/multi.py", "            if our_markers.issubset(their_markers):\n                return self", "            if our_markers.issubset(their_markers):\n                return other", ["C02"], "breaking"),
    ("m05-cnf-swapped", "utils.py", "        return MultiMarker.of(\n            *[MarkerUnion.of(*c) for c in itertools.product(*sub_marker_lists)]\n        )",
     "        return MarkerUnion.of(\n            *[MultiMarker.of(*c) for c in itertools.product(*sub_marker_lists)]\n        )", ["C02"], "breaking"),
    ("m06-flatten-keeps-duplicates", "utils.py", "        elif item not in flattened:\n            flattened.append(item)", "        else:\n            flattened.append(item)", ["C02", "C15"], "benign"),   # of() removes duplicates itself: no listed property depends on flatten_items doing it
    ("m07-str-no-parens-for-groups", "markers/multi.py", "            if isinstance(m, (MarkerExpression, MultiMarker)):", "            if isinstance(m, (SingleMarker, MultiMarker)):", ["C07"], "breaking"),
    ("m08-only-keeps-child", "markers/multi.py", "return self.of(*(m.only(*marker_names) for m in self.markers))", "return self.of(*(m for m in self.markers))", ["C12"], "breaking"),
    ("m09-union-exclude-no-skip", "markers/union.py", "            if isinstance(m, SingleMarker) and m.name == marker_name:\n                # The marker is not relevant since it must be excluded\n                continue\n\n            marker = m.exclude(marker_name)\n            new_markers.append(marker)",
     "            marker = m\n            new_markers.append(marker)", ["C12"], "breaking"),
    ("m10-build-markers-and-as-separator", "markers/__init__.py", "        elif item == \"and\":\n            continue", "        elif item == \"and\":\n            or_groups.append(AnyMarker())", ["C03"], "breaking"),
    ("m11-normalize-gt-without-bump", "markers/single.py", "        splitted[-1] = str(int(splitted[-1]) + 1)\n        op = \">=\"", "        op = \">=\"", ["C02"], "breaking"),
    ("m12-from-specifier-pads-three", "markers/single.py", "                for _ in range(2 - dot_num):", "                for _ in range(3 - dot_num):", ["C11"], "benign"),   # X.Y.0.0 is the same version as X.Y.0: the meaning does not change
    ("m13-reversed-compare-false", "markers/single.py", "    reversed: bool = False\n", "    reversed: bool = field(default=False, compare=False, hash=False)\n", ["C13", "C10"], "breaking"),
    # ---- tags
    ("t01-manylinux-stops-early", "tags/platform.py", "range(os_.minor, min_minor - 1, -1)", "range(os_.minor, min_minor, -1)", ["C09"], "breaking"),
    ("t02-alias-wrong-minor", "tags/platform.py", "if minor == 12:", "if minor == 10:", ["C09"], "breaking"),
    ("t03-musllinux-off-by-one", "tags/platform.py", "range(1, os_.minor + 1)", "range(1, os_.minor)", ["C09"], "breaking"),
    ("t04-s390x-floor", "tags/platform.py", "            Arch.S390X,\n", "", ["C09"], "breaking"),
    ("t05-no-universal2-x86", "tags/platform.py", "if self in [Arch.X86_64, Arch.Aarch64]:", "if self in [Arch.Aarch64]:", ["C09"], "breaking"),
    ("t06-free-threaded-flag", "tags/tags.py", "abi_impl.endswith(\"t\") is not free_threaded", "abi_impl.endswith(\"t\") is free_threaded", ["C08"], "breaking"),
    ("t07-abi3-exact-minor", "tags/tags.py", "parse_version_specifier(f\">={major}.{minor or 0}\")", "parse_version_specifier(f\"=={major}.{minor or 0}.*\")", ["C08"], "breaking"),
    ("t08-platform-score-index", "tags/tags.py", "return len(platform_tags) - platform_tags.index(platform_tag)", "return 1 + platform_tags.index(platform_tag)", ["C09"], "breaking"),
    ("t09-compare-strict", "tags/tags.py", "            if (self.platform.os.major, self.platform.os.minor) <= (", "            if (self.platform.os.major, self.platform.os.minor) < (", ["C16"], "breaking"),
    ("t10-wheel-tags-fixed-positions", "tags/tags.py", "    python, abi, platform = parts[-3:]", "    python, abi, platform = parts[2:5]", ["C18"], "breaking"),
    ("t11-benign-reorder-alias-ifs", "tags/platform.py", "                    if minor == 12:\n                        platform_tags.append(f\"manylinux2010_{arch}\")\n                    if minor == 17:\n                        platform_tags.append(f\"manylinux2014_{arch}\")",
     "                    if minor == 17:\n                        platform_tags.append(f\"manylinux2014_{arch}\")\n                    if minor == 12:\n                        platform_tags.append(f\"manylinux2010_{arch}\")", ["C09"], "benign"),
    # ---- parsing / rendering
    ("p01-tilde-keeps-last-segment", "specifiers/__init__.py", "_, max = _release_series(min, 1)", "_, max = _release_series(min, 0)", ["C04", "C06"], "breaking"),
    ("p02-wildcard-exclusion-open", "specifiers/__init__.py", "RangeSpecifier(min=right, include_min=True),", "RangeSpecifier(min=right, include_min=False),", ["C04"], "breaking"),
    ("p03-benign-release-series-no-trailing-zero", "specifiers/__init__.py", "(*release[:-1], release[-1] + 1, 0)", "(*release[:-1], release[-1] + 1)", ["C04", "C06"], "benign"),
    ("p04-range-str-swapped-ops", "specifiers/range.py", "{\"<=\" if self.include_max else \"<\"}{self.max}'", "{\"<\" if self.include_max else \"<=\"}{self.max}'", ["C06"], "breaking"),
]
