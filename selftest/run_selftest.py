#!/usr/bin/env python3
"""Runs the self-test battery on scratch copies of /repo (outside /repo and /verif; removed afterwards).
usage: run_selftest.py [--only ID-PREFIX] [--jobs N] [--with-suite]      -> selftest/report.json

For every mutant: copy src/ (and tests/ with --with-suite) to a temp dir, apply the textual edit, run
`python3-vt check.py --property P` with VERIF_REPO pointing at the copy (evidence redirected), and compare with the
expectation: a 'breaking' mutant must make every listed check print a VIOLATION line (exit 1); a 'benign' one must not
make any listed check print VIOLATION.  With --with-suite the repository's own test-suite is run on the copy too, to
record whether the edit 'passes the existing tests'."""
import argparse
import json
import os
import shutil
import subprocess
import sys
import tempfile
import time
from concurrent.futures import ThreadPoolExecutor

HERE = os.path.dirname(os.path.abspath(__file__))
VERIF = os.path.dirname(HERE)
sys.path.insert(0, HERE)
from mutants import MUTANTS  # noqa: E402


def run_one(m, with_suite):
    mid, rel, old, new, props, kind = m
    tmp = tempfile.mkdtemp(prefix="dlst_")
    t0 = time.time()
    try:
        shutil.copytree("/repo/src", os.path.join(tmp, "src"))
        p = os.path.join(tmp, "src", "dep_logic", rel)
        s = open(p).read()
        if old not in s:
            return {"id": mid, "status": "edit-does-not-apply"}
        open(p, "w").write(s.replace(old, new, 1) if mid != "u06-benign-rename-local" else s.replace(old, new))
        out = {"id": mid, "kind": kind, "file": rel, "checks": {}}
        if with_suite:
            shutil.copytree("/repo/tests", os.path.join(tmp, "tests"))
            r = subprocess.run(["/venv/bin/python", "-m", "pytest", "-q", "-p", "no:cacheprovider"], cwd=tmp, capture_output=True, text=True,
                               env=dict(os.environ, PYTHONPATH=os.path.join(tmp, "src")), timeout=900)
            out["suite"] = (r.stdout.strip().splitlines() or ["?"])[-1]
            out["passes_existing_tests"] = "2 failed, 2477 passed" in out["suite"]      # the pinned baseline: the same two failures
        env = dict(os.environ, VERIF_REPO=tmp, VERIF_EVIDENCE_DIR=os.path.join(tmp, "evidence"), VERIF_JOBS="8")
        for pid in props:
            r = subprocess.run(["python3-vt", os.path.join(VERIF, "check.py"), "--property", pid], capture_output=True, text=True, env=env, timeout=3600)
            lines = [l for l in r.stdout.splitlines() if l.startswith(("VIOLATION", "UNDECIDED", "CHECKER", "OK"))]
            out["checks"][pid] = {"exit": r.returncode, "violation": any(l.startswith("VIOLATION") for l in lines), "lines": [l[:220] for l in lines[:4]]}
        if kind == "breaking":
            out["as_expected"] = all(c["violation"] and c["exit"] == 1 for c in out["checks"].values())
        else:
            out["as_expected"] = not any(c["violation"] for c in out["checks"].values())
        out["wall_s"] = round(time.time() - t0, 1)
        return out
    finally:
        shutil.rmtree(tmp, ignore_errors=True)


def main():
    ap = argparse.ArgumentParser()
    ap.add_argument("--only", default="")
    ap.add_argument("--jobs", type=int, default=2)
    ap.add_argument("--with-suite", action="store_true")
    a = ap.parse_args()
    todo = [m for m in MUTANTS if m[0].startswith(a.only)]
    with ThreadPoolExecutor(max_workers=a.jobs) as ex:
        results = list(ex.map(lambda m: run_one(m, a.with_suite), todo))
    ok = sum(1 for r in results if r.get("as_expected"))
    rep = {"mutants": len(results), "as_expected": ok, "results": results}
    with open(os.path.join(HERE, "report.json" if not a.only else f"report_{a.only}.json"), "w") as f:
        json.dump(rep, f, indent=1)
    for r in results:
        print(r["id"], "OK" if r.get("as_expected") else "UNEXPECTED", {k: (v["exit"], v["violation"]) for k, v in r.get("checks", {}).items()}, r.get("suite", ""), r.get("status", ""))
    print(f"{ok}/{len(results)} as expected")


if __name__ == "__main__":
    main()
