#!/usr/bin/env python3
"""Re-runs every seeded change kept under /verif/seeded/ against the check of its property (scratch copies of /repo/src; /repo itself is not touched).
usage: run_seeds.py [--jobs N] [--only PREFIX]      -> selftest/seeds_report.json
A seeded change is 'detected' when the check of its own property prints a VIOLATION line (exit 1).  Patches that no longer apply to the current
tree (the code they changed was repaired since) are listed as such."""
import argparse
import json
import os
import shutil
import subprocess
import sys
import tempfile
from concurrent.futures import ThreadPoolExecutor

HERE = os.path.dirname(os.path.abspath(__file__))
VERIF = os.path.dirname(HERE)


def run_one(name):
    d = os.path.join(VERIF, "seeded", name)
    meta = json.load(open(os.path.join(d, "meta.json")))
    pid = meta["property"]
    tmp = tempfile.mkdtemp(prefix="dlseed_")
    try:
        shutil.copytree("/repo/src", os.path.join(tmp, "src"))
        p = subprocess.run(["patch", "-p1", "-s", "--no-backup-if-mismatch", "-i", os.path.join(d, "patch.diff")], cwd=tmp, capture_output=True, text=True)
        if p.returncode != 0:
            return {"seed": name, "property": pid, "status": "patch-does-not-apply"}
        env = dict(os.environ, VERIF_REPO=tmp, VERIF_EVIDENCE_DIR=os.path.join(tmp, "evidence"), VERIF_JOBS="8")
        r = subprocess.run(["python3-vt", os.path.join(VERIF, "check.py"), "--property", pid], capture_output=True, text=True, env=env, timeout=3600)
        lines = [l for l in r.stdout.splitlines() if l.startswith(("VIOLATION", "UNDECIDED", "CHECKER", "OK"))]
        return {"seed": name, "property": pid, "exit": r.returncode, "detected": r.returncode == 1 and any(l.startswith("VIOLATION") for l in lines),
                "lines": [l[:200] for l in lines[:3]]}
    finally:
        shutil.rmtree(tmp, ignore_errors=True)


def main():
    ap = argparse.ArgumentParser()
    ap.add_argument("--jobs", type=int, default=2)
    ap.add_argument("--only", default="")
    a = ap.parse_args()
    names = sorted(n for n in os.listdir(os.path.join(VERIF, "seeded")) if n.startswith(a.only) and os.path.exists(os.path.join(VERIF, "seeded", n, "meta.json")))
    with ThreadPoolExecutor(max_workers=a.jobs) as ex:
        results = list(ex.map(run_one, names))
    applied = [r for r in results if r.get("status") != "patch-does-not-apply"]
    rep = {"seeds": len(results), "applied": len(applied), "detected": sum(1 for r in applied if r["detected"]), "results": results}
    with open(os.path.join(HERE, "seeds_report.json"), "w") as f:
        json.dump(rep, f, indent=1)
    for r in results:
        print(r["seed"], r.get("status") or ("DETECTED" if r["detected"] else f"NOT-DETECTED exit={r['exit']}"))
    print(f"{rep['detected']}/{rep['applied']} applied seeds detected ({len(results) - len(applied)} no longer apply)")


if __name__ == "__main__":
    sys.exit(main())
