#!/usr/bin/env python3
"""CPython differential of the symbolic executor (DESIGN 9.1): the real functions are run (a) by pyvc's executor on *concrete* arguments and
(b) by CPython (/venv/bin/python, the repository imported), and the results are compared structurally.  No solver is involved: this checks the
executor's reading of Python (loops, comprehensions, slices, f-strings, enums, dataclasses, dict/tuple/list methods, exceptions) on the code it is used on.
usage: python3-vt selftest/engine_differential.py        (exit 0: all cases agree; writes selftest/engine_differential.json)"""
import json
import os
import subprocess
import sys

HERE = os.path.dirname(os.path.abspath(__file__))
sys.path.insert(0, os.path.dirname(HERE))
REPO = os.environ.get("VERIF_REPO", "/repo")

# (qualified name, positional arguments as python literals; ("@cls", name) = the class object, ("@enum", cls, member) = an enum member,
#  ("@new", cls, args) = an instance built by the real constructor)
P = "dep_logic.tags.platform:"
CASES = []
for s in ["linux", "windows", "macos", "alpine", "windows_amd64", "windows_x86", "windows_arm64", "macos_arm64", "macos_x86_64", "macos_12_3_arm64", "macos_10_9_x86_64",
          "manylinux_2_17_x86_64", "manylinux_2_28_aarch64", "musllinux_1_1_x86_64", "musllinux_1_2_aarch64", "freebsd_13_x86_64", "plan9_x86_64", "linux_riscv64", "bogus"]:
    CASES.append((P + "Platform.parse", [("@cls", "Platform"), s]))
for a in ["i386", "i686", "amd64", "arm64", "x86_64", "aarch64", "ppc64le", "s390x", "sparc"]:
    CASES.append((P + "Arch.parse", [("@cls", "Arch"), a]))
for s in ["manylinux_2_17_x86_64", "manylinux_2_35_aarch64", "manylinux_2_4_x86_64", "musllinux_1_2_x86_64", "macos_12_3_arm64", "macos_10_9_x86_64", "macos_11_0_x86_64", "windows_amd64",
          "windows_arm64", "manylinux_2_20_s390x", "manylinux_2_40_armv7l"]:
    CASES.append((P + "Platform.compatible_tags", [("@parse", s)]))
    CASES.append((P + "Platform.__str__", [("@parse", s)]))
for fn in ["foo-1.0-py3-none-any.whl", "foo-1.0-1-cp38.cp39-abi3-manylinux_2_17_x86_64.manylinux2014_x86_64.whl", "Foo_Bar-2!1.0.post1-PY2.py3-None-ANY.whl", "foo-1.0-py3-none-any.zip",
           "foo-1.0-py3-none.whl", "a-b-c-d-e-f-g.whl", ".whl", "x-1-2-3-4-5.whl", "pdm.whl.tools-1.0-py3-none-any.whl"]:
    CASES.append(("dep_logic.tags.tags:parse_wheel_tags", [fn]))
U = "dep_logic.utils:"
for l, n in [([1, 2], 4), ([], 3), ([0, 0, 0], 2), ([5], 1), ([1, 2, 3], 0)]:
    CASES.append((U + "pad_zeros", [l, n]))
for a, b in [([1, 2, 3], [1, 2, 4]), ([1, 2], [1, 2]), ([], []), ([0], [1]), ([1, 2, 3], [1, 2]), ([3, 1], [3, 1, 0])]:
    CASES.append((U + "first_different_index", [a, b]))
for op in ["<", "<=", ">", ">=", "==", "!=", "===", "~=", "in", "not in", "=~"]:
    CASES.append((U + "get_reflect_op", [op]))
for v in ["1.2.3", "1.0a1", "1.2.post3", "2!1.0", "1.0rc1.dev2", "1", "1.2.*", "v1.2"]:
    CASES.append((U + "version_split", [v]))
for sgm in ["dev1", "a1", "b2", "rc1", "post0", "0", "12", "x", "alpha"]:
    CASES.append((U + "is_not_suffix", [sgm]))
for nm in ["Foo.Bar", "a__b", "a-_.b", "A", "x.-y--z", ""]:
    CASES.append((U + "normalize_name", [nm]))
for l in [[1, 2, 2, 3, 1], [], ["a", "b", "a"], [3]]:
    CASES.append((U + "OrderedSet.__init__@data", [l]))

# specifier algebra on concrete operands: texts over the versions 1 .. 6 (executor: versions as numbers, T-SPEC; CPython: packaging versions)
SPEC_TEXTS = ["", "<empty>", ">=2", "<4", ">2,<=5", ">=3,<3.5", "==3", "!=3", "<2||>=4", "<=1||>2,<3||>=5", "!=2,!=4", ">=1,<6"]
for i, a in enumerate(SPEC_TEXTS):
    CASES.append(("@spec", ["invert", a, ""]))
    for b in SPEC_TEXTS[i % 3::3]:
        CASES.append(("@spec", ["and", a, b]))
        CASES.append(("@spec", ["or", a, b]))


REAL_SCRIPT = r'''
import json, sys, dataclasses, enum
sys.path.insert(0, sys.argv[1] + "/src")
import importlib
cases = json.load(open(sys.argv[2]))
def norm(v):
    if isinstance(v, enum.Enum):
        return {"@enum": type(v).__name__, "name": v.name}
    if dataclasses.is_dataclass(v) and not isinstance(v, type):
        return {"@obj": type(v).__name__, "fields": {f.name: norm(getattr(v, f.name)) for f in dataclasses.fields(v) if f.compare}}
    if isinstance(v, (list, tuple)):
        return [norm(x) for x in v]
    if isinstance(v, (str, int, bool)) or v is None:
        return v
    return {"@repr": repr(v)}
def arg(a, mod):
    if isinstance(a, list) and a and a[0] == "@cls":
        return getattr(mod, a[1])
    if isinstance(a, list) and a and a[0] == "@parse":
        return mod.Platform.parse(a[1])
    return a
out = []
def spec_norm(x):
    from dep_logic.specifiers import RangeSpecifier, UnionSpecifier
    def r(g):
        return [None if g.min is None else float(str(g.min)), bool(g.include_min), None if g.max is None else float(str(g.max)), bool(g.include_max)]
    if isinstance(x, RangeSpecifier):
        return {"@spec": "RangeSpecifier", "ranges": [r(x)]}
    if isinstance(x, UnionSpecifier):
        return {"@spec": "UnionSpecifier", "ranges": [r(g) for g in x.ranges]}
    return {"@spec": type(x).__name__, "ranges": []}
for q, args in cases:
    if q == "@spec":
        from dep_logic.specifiers import parse_version_specifier as P_
        op, a, b = args
        try:
            x = P_(a)
            out.append({"ok": spec_norm(~x if op == "invert" else (x & P_(b)) if op == "and" else (x | P_(b)))})
        except Exception as e:
            out.append({"raises": type(e).__name__})
        continue
    modname, _, rest = q.partition(":")
    rest, _, variant = rest.partition("@")
    mod = importlib.import_module(modname)
    try:
        if variant == "data":
            r = getattr(mod, rest.split(".")[0])(*args)._data
        else:
            f = mod
            for part in rest.split("."):
                f = getattr(f, part)
            a = [arg(x, mod) for x in args]
            if a and isinstance(a[0], type) and "." in rest:
                a = a[1:]            # classmethod: bound already
            r = f(*a) if not (rest.endswith("compatible_tags")) else getattr(a[0], "compatible_tags")
            if rest.endswith("__str__"):
                r = str(a[0])
        out.append({"ok": norm(r)})
    except Exception as e:
        out.append({"raises": type(e).__name__})
print("@@" + json.dumps(out))
'''


def norm_sym(v):
    import z3
    from pyvc.values import AList, Obj
    if isinstance(v, Obj):
        if "_name_" in v.fields:
            return {"@enum": v.cls.name, "name": v.fields["_name_"]}
        return {"@obj": v.cls.name, "fields": {k: norm_sym(x) for k, x in v.fields.items() if not k.startswith("_") and k != "simplified"}}
    if isinstance(v, (list, tuple)):
        return [norm_sym(x) for x in v]
    if isinstance(v, (str, int, bool)) or v is None:
        return v
    if z3.is_expr(v):
        s = z3.simplify(v)
        if z3.is_int_value(s):
            return s.as_long()
        if z3.is_string_value(s):
            return s.as_string()
        if z3.is_true(s) or z3.is_false(s):
            return z3.is_true(s)
    return {"@repr": repr(v)[:80]}


def spec_obj(th, ix, text):
    """a concrete specifier object of the executor for a text over the numbers 1 .. 6 (built directly, not through the parser)"""
    import z3
    from pyvc.values import Obj, Opt
    if text == "<empty>":
        return Obj(ix.cls("EmptySpecifier"), {})
    none_s = Opt(z3.BoolVal(False), z3.StringVal(""), "str")

    def rng(lo, ilo, hi, ihi):
        mk = lambda v: Opt(z3.BoolVal(v is not None), z3.RealVal(str(v if v is not None else 0)))
        return Obj(ix.cls("RangeSpecifier"), {"min": mk(lo), "max": mk(hi), "include_min": ilo, "include_max": ihi, "simplified": none_s})

    def clause_set(alt):
        lo, ilo, hi, ihi, holes = None, False, None, False, []
        for c in [c for c in alt.split(",") if c]:
            for op in (">=", "<=", "==", "!=", ">", "<"):
                if c.startswith(op):
                    v = float(c[len(op):])
                    break
            if op in (">=", ">"):
                if lo is None or v > lo or (v == lo and op == ">"):
                    lo, ilo = v, op == ">="
            elif op in ("<=", "<"):
                if hi is None or v < hi or (v == hi and op == "<"):
                    hi, ihi = v, op == "<="
            elif op == "==":
                lo, ilo, hi, ihi = v, True, v, True
            else:
                holes.append(v)
        pieces, cur = [], (lo, ilo)
        for h in sorted(holes):
            pieces.append((cur[0], cur[1], h, False))
            cur = (h, False)
        pieces.append((cur[0], cur[1], hi, ihi))
        return pieces
    pieces = [p for alt in text.split("||") for p in clause_set(alt)]
    if len(pieces) == 1:
        return rng(*pieces[0])
    return Obj(ix.cls("UnionSpecifier"), {"ranges": tuple(rng(*p) for p in pieces), "simplified": none_s})


def spec_norm_sym(v):
    import z3
    from pyvc.values import Obj, SymObj

    def num(o):
        if o is None or not z3.is_true(z3.simplify(o.has)):
            return None
        x = z3.simplify(o.val)
        return float(x.numerator_as_long()) / float(x.denominator_as_long())

    def r(g):
        f = g.fields
        b = lambda x: bool(z3.is_true(z3.simplify(x))) if z3.is_expr(x) else bool(x)
        return [num(f["min"]), b(f["include_min"]), num(f["max"]), b(f["include_max"])]
    if isinstance(v, Obj) and v.cls.name == "RangeSpecifier":
        return {"@spec": "RangeSpecifier", "ranges": [r(v)]}
    if isinstance(v, Obj) and v.cls.name == "UnionSpecifier":
        return {"@spec": "UnionSpecifier", "ranges": [r(g) for g in v.fields["ranges"]]}
    if isinstance(v, Obj):
        return {"@spec": v.cls.name, "ranges": []}
    return {"@repr": repr(v)[:80]}


def run_spec(args):
    import ast
    from pyvc import extract
    from pyvc.engine import Exec
    from pyvc.theories import spec as T
    ix = run_sym.ix = getattr(run_sym, "ix", None) or extract.Index()
    th = T.SpecTheory(ix)
    ex = Exec(ix, th)
    op, a, b = args

    def thunk(e):
        x = spec_obj(th, ix, a)
        if op == "invert":
            return e.unary(ast.Invert(), x) if hasattr(e, "unary") else e.call_function(ix.find_method(x.cls, "__invert__")[0], [x], inline=True)
        return e.binop(ast.BitAnd() if op == "and" else ast.BitOr(), x, spec_obj(th, ix, b))
    outcomes, _ = ex.explore(thunk, [])
    if len(outcomes) != 1:
        return {"paths": len(outcomes)}
    oc = outcomes[0]
    if oc.kind == "return":
        return {"ok": spec_norm_sym(oc.value)}
    return {"raises": getattr(oc.value, "cls_name", str(oc.value))}


def run_sym(q, args):
    if q == "@spec":
        return run_spec(args)
    from pyvc import extract
    from pyvc.engine import Exec
    from pyvc.values import ClassRef, Obj, RaiseEx
    from contracts.platform_parse import PlatformTheory
    ix = run_sym.ix = getattr(run_sym, "ix", None) or extract.Index()
    th = PlatformTheory(ix)
    ex = Exec(ix, th)
    q0, _, variant = q.partition("@")
    f = ix.func(q0)

    def thunk(e):
        a = []
        for x in args:
            if isinstance(x, (list, tuple)) and x and x[0] == "@cls":
                a.append(ClassRef(ix.cls(x[1])))
            elif isinstance(x, (list, tuple)) and x and x[0] == "@parse":
                a.append(e.call_function(ix.func(P + "Platform.parse"), [ClassRef(ix.cls("Platform")), x[1]], inline=True))
            else:
                a.append(x)
        if variant == "data":
            o = Obj(ix.cls("OrderedSet"), {})
            e.call_function(f, [o] + a, inline=True)
            return o.fields["_data"]
        if q0.endswith("compatible_tags"):
            return e.getattr(a[0], "compatible_tags")
        return e.call_function(f, a, inline=True)
    outcomes, _ = ex.explore(thunk, [])
    if len(outcomes) != 1:
        return {"paths": len(outcomes)}
    oc = outcomes[0]
    if oc.kind == "return":
        return {"ok": norm_sym(oc.value)}
    return {"raises": getattr(oc.value, "cls_name", str(oc.value))}


def main():
    import tempfile
    with tempfile.NamedTemporaryFile("w", suffix=".json", delete=False) as tf:
        json.dump(CASES, tf)
    try:
        p = subprocess.run(["/venv/bin/python", "-c", REAL_SCRIPT, REPO, tf.name], capture_output=True, text=True, timeout=600)
        real = json.loads(p.stdout.split("@@")[1])
    finally:
        os.unlink(tf.name)
    rows, bad = [], 0
    for (q, args), r in zip(CASES, real):
        try:
            s = run_sym(q, args)
        except Exception as e:  # noqa: BLE001
            s = {"engine": type(e).__name__ + ": " + str(e)[:120]}
        same = json.dumps(s, sort_keys=True) == json.dumps(r, sort_keys=True)
        outside = "engine" in s and "OutsideSubset" in s["engine"]
        rows.append({"function": q, "args": args, "cpython": r, "executor": s, "agree": same, "outside_subset": outside})
        if not same and not outside:
            bad += 1
            print("DIFFERENT", q, args, "cpython:", json.dumps(r)[:200], "executor:", json.dumps(s)[:200])
    n_out = sum(1 for x in rows if x["outside_subset"])
    with open(os.path.join(HERE, "engine_differential.json"), "w") as f:
        json.dump({"cases": len(rows), "agree": sum(1 for x in rows if x["agree"]), "outside_subset": n_out, "different": bad, "rows": rows}, f, indent=1)
    print(f"{len(rows)} cases, {sum(1 for x in rows if x['agree'])} agree, {n_out} outside the executor's subset, {bad} different")
    return 1 if bad else 0


if __name__ == "__main__":
    sys.exit(main())
