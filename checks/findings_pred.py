"""Predicates that decide whether a reported violation belongs to a recorded finding class (known_findings.json).
Each takes the violation signature {check, input, obligation} and must be specific: anything else is still reported."""
from __future__ import annotations

import re

from packaging.version import Version


def _ranges(obj):
    if not isinstance(obj, dict):
        return []
    if obj.get("cls") == "RangeSpecifier":
        return [obj]
    if obj.get("cls") == "UnionSpecifier":
        return list(obj.get("ranges", []))
    return []


def d3_compatible_release_with_post_bound(sig):
    """`~=V` rendering of a range whose exclusive upper bound is a post-release (pinned by the repository's own test)."""
    if (sig.get("obligation") or "").endswith("#C06.range.tilde.upper-has-no-post-release"):
        return True          # the proof obligation that states exactly this finding class
    inp = sig.get("input") or {}
    text = inp.get("str") or ""
    if "~=" not in text:
        return False
    for r in _ranges(inp.get("object")):
        if r.get("max") and r.get("min") and not r.get("include_max") and r.get("include_min"):
            if Version(r["max"]).is_postrelease and f"~={Version(r['min'])}" in text.replace(" ", ""):
                return True
    return False


_IN_ATOM = re.compile(r'python_version\s+(?:not\s+)?in\s+"([^"]*)"')


def d14_python_version_in_substring(sig):
    """`python_version in "..."`: evaluated as a substring test (as packaging does) but merged as a list of versions;
    the two readings differ exactly when the environment's python_version is a proper substring of the literal that
    is not one of the listed items."""
    inp = sig.get("input") or {}
    env = inp.get("env") or {}
    pv = env.get("python_version")
    if not pv:
        return False
    texts = " ".join(str(inp.get(k, "")) for k in ("a", "b", "c", "text", "marker"))
    for lit in _IN_ATOM.findall(texts):
        items = [x.strip() for x in lit.split(",")]
        if pv in lit and pv not in items:
            return True
    return False


_VERSION_VARS = ("python_full_version", "python_version", "platform_release", "implementation_version")


def _interval_atom(var, op, lit, env):
    """a version atom read in the library's interval model: plain position in the PEP 440 total order, without the rule that `< V` excludes the
    pre-releases of V and `> V` its post-releases; None when the atom is not a plain version comparison"""
    try:
        v = Version(str(env[var]))
        if lit.endswith(".*") and op in ("==", "!="):
            rel = [int(x) for x in lit[:-2].split(".")]
            lo, hi = Version(".".join(map(str, rel)) + ".dev0"), Version(".".join(map(str, rel[:-1] + [rel[-1] + 1])) + ".dev0")
            inside = lo <= v < hi
            return inside if op == "==" else not inside
        b = Version(lit)
    except Exception:  # noqa: BLE001
        return None
    if op == "~=":
        rel = list(b.release)
        if len(rel) < 2:
            return None
        hi = Version(f"{b.epoch}!" + ".".join(map(str, rel[:-2] + [rel[-2] + 1])))
        return b <= v < hi
    table = {"<": v < b, "<=": v <= b, ">": v > b, ">=": v >= b, "==": v == b, "!=": v != b}
    return table.get(op)


def _interval_eval(tree, env):
    """packaging's parsed marker tree evaluated with version atoms in the interval model and every other atom by packaging itself"""
    from packaging.markers import Marker, Value, Variable
    mirror = {"<": ">", "<=": ">=", ">": "<", ">=": "<=", "==": "==", "!=": "!=", "~=": "~="}
    groups, cur = [], []
    for item in tree:
        if isinstance(item, str):
            if item == "or":
                groups.append(cur)
                cur = []
            continue
        if isinstance(item, list):
            cur.append(_interval_eval(item, env))
            continue
        lhs, op, rhs = item
        val = None
        if isinstance(lhs, Variable) and isinstance(rhs, Value) and lhs.value in _VERSION_VARS:
            val = _interval_atom(lhs.value, op.value, rhs.value, env)
        elif isinstance(rhs, Variable) and isinstance(lhs, Value) and rhs.value in _VERSION_VARS and op.value in mirror:
            val = _interval_atom(rhs.value, mirror[op.value], lhs.value, env)
        if val is None:
            q = lambda x: x.value if isinstance(x, Variable) else '"' + x.value + '"'      # noqa: E731
            val = Marker(f"{q(lhs)} {op.value} {q(rhs)}").evaluate(env)
        cur.append(val)
    groups.append(cur)
    return any(all(g) for g in groups)


def d22_interval_model_on_nonfinal_environment(sig):
    """The environment's value of a version-valued variable is a pre-, post- or dev-release, the marker has two or more atoms on that variable, the
    library's rewriting of the marker (`rendered`, recorded by the suite) means the same as the original *in the interval model* of the specifier
    algebra (position in the PEP 440 total order, without the rule that `< V` excludes the pre-releases of V and `> V` its post-releases) on this
    environment, and the library's answer is what packaging gives on that rewriting.  I.e. the only discrepancy is that merging preserved the
    interval meaning but not PEP 440's exclusion rules.  Anything else the library answers on such an environment is still reported."""
    from packaging.markers import Marker
    inp = sig.get("input") or {}
    env = inp.get("env") or {}
    observed, expected, rendered = sig.get("observed"), sig.get("expected"), inp.get("rendered")
    if not isinstance(observed, bool) or not isinstance(expected, bool) or observed == expected or not isinstance(rendered, str):
        return False
    nonfinal = []
    for var in _VERSION_VARS:
        if var in env:
            try:
                ver = Version(str(env[var]))
            except Exception:  # noqa: BLE001
                continue
            if ver.is_prerelease or ver.is_postrelease or ver.is_devrelease:
                nonfinal.append(var)
    if not nonfinal:
        return False
    if "text" in inp:
        text = inp["text"]
    elif "a" in inp and "b" in inp and inp.get("op") in ("and", "or"):
        text = f"({inp['a']}) {inp['op']} ({inp['b']})"
    else:
        return False
    if not any(len(re.findall(r"\b%s\b" % var, text)) >= 2 for var in nonfinal):
        return False
    e = {k: (set(v) if isinstance(v, list) else v) for k, v in env.items()}

    def both(t):
        if t == "":
            return True, True
        if t == "<empty>":
            return False, False
        mk = Marker(t)
        return mk.evaluate(e), _interval_eval(mk._markers, e)
    pk_rendered, iv_rendered = both(rendered)
    return observed == pk_rendered and _interval_eval(Marker(text)._markers, e) == iv_rendered


PREDICATES = {f.__name__: f for f in (d3_compatible_release_with_post_bound, d14_python_version_in_substring, d22_interval_model_on_nonfinal_environment)}

