"""Predicates that decide whether a reported violation belongs to a recorded finding class (known_findings.json).
Each takes the violation signature {check, input, obligation} and must be specific: anything else is still reported."""
from __future__ import annotations

import re

from packaging.version import Version


def _ranges(obj):
    if not isinstance(obj, dict):
        return []
    if obj.get("cls") == "RangeSpecifier":
        return [obj]
    if obj.get("cls") == "UnionSpecifier":
        return list(obj.get("ranges", []))
    return []


def d3_compatible_release_with_post_bound(sig):
    """`~=V` rendering of a range whose exclusive upper bound is a post-release (pinned by the repository's own test)."""
    if (sig.get("obligation") or "").endswith("#C06.range.tilde.upper-has-no-post-release"):
        return True          # the proof obligation that states exactly this finding class
    inp = sig.get("input") or {}
    text = inp.get("str") or ""
    if "~=" not in text:
        return False
    for r in _ranges(inp.get("object")):
        if r.get("max") and r.get("min") and not r.get("include_max") and r.get("include_min"):
            if Version(r["max"]).is_postrelease and f"~={Version(r['min'])}" in text.replace(" ", ""):
                return True
    return False


_IN_ATOM = re.compile(r'python_version\s+(?:not\s+)?in\s+"([^"]*)"')


def d14_python_version_in_substring(sig):
    """`python_version in "..."`: evaluated as a substring test (as packaging does) but merged as a list of versions;
    the two readings differ exactly when the environment's python_version is a proper substring of the literal that
    is not one of the listed items."""
    inp = sig.get("input") or {}
    env = inp.get("env") or {}
    pv = env.get("python_version")
    if not pv:
        return False
    texts = " ".join(str(inp.get(k, "")) for k in ("a", "b", "c", "text", "marker"))
    for lit in _IN_ATOM.findall(texts):
        items = [x.strip() for x in lit.split(",")]
        if pv in lit and pv not in items:
            return True
    return False


PREDICATES = {f.__name__: f for f in (d3_compatible_release_with_post_bound, d14_python_version_in_substring)}
