"""Per-property plans and the generic decision procedure (proof obligations + bounded stand-in + findings)."""
from __future__ import annotations

import json
import os
import time

from . import common

RANGE = "dep_logic.specifiers.range:RangeSpecifier."
UNION = "dep_logic.specifiers.union:UnionSpecifier."
RANGE_HELPERS = [RANGE + n for n in ("allows_lower", "allows_higher", "is_strictly_lower", "is_adjacent_to", "is_superset", "is_subset",
                                     "__lt__", "can_combine", "is_any", "__post_init__")]
RANGE_OPS = [RANGE + n for n in ("__and__", "__or__", "__invert__")]
UNION_OPS = [UNION + n for n in ("__and__", "__or__", "__invert__")]


class Plan:
    level = "proof"
    technique = ""
    trusted_base: list = []
    assumptions: list = []
    rtc: list = []                 # [(suite, arg)]
    fallback_rtc = None            # suite used to look for a real failing input when a model does not replay

    def stages(self, tier, nproc):
        """-> (named, functions, crashes, notes)"""
        return {}, {}, [], []

    def own(self, name):
        return True

    def own_rtc(self, check):
        return True

    def replay_request(self, name, rec):
        return None


def _merge(results, named, functions, crashes):
    for r in results:
        if r.get("crash"):
            crashes.append({"job": r["job"], "traceback": r["crash"][-2000:]})
        for k, d in r["named"].items():
            if k in named:
                o = named[k]
                o["vcs"] += d["vcs"]
                o["secs"] += d["secs"]
                o["backends"] = sorted(set(o["backends"]) | set(d["backends"]))
                rank = {"unsat": 0, "unknown": 1, "candidate": 2, "sat": 3}
                if rank[d["status"]] > rank[o["status"]]:
                    o["status"], o["model"], o["detail"] = d["status"], d["model"], d["detail"]
            else:
                named[k] = d
        for k, f in r["functions"].items():
            if k in functions:
                functions[k]["paths"] += f["paths"]
                functions[k]["cases"] += f["cases"]
            else:
                functions[k] = f


class SpecPlan(Plan):
    """C01 / C05 / C14(specifiers): one shared proof run; each property owns its clauses."""
    technique = "contracts on RangeSpecifier/UnionSpecifier/special operators; VCs generated from the real AST (pyvc), loop invariants, z3 (LRA+arrays, deterministic instantiation)"
    trusted_base = ["A-ENGINE", "A-ORD: packaging.Version ordering is a strict total order consistent with ==/hash (versions modelled as reals)",
                    "A-STDLIB", "A-TERM"]
    rtc = [("spec_algebra", None)]
    fallback_rtc = "spec_algebra"

    def __init__(self, pid):
        self.pid = pid

    def stages(self, tier, nproc):
        named, functions, crashes, notes = {}, {}, [], []
        tmo = 60000 if tier == "quick" else 180000      # per-VC budget (the slowest VC of the unchanged tree needs ~17 s with all cores busy)
        res = common.run_jobs([(t, "spec_function", {"target": t, "timeout_ms": tmo}) for t in RANGE_HELPERS], nproc)
        _merge(res, named, functions, crashes)
        held = []
        for t in RANGE_HELPERS:
            mine = [d for k, d in named.items() if k.startswith(t + "#")]
            if mine and all(d["status"] == "unsat" for d in mine):
                held.append(t)
            else:
                notes.append(f"helper contract of {t} not established on this tree -> the helper is inlined at its call sites instead")
        # helper contracts are not property clauses: drop their own obligations from the decision, keep them in the report
        self.helper_obligations = {k for k in named if any(k.startswith(t + "#") for t in RANGE_HELPERS)}
        use_b = held + RANGE_OPS
        jobs = [(t, "spec_function", {"target": t, "use": held, "timeout_ms": tmo}) for t in RANGE_OPS]
        jobs += [(t, "spec_function", {"target": t, "use": use_b, "timeout_ms": tmo}) for t in UNION_OPS]
        jobs += [(f"law.{op}", "spec_law", {"op": op, "use": held + RANGE_OPS + UNION_OPS, "timeout_ms": tmo}) for op in ("and", "or", "invert")]
        res = common.run_jobs(jobs, nproc)
        _merge(res, named, functions, crashes)
        return named, functions, crashes, notes

    C01_MARKS = (".den", "#raises.", "returns-specifier", "notimplemented", "#pre@", "#subset.", "#cover.", "#reach.", "law.C01.")

    def own(self, name):
        if name in getattr(self, "helper_obligations", ()):
            return False
        c01 = any(m in name for m in self.C01_MARKS) and "law.C05." not in name
        if self.pid == "C01":
            return c01
        if self.pid == "C05":
            return not c01 or any(m in name for m in ("#raises.", "#pre@", "#subset.", "#cover.", "#reach.", "returns-specifier"))
        return True

    def own_rtc(self, check):
        return check.startswith(self.pid + ".")

    def replay_request(self, name, rec):
        m = rec.get("model") or {}
        op = "and" if "__and__" in name or ".and" in name else "or" if "__or__" in name or ".or" in name else "invert"
        a = m.get("self") or m.get("a")
        b = m.get("other") or m.get("b")
        if not a:
            return None
        return {"suite": "spec_replay", "arg": {"op": op, "a": a, "b": b, "ghost_v": m.get("ghost_v")}}


class JobsPlan(Plan):
    """proof obligations from a fixed list of jobs + optional bounded cross-check"""

    def __init__(self, pid, jobs, rtc=(), technique="", trusted_base=(), assumptions=(), level="proof", replay=None, explanation=None):
        self.pid, self.jobs, self.rtc = pid, list(jobs), [(s, None) for s in rtc]
        self.technique, self.trusted_base, self.assumptions, self.level = technique, list(trusted_base), list(assumptions), level
        self._replay = replay
        if explanation:
            self.explanation = explanation

    def stages(self, tier, nproc):
        named, functions, crashes, notes = {}, {}, [], []
        tmo = 60000 if tier == "quick" else 180000      # per-VC budget (the slowest VC of the unchanged tree needs ~17 s with all cores busy)
        jobs = [(n, fn, {**kw, "timeout_ms": tmo}) for n, fn, kw in self.jobs]
        _merge(common.run_jobs(jobs, nproc), named, functions, crashes)
        return named, functions, crashes, notes

    def own_rtc(self, check):
        return check.startswith(self.pid + ".")

    def replay_request(self, name, rec):
        return self._replay(name, rec) if self._replay else None


def _c19_replay(name, rec):
    m = rec.get("model") or {}
    if "a" not in m:
        return None
    op = "and" if ".and." in name else "or" if ".or." in name else "invert" if ".invert." in name else "special"
    return {"suite": "generic_replay", "arg": {"op": op, "a": m.get("a"), "b": m.get("b"), "candidate": m.get("candidate", "")}}


MARKER_TARGETS_C02 = ["dep_logic.utils:flatten_items", "dep_logic.markers.multi:MultiMarker.of", "dep_logic.markers.union:MarkerUnion.of",
                      "dep_logic.utils:cnf", "dep_logic.utils:dnf", "dep_logic.utils:intersection", "dep_logic.utils:union",
                      "dep_logic.markers.multi:MultiMarker.union_simplify", "dep_logic.markers.union:MarkerUnion.intersect_simplify",
                      "dep_logic.utils:cnf@distributive", "dep_logic.utils:dnf@distributive"] + \
    [f"{q}{op}" for q in ("dep_logic.markers.any:AnyMarker.", "dep_logic.markers.empty:EmptyMarker.", "dep_logic.markers.multi:MultiMarker.",
                          "dep_logic.markers.union:MarkerUnion.") for op in ("__and__", "__or__")]
MARKER_TARGETS_C12 = [f"{q}{m}" for q in ("dep_logic.markers.single:SingleMarker.", "dep_logic.markers.multi:MultiMarker.", "dep_logic.markers.union:MarkerUnion.",
                                          "dep_logic.markers.any:AnyMarker.", "dep_logic.markers.empty:EmptyMarker.") for m in ("exclude", "only", "without_extras")]


ATOM_TARGETS = ["dep_logic.utils:OrderedSet.__init__"] + [f"dep_logic.markers.single:{c}.{m}" for c in ("EqualityMarkerUnion", "InequalityMultiMarker")
                                                          for m in ("replace", "__and__", "__or__")] + \
    ["dep_logic.markers.single:_merge_single_markers", "dep_logic.markers.single:MarkerExpression.__and__", "dep_logic.markers.single:MarkerExpression.__or__",
     "dep_logic.markers.single:MarkerExpression._evaluate"]


class MarkerPlan(Plan):
    """C02 / C12: combinator layer over abstract markers (T-MARK) + the bounded sweep on the real objects"""
    level = "other"
    technique = "contracts and loop invariants on the marker combinators (flatten_items, of(), cnf/dnf same-kind branch, intersection, union, class operators, only/exclude) over abstract markers " \
                "with ev/uses ghosts; definitional axioms generated from the real evaluate() bodies; z3 with deterministic instantiation; atom layer by the bounded stand-in"
    trusted_base = ["A-ENGINE", "law.C13 (== implies same meaning/class/variables) as proved by the C13 check for atoms, bounded for compounds",
                    "A-STDLIB itertools.product over an abstract list of lists: every tuple takes one member of each list in order, the product is empty iff a list is, and it contains the tuple picked by "
                    "the two choice functions the distributive law needs (contracts/markers.py: product_contract)",
                    "assumed contracts (guarded by the bounded part): for version-valued atoms the bridge 'an atom holds iff its specifier view admits the environment's value' "
                    "(C11 a, proved by the C11 check relative to A-PKG-CONTAINS; it holds for environment values that are final releases - for pre-/post-/dev-release values it does not, which is the open finding D22 shown by the bounded part); _normalize_python_version_specifier and from_specifier by their C11 contracts (proved by the C11 check)", "A-STDLIB set semantics: set(xs), issubset, intersection, difference, `in` decide membership by == with an element (hash consistent with ==: C13)",
                    "A-HASHSEED", "A-TERM"]
    rtc = [("marker_algebra", None)]

    def __init__(self, pid):
        self.pid = pid
        self.level = "proof" if pid == "C12" else "other"
        if pid == "C15":
            self.explanation = ("proof part: the atom-layer operators (groups of ==/!= atoms, merging of two string atoms) never return an atom group with fewer than two values; "
                                "bounded part: the normal-form predicate on every parse/&/|/only/exclude result of the marker sweep. The fix-point clause of of() (no neutral child, >= 2 children) is not "
                                "expressible as an inductive invariant (DESIGN section 5, C15) and is covered by the bounded part only.")
        else:
            self.explanation = ("proof part: every path-VC of the listed combinator functions is discharged for all markers / all list lengths / all environments (pointwise ghosts); "
                                "bounded part: the same meaning contract evaluated on real markers from the atom pool (covers the assumed atom layer). The two together are reported, the bounded part never counted as proved.")

    def stages(self, tier, nproc):
        named, functions, crashes, notes = {}, {}, [], []
        tmo = 60000 if tier == "quick" else 180000      # per-VC budget; the slowest VCs take ~11 s with all cores busy
        targets = [] if self.pid == "C15" else MARKER_TARGETS_C02 + MARKER_TARGETS_C12
        heavy = {"dep_logic.utils:flatten_items": 12, "dep_logic.markers.multi:MultiMarker.of": 6, "dep_logic.markers.union:MarkerUnion.of": 6, "dep_logic.utils:union": 3,
                 "dep_logic.markers.multi:MultiMarker.union_simplify": 8, "dep_logic.markers.union:MarkerUnion.intersect_simplify": 8,
                 "dep_logic.utils:cnf@distributive": 4, "dep_logic.utils:dnf@distributive": 4}
        jobs = []
        for t in targets:
            n = heavy.get(t, 1)
            for k in range(n):
                jobs.append((f"{t}[{k}/{n}]", "marker_function", {"name": t, "timeout_ms": tmo, "vc_slice": (k, n) if n > 1 else None}))
        if self.pid in ("C02", "C15", "C12"):      # (C12: only()/exclude() end in of(), whose proof uses the operator law of the atom layer)
            jobs += [(t, "atom_function", {"name": t, "timeout_ms": tmo}) for t in ATOM_TARGETS]
        if self.pid == "C02":
            jobs.append(("C02.version-atoms", "atom_versions", {"timeout_ms": tmo}))
        jobs.sort(key=lambda j: -heavy.get(j[2].get("name"), 1))
        _merge(common.run_jobs(jobs, nproc), named, functions, crashes)
        return named, functions, crashes, notes

    def own(self, name):
        if self.pid == "C12":
            return "C12." in name or any(t + "#" in name for t in MARKER_TARGETS_C12)
        if self.pid == "C15":
            return "C15." in name
        return not ("C12." in name) and not ("C15." in name) and not ("C03." in name) and any(name.startswith(t.split("@")[0] + "#") for t in MARKER_TARGETS_C02 + ATOM_TARGETS + ["dep_logic.markers.single:_merge_single_markers@versions"])

    def own_rtc(self, check):
        return check.startswith(self.pid + ".")


class RtcPlan(Plan):
    """bounded stand-in only: run-time contracts on the real functions (labelled bounded, never counted as proved)"""
    level = "exploration"
    technique = "bounded stand-in: run-time evaluation of the property's contract on the real functions over an enumerated input space"
    trusted_base = ["the bounded oracle (rtc/) transcribed from the property statement", "packaging (installed release) where it is the reference"]

    def __init__(self, pid, suites):
        self.pid = pid
        self.rtc = [(s, None) for s in suites]

    def own_rtc(self, check):
        return check.startswith(self.pid + ".")


RTC_SUITES = {
    "C02": ["marker_algebra"], "C03": ["marker_vs_packaging"], "C04": ["spec_text"], "C06": ["spec_text"], "C07": ["marker_algebra"],
    "C08": ["tags_python"], "C09": ["tags_platform"], "C10": ["memo"], "C11": ["bridge"], "C12": ["marker_algebra"], "C13": ["eqhash"],
    "C14": ["spec_algebra", "marker_algebra"], "C15": ["marker_algebra"], "C16": ["tags_compare"], "C17": ["spec_text"], "C18": ["wheel_names"],
    "C19": ["generic_spec"],
}


def get_plan(pid):
    if pid in ("C01", "C05"):
        return SpecPlan(pid)
    if pid == "C19":
        return JobsPlan("C19", [(f"generic.{w}", "generic_law", {"which": w}) for w in ("and", "or", "invert", "special", "constructor")],
                        rtc=["generic_spec"], replay=_c19_replay,
                        technique="contracts on GenericSpecifier.__and__/__or__/__invert__/__contains__/__post_init__ and Empty/Any.__contains__; VCs from the real AST over SMT strings (z3 seq, cvc5 fallback)",
                        trusted_base=["A-ENGINE", "A-STDLIB: Python `s in t` on str is substring containment, str ordering is code-point lexicographic (= SMT-LIB str.<)", "A-TERM"])
    if pid in ("C02", "C12", "C15"):
        return MarkerPlan(pid)
    if pid == "C07":
        jobs = [(t, "marker_function", {"name": t}) for t in ("dep_logic.markers.multi:MultiMarker.__str__", "dep_logic.markers.union:MarkerUnion.__str__")]
        jobs.append(("C07.atoms", "atom_roundtrip", {}))
        return JobsPlan("C07", jobs, rtc=["marker_algebra"], level="other",
                        technique="parenthesisation contract of MultiMarker.__str__ / MarkerUnion.__str__ over a document algebra (atom / and-join / or-join / parenthesised / tokens): every operand of a join "
                                  "parses at that precedence level and means the corresponding child; loop/comprehension invariants; atoms: the real MarkerExpression.__str__ followed by packaging's reading of "
                                  "`V op \"L\"` / `\"L\" op V` and the real _build_markers gives the same atom back (10 operators x both operand orders, symbolic names and literals); z3. "
                                  "Round trip through the real parsers as bounded part",
                        trusted_base=["A-ENGINE", "A-PKG-PARSE: packaging parses 'and' tighter than 'or', parentheses group", "contract of str() on the children (kind by class, meaning = evaluation), assumed recursively",
                                      "normal form of the rendered marker (no empty/universal child) - C15", "atom-group renderings (EqualityMarkerUnion / InequalityMultiMarker) and quoting of literals are covered by the bounded part"],
                        explanation="proof part: the structural reason why re-parsing a rendered compound gives the same meaning (no unparenthesised or-join inside an and-join, no <empty>/'' token inside); "
                                    "bounded part: str() of every result of the marker sweep re-parsed by parse_marker and packaging.Marker and re-evaluated on the environment grid")
    if pid in ("C06", "C04"):
        R = "dep_logic.specifiers.range:RangeSpecifier."
        targets = ["dep_logic.utils:pad_zeros", "dep_logic.utils:first_different_index", R + "_simplified_form", R + "__str__",
                   "dep_logic.specifiers.union:UnionSpecifier._simplified_form", "dep_logic.specifiers.union:UnionSpecifier.__str__",
                   "dep_logic.specifiers:_release_series", "dep_logic.specifiers:_from_pkg_specifier"]
        if pid == "C04":
            targets = targets[-2:]
        extra = [("C04.fold", "spec_fold", {}), ("C04.parse", "spec_parse", {})] if pid == "C04" else []
        plan = JobsPlan(pid, [(t, "render_function", {"name": t}) for t in targets] + extra, rtc=["spec_text"], level="other",
                        technique="contracts over structured versions (T-VER): pad_zeros, first_different_index (loop invariant), RangeSpecifier._simplified_form/__str__ and UnionSpecifier._simplified_form "
                                  "(what each rendered clause form must denote), _release_series and _from_pkg_specifier (the interval each PEP 440 clause denotes); z3 with deterministic instantiation; "
                                  "text round trip / membership against packaging as bounded part",
                        trusted_base=["A-ENGINE", "A-VER: suffix-free versions with equal epoch and equal zero-padded release are the same version; Version ==/< read one total order",
                                      "A-PKG-PARSE: Version(str(v)) == v, Version('E!a.b.c') has that epoch/release and no suffix, str(Specifier) re-parses to an equal one, SpecifierSet splits on commas",
                                      "C01/C05 for the algebra between leaves and rendering", "A-TERM"],
                        assumptions=[
                                     "UnionSpecifier.__str__ is checked modularly (one range text per range, in order, joined by '||'); that a '||'-joined text denotes the union of its alternatives is the "
                                     "parse_version_specifier obligation of C04/C17",
                                     "C04: final-release candidates and packaging's contains() are the bounded part (A-PKG-CONTAINS)"],
                        explanation="proof part: rendering forms and leaf translation are structurally what PEP 440 says (obligations C06.range.*, C06.union.*, C06.release-series.*, C04.leaf.*); "
                                    "bounded part: str()/parse round trip and membership against packaging over the version-text grammar, boundary-shape catalogue and expression trees")
        marks = ("C04.leaf", "from_specifierset#", "parse_version_specifier#") if pid == "C04" else ("C06.", "pad_zeros#", "first_different_index#")
        plan.own = lambda name, marks=marks: any(m in name for m in marks) or "#raises." in name or "#cover" in name or "#subset" in name
        return plan
    if pid == "C03":
        ev_t = "dep_logic.markers.single:MarkerExpression._evaluate"
        plan = JobsPlan("C03", [("C03.build_markers", "build_markers", {}), (ev_t, "atom_function", {"name": ev_t})], rtc=["marker_vs_packaging"], level="other",
                        technique="contract on dep_logic.markers._build_markers against a transcription of packaging's _evaluate_markers fold: the marker built from a parsed list evaluates as the `or` of its "
                                  "`and`-groups with nested lists taken recursively (loop invariant over the group list, T-MARK, z3), and a parsed (lhs, op, rhs) triple becomes an atom with the same variable and "
                                  "literal, operand order recorded and the operator mirrored exactly when the operands are swapped (all 10 operators x both orders); evaluation of every marker text over the atom "
                                  "pool against the installed packaging on an environment grid as bounded part",
                        trusted_base=["A-ENGINE", "A-PKG-EVAL: packaging evaluates a marker list as any(all(group)) over the groups separated by 'or', nested lists / triples recursively (transcribed from "
                                      "packaging.markers._evaluate_markers; cross-checked by the bounded part)", "the C02 operator law for `&` and the contract of MarkerUnion.of (proved by the C02 check)",
                                      "recursion: the contract is assumed for sub-trees (partial correctness)", "A-TERM"],
                        assumptions=["atom level: MarkerExpression._evaluate returns what packaging's _eval_op returns on the written triple - string variables with ==/!=/in/not in and any literal "
                                     "(obligation C03.atom.evaluate-equals-packaging-eval-op), the four version variables with eight operators (C03.atom.version.*), both operand orders; "
                                     "Specifier(text).contains(item) and 'text is a valid specifier' are uninterpreted (A-PKG-EVAL)",
                                     "atom level, the rest (version-looking values compared as versions by packaging itself, PEP 685 normalisation of extra, set-valued extras / "
                                     "dependency_groups): string code on both sides, bounded part only; pre-/post-release environment values: finding D22",
                                     "parse_marker's tokenisation is packaging's own parser (shared by both sides)"],
                        explanation="proof part: the rewriting done while parsing cannot regroup and/or or swap an operator (obligations C03.tree.*, C03.atom.*); bounded part: dep-logic vs packaging.Marker on "
                                    "every text of the pool x environment grid, incl. literal-on-the-left atoms, name normalisation spellings, set-valued extras / dependency_groups")
        plan.own = lambda name: "_build_markers#" in name or "C03." in name or (name.startswith("dep_logic.markers.single:MarkerExpression._evaluate#") and "bridge.B2" not in name)
        return plan
    if pid == "C18":
        plan = JobsPlan("C18", [("C18.wheel", "wheel_tags", {}), ("C18.platform", "platform_parse", {})], rtc=["wheel_names"], level="other",
                        replay=lambda name, rec: ({"suite": "wheel_names", "arg": {"filename": rec["model"]["filename"]}} if (rec.get("model") or {}).get("filename") else None),
                        technique="contract on parse_wheel_tags over file names modelled as the '-'-join of dash-free fields (T-WHEEL): returns the '.'-splits of the lower-cased last three fields "
                                  "(extension removed) exactly when the name ends in '.whl' and has 5 or 6 fields, raises only InvalidWheelFilename otherwise; contract on Platform.parse / __str__ for every name of the real Platform.choices() "
                                  "with X_Y any two integers (T-TAG terms): documented target, parse(str(p)) == p; z3; comparison with packaging.utils.parse_wheel_filename over the PEP 427 grammar "
                                  "and a platform-name sweep as bounded part",
                        trusted_base=["A-ENGINE", "A-STDLIB: endswith / [:-4] / count('-') / lower() / split('-') on a '-'-join of dash-free fields (pyvc/theories/wheel.py); lower() and split('.') "
                                      "of a field uninterpreted", "A-PKG: packaging's parse_wheel_filename reads the same three fields (checked by the bounded part)",
                                      "A-REGEX: the group structure of _platform_major_minor_re on a template instance does not depend on the digits in the holes (two samples run through the real re must agree)",
                                      "A-STRFMT: a platform string with integer holes is determined by its template and integers", "the table of documented alias targets in contracts/platform_parse.py", "A-TERM"],
                        assumptions=["platform strings outside Platform.choices() (the BSD / generic families, Platform.current()) are not part of the claim"],
                        explanation="proof part: which fields of the file name become the python / abi / platform tag lists, and the accept / reject decision, for all names; bounded part: agreement with "
                                    "packaging on the PEP 427 grammar, wheel_compatibility() not raising, platform names")
        plan.own = lambda name: "parse_wheel_tags#" in name or "Platform.parse#" in name
        return plan
    if pid == "C17":
        plan = JobsPlan("C17", [("C17.parse", "spec_parse", {}), ("C17.fold", "spec_fold", {})], rtc=["spec_text"], level="other",
                        technique="contract on parse_version_specifier over abstract texts ('<empty>' / contains '||' / other; packaging's SpecifierSet either raises its InvalidSpecifier or yields "
                                  "clauses): returns exactly when packaging accepts every alternative, raises only dep_logic's InvalidSpecifier otherwise (error translation), and from_specifierset "
                                  "(fold with `&` under an invariant) raises nothing; z3. Acceptance of the concrete PEP 440 grammar (that the leaf translation never raises on a valid clause) against "
                                  "packaging as bounded part",
                        trusted_base=["A-ENGINE", "A-STDLIB: `==`, `in`, `split('||')` on str (pieces contain no '||')", "A-PKG: SpecifierSet(text) raises packaging's InvalidSpecifier or iterates over its clauses",
                                      "contract of _from_pkg_specifier (canonical result, no exception) - its no-exception half is established per operator over structured versions by the C04 leaf "
                                      "obligations (raises.*), for texts of the modelled shapes", "C01/C05 law of `&`, `|`", "A-TERM"],
                        assumptions=["which concrete strings packaging accepts, and that the textual arithmetic of the leaf translation (version texts with epochs, pre/post/dev segments, wildcards) "
                                     "never raises on them: bounded part (version-text grammar and near-miss strings against packaging.SpecifierSet)"],
                        explanation="proof part: the control structure of the parser - '<empty>', '||' alternatives (reduce with `|`), error translation, the `&` fold - for all texts; bounded part: "
                                    "acceptance and exception class on the generated grammar and near-miss strings")
        plan.own = lambda name: ("from_specifierset#" in name or "parse_version_specifier#" in name) and "C04." not in name
        return plan
    if pid == "C11":
        t = "dep_logic.markers.single:MarkerExpression.from_specifier"
        plan = JobsPlan("C11", [(t, "render_function", {"name": t}), ("C11.pyversion", "pyversion", {})], rtc=["bridge"], level="other",
                        technique="contract on MarkerExpression.from_specifier over structured versions (T-VER): for python_version / python_full_version and every single range with release-only "
                                  "bounds, every parsed ==P.* range and every parsed !=P.* / !=V union, the atom returned is None or carries an (operator, value) clause that denotes exactly the given specifier "
                                  "(zero padding keeps the version, never touches ~= or wildcard operands) and installs that very specifier; contract on _normalize_python_version_specifier over dotted "
                                  "integer texts: for every operator and every value X / X.Y / X.Y.0 the result admits exactly the full versions A.B.C whose python_version A.B satisfies the atom (PEP 440 "
                                  "on release-only versions written out: zero padding, lexicographic order, prefix match); _get_specifier hands the atom's own clause to the parser; the real _evaluate on version atoms (both operand orders, "
                                  "values X / X.Y / X.Y.Z, environments A.B / A.B.C) returns exactly 'the environment's value lies in the specifier view'; z3; "
                                  "the same on real objects over the interpreter grid and the in/not in expansion as bounded part",
                        trusted_base=["A-ENGINE", "A-VER", "A-PKG-PARSE (incl.: SpecifierSet(text) holds exactly the comma separated clauses of the text; appending '.0' to a release-only version text "
                                      "gives the same version with one more segment)", "C06 (rendering of a range) is re-derived inline, C04.leaf gives the meaning of the clause when it is parsed back", "A-TERM"],
                        assumptions=["bounds with pre/post/dev segments are outside the proof part (dot counting on such texts is not modelled): bounded only",
                                     "A-PKG-CONTAINS: packaging's Specifier(clause).contains(version) is the PEP 440 meaning of the clause on release-only versions as written out in contracts/pyversion.py "
                                     "(guarded by the bridge suite on the interpreter grid); pre-release interpreter versions and the in / not in expansion of _get_specifier are bounded only (finding D14)"],
                        explanation="proof part: the specifier -> atom direction (the zero-padding logic the property names) for all versions / release lengths; bounded part: both directions on real objects "
                                    "against evaluate() over the interpreter grid")
        plan.own = lambda name: "C11." in name or "#raises." in name or "#cover" in name or "#subset" in name
        return plan
    if pid == "C10":
        fs_t = "dep_logic.markers.single:MarkerExpression.from_specifier"
        plan = JobsPlan("C10", [("C10.frame", "memo_frame", {}), (fs_t, "render_function", {"name": fs_t})], rtc=["memo"], level="other",
                        technique="frame (read-set) analysis of every memoised function from the AST: uncompared fields reachable through the key parameters, and uncompared fields of returned key objects "
                                  "that str()/evaluate read; lift to histories by the memoisation meta-lemma; cold-vs-warm differential as bounded part",
                        trusted_base=["meta-lemma: memoising a deterministic f under key equality is unobservable iff key-equal arguments give observationally equal results",
                                      "parameter/field annotations of the memoised functions are truthful (used only to resolve method names to class families)",
                                      "whitelisted lazy cache MarkerExpression._specifier: filled from the compared fields by `specifier`; the one place that installs it from outside, from_specifier, is under "
                                      "the obligation C10.from_specifier.installed-view-is-the-one-the-text-gives (no view is installed, or it is a one-bound range whose bound is the value's own text; a parsed specifier carrying its text)",
                                      "law.C13 (equal keys are interchangeable) and C02 (meaning of results) supply the 'meaning' half"],
                        explanation="proof part: for each lru_cache'd function (found by scanning the real source, so a newly memoised function is analysed too) the read-set obligations are decided statically; "
                                    "bounded part: probe operations observed cold and after generated histories, incl. key-equal-but-differently-built operands, merged results spelled differently "
                                    "and operands re-rendered by the library against the same atoms parsed from text")
        plan.own = lambda name: "C10." in name
        return plan
    if pid == "C14":
        jobs = [(f"C14.spec.{k}", "spec_c14", {"chunk": (k, 5)}) for k in range(5)] + [("C14.lemmas", "spec_lemmas", {}), ("C14.markers", "marker_c14", {})]
        return JobsPlan("C14", jobs, rtc=["spec_algebra", "marker_algebra"], level="other",
                        technique="laws as corollaries of the operator contracts: specifiers - both sides canonical and pointwise the same versions (from the C01/C05 law contracts), object equality by the "
                                  "canonical-uniqueness lemma (head/tail/base steps machine-checked), complements via witness points; markers - propositional corollaries of the C02 operator law; z3",
                        trusted_base=["A-ENGINE", "the C01/C05 law contracts (proved by those checks)", "list induction principle combining the canonical-uniqueness step lemmas",
                                      "the C02 operator law (combinator layer proved, atom layer bounded)", "A-ORD with density", "A-TERM"],
                        explanation="proof part: 13 laws + 2 complement laws on specifiers of arbitrary class and the uniqueness/non-emptiness lemmas; 10 laws on markers as corollaries of C02; "
                                    "bounded part: law sweep on real objects (equal objects for specifiers, equivalence on the environment grid for markers)")
    if pid == "C08":
        return JobsPlan("C08", [(f"tags_python.{k}", "tags_python", {"chunk": (k, 16)}) for k in range(16)], rtc=["tags_python"],
                        replay=lambda name, rec: ({"suite": "tags_python", "arg": rec["model"]} if (rec.get("model") or {}).get("python_tag") else None),
                        technique="contract on EnvSpec._evaluate_python: symbolic execution of the real body on every concrete (python tag, abi tag) of the finite universe "
                                  "with requires_python an arbitrary set of versions (uninterpreted predicate) and 5 implementation settings; post-condition 'compatible iff some admitted "
                                  "version loads the wheel' and the score triple; z3",
                        trusted_base=["A-ENGINE", "law.C05.empty-exact: (a & b).is_empty() iff no version lies in both (from the C01/C05 proofs, dense idealisation)",
                                      "A-PARSE-SHAPE: parse_version_specifier on the four tag-derived text shapes ('>=X.Y', '==X.Y.*', '==X.*', '>=X.Y,==X.*') returns the "
                                      "corresponding interval and raises InvalidSpecifier on non-numeric tags (guarded by the bounded part, which runs the real parser)",
                                      "A-STDLIB: str slicing/split/replace/lower/startswith/endswith and int() evaluated by CPython on the concrete tag strings", "A-TERM"],
                        assumptions=["tags are lower-case (PEP 425 universe); free-threaded x abi3 is outside the statement"])
    if pid == "C16":
        jobs = [("C16.nested", "tags_compare", {"which": "nested"})]
        jobs += [(f"C16.compare.{k}", "tags_compare", {"which": "compare", "chunk": (k, 6)}) for k in range(6)]
        jobs += [(f"C16.widen.{k}", "tags_compare", {"which": "widen", "chunk": (k, 9)}) for k in range(9)]
        # the nestedness lemma is over the C09 *rules*: the C09 obligations (rules = real tag lists) are re-established here as foreign
        # obligations, so that a tree on which they fail leaves C16 undecided instead of proved from a broken premise
        jobs += [(f"tags_platform.{k}", "tags_platform", {"chunk": (k, 16)}) for k in range(16)]
        plan = JobsPlan("C16", jobs, rtc=["tags_compare"],
                        technique="(i) two-copy symbolic execution of the real _evaluate_python under requires_python(A) subset requires_python(B); (ii) nestedness lemma over the proved C09 rules; "
                                  "(iii) symbolic execution of the real EnvSpec.compare in both directions over the platform-shape table; z3",
                        trusted_base=["A-ENGINE", "the C08 trusted base (law.C05.empty-exact, A-PARSE-SHAPE)", "the C09 contract of compatible_tags (proved by the C09 check) links the rules to the real tag lists",
                                      "law.C13: == on requires_python objects is symmetric and implies equal sets (proved by the C13 check)", "A-DATACLASS", "A-TERM"],
                        assumptions=["nestedness is claimed on the stated grid: same major for manylinux/musllinux, macOS 10.x minors <= 16, claimed (non-fat) macOS formats"])
        plan.own = lambda name: not ("Platform.compatible_tags#" in name or "_evaluate_platform#" in name)
        return plan
    if pid == "C09":
        return JobsPlan("C09", [(f"tags_platform.{k}", "tags_platform", {"chunk": (k, 16)}) for k in range(16)], rtc=["tags_platform"],
                        replay=lambda name, rec: ({"suite": "platform_replay", "arg": {"platform": rec["model"]["platform"]}} if (rec.get("model") or {}).get("platform") else None),
                        technique="contract on Platform.compatible_tags per (OS class, architecture): declarative membership rule + rank order from PEP 600/656/macOS; "
                                  "loop invariants (sound/ordered/complete) for unbounded integer versions; abstract tag terms (T-TAG); z3 with deterministic instantiation",
                        trusted_base=["A-ENGINE", "A-STRFMT: f-string renderings are injective on (template, integer arguments) - checked exhaustively on the C09 grid by the bounded part",
                                      "the PEP floor/alias/format tables in contracts/tags_platform.py are an independent transcription of PEP 513/571/599/600/656 and packaging's macOS rules", "A-TERM"])
    if pid == "C13":
        jobs = [("eqhash.reflexive", "eqhash_law", {"which": "reflexive"})]
        jobs += [(f"eqhash.pairs.{k}", "eqhash_law", {"which": "pairs", "chunk": (k, 4)}) for k in range(4)]
        jobs += [(f"eqhash.triples.{k}", "eqhash_law", {"which": "triples", "chunk": (k, 10)}) for k in range(10)]
        jobs.append(("eqhash.compound", "eqhash_law", {"which": "compound"}))
        return JobsPlan("C13", jobs, rtc=["eqhash"],
                        technique="finite case split over the classes with symbolic fields: ==/hash resolved by the modelled Python protocol on the real __eq__/__hash__ "
                                  "(dataclass-generated ones synthesised from the field flags in the AST); hash uninterpreted on values; z3",
                        trusted_base=["A-ENGINE", "A-DATACLASS: generated __init__/__eq__/__hash__ follow the field flags in the source",
                                      "A-STDLIB: the hash of a tuple is a function of the hashes of its items", "A-ORD", "A-TERM"],
                        assumptions=["compound markers (MultiMarker/MarkerUnion) and atom groups (EqualityMarkerUnion/InequalityMultiMarker with their OrderedSet): the induction step is proved - given children "
                                     "on which == is an equivalence compatible with hash, the dataclass-generated ==/hash of the compound are again (law.C13.step.*); the induction principle over marker depth "
                                     "itself is not machine-checked; interchangeability of compounds as operands is bounded",
                                     "interchangeability of MarkerExpression operands is decided by the read-set (frame) obligation: every field read by _evaluate/__str__/_get_specifier is compared by __eq__"])
    if pid in RTC_SUITES:
        return RtcPlan(pid, RTC_SUITES[pid])
    raise KeyError(pid)


# proof-chain premises re-established inside a check (cheap ones only; C02 as a premise of C03 / C14 is too heavy and is covered by those checks' bounded parts)
# (C07: the text means what the marker means [own proof part]; that the re-parsed text *evaluates* so is the parser's contract, C03, over the operator laws, C02.
#  C14 on markers: corollaries of the C02 operator law.
#  C02 / C03: the version-atom layer uses the C11 contracts (normalisation, from_specifier, the bridge); C03's fold uses the C02 operator law.)
PREMISES = {"C04": ["C01", "C06"], "C17": ["C06"], "C14": ["C01", "C02"], "C08": ["C05"], "C07": ["C02", "C03"], "C02": ["C11"], "C03": ["C02"]}


# ---------------------------------------------------------------------------------------------------------------
def run_property(pid, tier, seed, nproc):
    t0 = time.time()
    plan = get_plan(pid)
    from concurrent.futures import ThreadPoolExecutor
    with ThreadPoolExecutor(max_workers=1) as pool:       # the bounded part runs beside the proof jobs
        fut = pool.submit(common.run_rtc_many, [(s, tier, seed, arg) for s, arg in plan.rtc], nproc)
        named, functions, crashes, notes = plan.stages(tier, nproc)
        premise_runs = [(ppid, get_plan(ppid)) for ppid in PREMISES.get(pid, [])]
        premise_runs = [(ppid, pplan, pplan.stages(tier, nproc)) for ppid, pplan in premise_runs]      # beside the bounded part
        rtc_results = fut.result()
    findings = common.load_findings()
    violations, known, undecided = [], [], []

    # candidates (counter-models of the instantiated problem, not confirmed by the quantified solver): a failed obligation only if
    # the obligation is recorded as discharged on the reference tree, otherwise undecided
    baseline = common.load_baseline(pid)
    # obligations that an open finding of this property names as refuted on the reference tree (by suffix): a candidate for them is that finding
    listed = [sfx for e in findings if e.get("status") == "finding" and e.get("property") == pid for sfx in e.get("match", {}).get("obligation_suffixes", [])]
    for k, d in named.items():
        if d["status"] == "candidate":
            d["status"] = "sat" if (k in baseline or any(k.endswith(x) for x in listed)) else "unknown"
            d["detail"] = {"note": "refuted after instantiation (not confirmed by the quantified solver)" + ("; discharged on the reference tree" if k in baseline else ""),
                           **(d["detail"] if isinstance(d.get("detail"), dict) else {})}
    if os.environ.get("VERIF_TIMING"):
        with open(os.path.join(os.environ["VERIF_TIMING"], f"{pid}.timing.json"), "w") as f:
            json.dump({k: [d["status"], d.get("vcs"), round(d.get("secs") or 0, 2), d.get("backends")] for k, d in named.items()}, f, indent=0)
    own = {k: d for k, d in named.items() if plan.own(k)}
    foreign_bad = [k for k, d in named.items() if not plan.own(k) and d["status"] != "unsat" and k not in getattr(plan, "helper_obligations", ())]
    # premises: properties whose contracts this property's proof part uses as lemmas are re-established on this tree (their own obligations, not their
    # bounded parts); a premise that fails leaves this property undecided - it is never turned into a violation of this property
    premise_notes = []
    for ppid, pplan, (pn, _pf, pc, _) in premise_runs:
        pbase = common.load_baseline(ppid)
        plisted = [sfx for e in findings if e.get("status") == "finding" and e.get("property") == ppid for sfx in e.get("match", {}).get("obligation_suffixes", [])]
        bad = [k for k, d in pn.items() if pplan.own(k) and d["status"] != "unsat" and not any(k.endswith(x) for x in plisted)]
        crashes += pc
        premise_notes.append({"premise": ppid, "obligations": sum(1 for k in pn if pplan.own(k)), "not_discharged": bad[:10]})
        foreign_bad += [f"{ppid}: {k}" for k in bad[:5]]
    for k, d in sorted(own.items()):
        if d["status"] == "unknown":
            undecided.append({"obligation": k, "detail": d.get("detail")})
        elif d["status"] == "sat":
            req = plan.replay_request(k, d)
            rep, concrete = None, None
            if req:
                rep = common.run_rtc(req["suite"], "quick", seed, req["arg"])
                fl = [f for f in rep.get("failures", []) if plan.own_rtc(f["check"])] or rep.get("failures", [])
                if fl:
                    concrete = fl[0]
            violations.append({"kind": "obligation", "obligation": k, "model": d.get("model"), "detail": d.get("detail"),
                               "backends": d.get("backends"), "replay_request": req if concrete else None, "concrete": concrete})
    # bounded stand-in
    bounded_parts = []
    for r in rtc_results:
        if r.get("status") != "ok":
            tb = str(r.get("traceback", ""))
            frames = [l for l in tb.splitlines() if l.strip().startswith("File ")]
            if r.get("status") == "crash" and frames and "/src/dep_logic/" in frames[-1]:
                # the library raised on an input of the bounded suite outside a guarded call: a behaviour change, but not attributable
                # to a clause of this property by this check -> undecided, with the exception as the reason
                undecided.append({"obligation": f"bounded:{r.get('suite')}", "detail": "dep_logic raised inside the bounded suite: " + tb.strip().splitlines()[-1][:300]})
                continue
            crashes.append({"job": "rtc:" + str(r.get("suite")), "traceback": r.get("traceback", r.get("status"))})
            continue
        fl = [f for f in r.get("failures", []) if plan.own_rtc(f["check"])]
        bounded_parts.append({"suite": r["suite"], "bound": r.get("bound"), "evaluations": r["evaluations"],
                              "distinct_nontrivial": r["distinct_nontrivial"], "rule": r.get("rule"), "samples": r.get("samples", [])[:3],
                              "failures": len(fl), "not_evaluated": r.get("not_evaluated", 0), "wall_s": r.get("wall_s")})
        seen = set()
        for f in fl:
            sig = {"check": f["check"], "input": f.get("input"), "obligation": None, "observed": f.get("observed"), "expected": f.get("expected")}
            hit = next((e for e in findings if common.finding_matches(e, pid, sig)), None)
            key = (f["check"], hit["id"] if hit else None)   # one witness per (check, finding class); unmatched ones are never masked
            if key in seen:
                continue
            seen.add(key)
            violations.append({"kind": "bounded", "check": f["check"], "concrete": f, "suite": r["suite"],
                               "replay_request": {"suite": r["suite"], "arg": None}})

    # known findings
    reported = []
    for v in violations:
        sig = {"check": v.get("check") or (v["concrete"] or {}).get("check", ""), "input": (v["concrete"] or {}).get("input"),
               "obligation": v.get("obligation"), "observed": (v["concrete"] or {}).get("observed"), "expected": (v["concrete"] or {}).get("expected")}
        hit = next((e for e in findings if common.finding_matches(e, pid, sig)), None)
        if hit:
            known.append((hit, v))
        else:
            reported.append(v)
    # a refuted obligation without a concrete failing input borrows one from the bounded suite's *unlisted* failures (after the findings were
    # matched: a borrowed input must never decide whether the obligation is a known finding)
    for v in reported:
        if v["kind"] == "obligation" and not v["concrete"]:
            w = next((w for w in reported if w["kind"] == "bounded"), None)
            if w is not None:
                v["concrete"], v["replay_request"] = w["concrete"], w["replay_request"]

    n_obl = len(own)
    n_ok = sum(1 for d in own.values() if d["status"] == "unsat")
    vcs = sum(d["vcs"] for d in own.values())
    solver_s = sum(d["secs"] for d in own.values())
    backends = {}
    for d in own.values():
        for b in d["backends"]:
            backends[b] = backends.get(b, 0) + 1
    samples = [{"obligation": k, "status": d["status"], "path_vcs": d["vcs"], "backends": d["backends"]} for k, d in list(sorted(own.items()))[:6]]
    for bp in bounded_parts:
        samples.extend(bp["samples"][:2])
    coverage = {
        "obligations": n_obl, "discharged": n_ok, "path_vcs": vcs, "checker_cmd": common.CHECKER_CMD.format(pid=pid, tier=tier),
        "trusted_base": plan.trusted_base, "solver_time_s": round(solver_s, 2), "backends": backends,
        "functions_under_contract": functions, "source_sha256": common.source_hashes(),
        "bounded_parts": bounded_parts, "samples": samples, "notes": notes,
        "undecided": undecided, "foreign_obligations_not_discharged": foreign_bad, "premises_re_established": premise_notes,
        "known_findings_seen": [h["id"] for h, _ in known],
        "evaluations": sum(b["evaluations"] for b in bounded_parts) + vcs,
        "distinct_nontrivial": sum(b["distinct_nontrivial"] for b in bounded_parts) + n_obl,
        "rule": "named proof obligations (each = all path-VCs of one contract clause) plus the bounded parts listed separately",
        "explanation": getattr(plan, "explanation", plan.technique),
    }
    if os.environ.get("VERIF_WRITE_BASELINE"):
        common.write_baseline(pid, sorted(k for k, d in named.items() if d["status"] == "unsat"))
    wall = time.time() - t0
    common.write_evidence(pid, tier, seed, plan.level, coverage, common.ENGINE_ASSUMPTIONS + plan.assumptions, wall, len(reported))

    printed = set()
    for h, v in known:
        if h["id"] in printed:
            continue
        printed.add(h["id"])
        print(f"KNOWN-FINDING: property={pid} {h['id']} {h['what']}")
    if crashes:
        for c in crashes:
            print(f"CHECKER-CRASH job={c['job']}\n{c['traceback']}")
        return 3
    if n_obl == 0 and plan.level == "proof":
        print(f"CHECKER-FAILURE property={pid} zero obligations generated")
        return 3
    if reported:
        for v in reported:
            payload = {"obligation": v.get("obligation"), "check": v.get("check") or (v["concrete"] or {}).get("check"),
                       "solver_model": v.get("model"), "solver_backends": v.get("backends"), "detail": v.get("detail"),
                       "concrete_input": (v["concrete"] or {}).get("input"), "observed": (v["concrete"] or {}).get("observed"),
                       "expected": (v["concrete"] or {}).get("expected"), "replay_request": v.get("replay_request")}
            path = common.write_replay(pid, payload)
            tail = "" if v["concrete"] else " no-failing-input-found"
            what = v.get("obligation") or v.get("check")
            print(f"VIOLATION property={pid} replay={path} obligation={what}{tail}")
        return 1
    if undecided or foreign_bad:
        for u in undecided:
            print(f"UNDECIDED property={pid} obligation={u['obligation']} {u.get('detail')}")
        for k in foreign_bad:
            print(f"UNDECIDED property={pid} an assumption of the proof chain is not established on this tree: {k}")
        return 2
    print(f"OK property={pid} obligations={n_obl} discharged={n_ok} path_vcs={vcs} bounded_evaluations={sum(b['evaluations'] for b in bounded_parts)} wall={wall:.1f}s")
    return 0
