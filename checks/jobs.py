"""Proof jobs: each job regenerates VCs from /repo's current source and discharges them; results are plain dicts
(so they can cross process boundaries)."""
from __future__ import annotations

import time
import traceback


def _ser(rep, wall):
    named = {}
    for k, d in rep.named.items():
        named[k] = {"status": d["status"], "vcs": d["vcs"], "secs": round(d["secs"], 3), "backends": sorted(d["backends"]),
                    "model": d["model"], "detail": d["detail"]}
    return {"named": named, "functions": rep.functions, "wall": round(wall, 2)}


def run_job(job):
    name, fn, kw = job
    t0 = time.time()
    try:
        rep = globals()[fn](**kw)
        out = _ser(rep, time.time() - t0)
        out["job"] = name
        return out
    except Exception:  # noqa: BLE001
        return {"job": name, "crash": traceback.format_exc(), "named": {}, "functions": {}, "wall": round(time.time() - t0, 2)}


# ---------------------------------------------------------------- specifier jobs
def _spec_env():
    from pyvc import extract
    from pyvc.theories import spec as T
    from contracts import laws_spec as L
    from contracts import specifiers_range as CR
    from contracts import specifiers_union as CU
    ix = extract.Index()
    th = T.SpecTheory(ix)
    th.laws = L.LAWS
    contracts = {c.target: c for c in CR.ALL + CU.ALL}
    return ix, th, contracts, CR, CU, L, T


def spec_function(target, use=(), timeout_ms=None):
    """verify one function of specifiers/range.py or union.py against its contract"""
    from pyvc import verify
    ix, th, contracts, CR, CU, L, T = _spec_env()
    c = contracts[target]
    names = ["self", "other"]
    return verify.verify_function(ix, th, c, use_contracts=use, contracts=contracts, loop_specs=CU.loop_specs(th),
                                  describe=T.describe_args(names), timeout_ms=timeout_ms)


def spec_fold(timeout_ms=None):
    """C04 composition: from_specifierset = fold of the leaf translation with `&` (law contract), for any number of clauses"""
    from pyvc import verify
    from contracts import spec_fold as F
    ix, th, contracts, CR, CU, L, T = _spec_env()
    f, cs, specs = F.setup(th)
    return verify.verify_function(ix, th, f, use_contracts=[F.LEAF], contracts=cs, loop_specs=specs, timeout_ms=timeout_ms)


def spec_parse(timeout_ms=None):
    """C17 error translation / C04 alternatives: parse_version_specifier over abstract texts"""
    from pyvc import verify
    from contracts import spec_fold as F
    ix, th, contracts, CR, CU, L, T = _spec_env()
    p, cs, specs = F.setup_parse(th)
    return verify.verify_function(ix, th, p, use_contracts=[F.Q, F.PQ], contracts=cs, loop_specs=specs, timeout_ms=timeout_ms)


def spec_law(op, use=(), timeout_ms=None):
    from pyvc import verify
    ix, th, contracts, CR, CU, L, T = _spec_env()
    cases = list(L.invert_cases(th) if op == "invert" else L.binop_cases(th, op))
    for c in cases:
        c["describe"] = T.describe_args(["a", "b"])
    return verify.verify_cases(ix, th, f"law:specifiers.{op}", cases, use_contracts=use, contracts=contracts,
                               loop_specs=CU.loop_specs(th), timeout_ms=timeout_ms)


# ---------------------------------------------------------------- C19
def generic_law(which, timeout_ms=None):
    from pyvc import extract, verify
    from pyvc.theories import spec as T
    from contracts import specifiers_generic as G
    ix = extract.Index()
    th = T.SpecTheory(ix)
    cases = {"and": lambda: G.binop_cases(ix, "and"), "or": lambda: G.binop_cases(ix, "or"), "invert": lambda: G.invert_cases(ix),
             "special": lambda: G.special_cases(ix), "constructor": lambda: G.post_init_cases(ix)}[which]()
    return verify.verify_cases(ix, th, f"law:generic.{which}", list(cases), timeout_ms=timeout_ms)


# ---------------------------------------------------------------- C13
def eqhash_law(which, chunk=None, timeout_ms=None):
    from pyvc import extract, verify
    from pyvc.theories import spec as T
    from contracts import eqhash as E
    ix = extract.Index()
    th = T.SpecTheory(ix)
    if which == "compound":
        th, ih, law = E.compound_theory(ix)
        return verify.verify_cases(ix, th, "law:eqhash.compound", list(E.compound_cases(th, ih, law)), timeout_ms=timeout_ms)
    if which == "pairs":
        cases = list(E.pair_cases(th))
    elif which == "reflexive":
        cases = list(E.reflexive_cases(th))
    elif which == "triples":
        cases = list(E.triple_cases(th, E.CLASSES))
    if chunk is not None:
        k, n = chunk
        cases = cases[k::n]
    rep = verify.verify_cases(ix, th, f"law:eqhash.{which}", cases, timeout_ms=timeout_ms)
    if which == "reflexive":
        for meth, extra in E.readset_cases(ix):
            rep.add(f"law:eqhash.readset#law.C13.readset.MarkerExpression.{meth}", "unsat" if not extra else "sat", 0.0, "ast-frame",
                    model={"reads_uncompared_fields": extra} if extra else None)
    return rep


# ---------------------------------------------------------------- C09
def tags_platform(chunk=None, timeout_ms=None):
    from pyvc import extract, verify
    from pyvc.theories.tags import TagTheory
    from contracts import tags_platform as C
    ix = extract.Index()
    th = TagTheory(ix)
    cases = list(C.cases(th)) + list(C.score_cases(th))
    if chunk is not None:
        k, n = chunk
        cases = cases[k::n]
    rep = verify.Report()
    for c in cases:
        q = "dep_logic.tags.tags:EnvSpec._evaluate_platform" if c["name"].startswith("score") else "dep_logic.tags.platform:Platform.compatible_tags"
        verify.verify_cases(ix, th, q, [c], loop_specs=c.get("loop_specs"), report=rep, timeout_ms=timeout_ms)
    return rep


# ---------------------------------------------------------------- C08
def tags_python(chunk=None, timeout_ms=None):
    from pyvc import extract, verify
    from pyvc.theories.envspec import EnvTheory
    from contracts import tags_python as C
    ix = extract.Index()
    th = EnvTheory(ix)
    pairs = C.universe()
    cases = list(C.cases(th, pairs))
    if chunk is not None:
        k, n = chunk
        cases = cases[k::n]
    c = C.ParseByShape(ix)
    return verify.verify_cases(ix, th, C.Q, cases, use_contracts=[c.target], contracts={c.target: c}, timeout_ms=timeout_ms)


# ---------------------------------------------------------------- C16
def tags_compare(which, chunk=None, timeout_ms=None):
    import z3
    from pyvc import extract, verify
    from pyvc.theories.envspec import EnvTheory
    from contracts import tags_compare as C
    from contracts import tags_python as PY
    ix = extract.Index()
    th = EnvTheory(ix)
    if which == "widen":
        cases = list(C.widen_cases(th, PY.universe()))
        if chunk is not None:
            cases = cases[chunk[0]::chunk[1]]
        c = PY.ParseByShape(ix)
        return verify.verify_cases(ix, th, "law:C16.widen-python", cases, use_contracts=[c.target], contracts={c.target: c}, timeout_ms=timeout_ms)
    if which == "compare":
        cases = list(C.compare_cases(th))
        if chunk is not None:
            cases = cases[chunk[0]::chunk[1]]
        return verify.verify_cases(ix, th, C.QC, cases, timeout_ms=timeout_ms)
    rep = verify.Report()
    rep.functions["law:C16.nested-rules"] = {"hash": None, "mode": "lemma over the C09 rules", "paths": 0, "cases": 0}
    for name, hyps, goal in C.nested_rule_cases():
        st, secs, be, m = verify.solve(hyps, goal, timeout_ms)
        rep.add(f"law:C16.nested-rules#lemma.{name}", st, secs, be, model={"z3_model": str(m)[:500]} if st == "sat" else None)
        rep.functions["law:C16.nested-rules"]["cases"] += 1
    return rep


# ---------------------------------------------------------------- markers (combinator layer)
def _marker_env(with_names=True):
    from pyvc import extract
    from pyvc.engine import Exec
    from pyvc.theories.marker import MarkerTheory
    from contracts import markers as C
    ix = extract.Index()
    th = MarkerTheory(ix)
    ax = th.axioms(lambda: Exec(ix, th), with_names=with_names)
    return ix, th, ax, C


def marker_function(name, timeout_ms=None, vc_slice=None):
    from pyvc import verify
    ix, th, ax, C = _marker_env(with_names=(":SingleMarker." in name or name.endswith(".only")))
    contracts = C.all_contracts(th)
    c = contracts[name]
    C.install(th, contracts)
    use = [t for t in contracts if t != name or getattr(c, "recursive", False)]

    class Wrapped(type(c)):
        def cases(self, th2):
            for nm, args, pre in c.cases(th2):
                yield nm, args, list(pre) + ax
    w = Wrapped.__new__(Wrapped)
    w.__dict__.update(c.__dict__)
    return verify.verify_function(ix, th, w, use_contracts=use, contracts=contracts, loop_specs=C.loop_specs(th), timeout_ms=timeout_ms, vc_slice=vc_slice)


def build_markers(timeout_ms=None):
    """C03 structural part: _build_markers against the transcription of packaging's _evaluate_markers fold"""
    from pyvc import extract, verify
    from contracts import build_markers as BM
    ix = extract.Index()
    th, ax, contracts, c, specs = BM.setup(ix)

    class Wrapped(type(c)):
        def cases(self, th2):
            for nm, args, pre in c.cases(th2):
                yield nm, args, list(pre) + (ax if nm == "list" else [])
    w = Wrapped.__new__(Wrapped)
    w.__dict__.update(c.__dict__)
    return verify.verify_function(ix, th, w, use_contracts=list(contracts), contracts=contracts, loop_specs=specs, timeout_ms=timeout_ms)


def atom_roundtrip(timeout_ms=None):
    """C07, atoms: str() then packaging's reading of the text then _build_markers gives the atom back"""
    from pyvc import extract, verify
    from contracts import build_markers as BM
    ix = extract.Index()
    th, ax, contracts, c, specs = BM.setup(ix)
    q = "dep_logic.markers.single:MarkerExpression.__str__"
    rep = verify.verify_cases(ix, th, q, list(BM.roundtrip_cases(th)), timeout_ms=timeout_ms)
    rep.functions[q]["hash"] = ix.func(q).source_hash()
    rep.functions[q]["mode"] = "verified against its contract"
    return rep


def spec_c14(chunk=None, timeout_ms=None):
    from pyvc import verify
    ix, th, contracts, CR, CU, L, T = _spec_env()
    cases = list(L.c14_cases(th))
    if chunk is not None:
        cases = cases[chunk[0]::chunk[1]]
    return verify.verify_cases(ix, th, "law:specifiers.C14", cases, timeout_ms=timeout_ms)


def spec_lemmas(timeout_ms=None):
    from pyvc import verify
    from contracts import lemmas_spec as L
    rep = verify.Report()
    rep.functions["lemma:specifiers"] = {"hash": None, "mode": "closed mathematical lemma (no code)", "paths": 0, "cases": 0}
    for name, hyps, goal in L.lemmas():
        st, secs, be, m = verify.solve(hyps, goal, max(timeout_ms or 0, 120000))      # closed lemmas: two of them need ~15 s
        rep.add(f"lemma:specifiers#{name}", st, secs, be, model={"z3_model": str(m)[:800]} if st in ("sat", "candidate") else None)
        rep.functions["lemma:specifiers"]["cases"] += 1
    return rep


def marker_c14(timeout_ms=None):
    """marker half of C14: the laws up to equivalence are propositional corollaries of the C02 operator law (ev pointwise)"""
    import ast
    import z3
    from pyvc import verify
    from pyvc.theories.marker import ev
    ix, th, ax, C = _marker_env(with_names=False)
    C.install(th, C.all_contracts(th))
    a, b, c = (th.shape.fresh(n) for n in "abc")
    AND, OR = ast.BitAnd(), ast.BitOr()
    B = lambda ex, op, x, y: ex.binop(op, x, y)
    laws = {"commutative-and": lambda ex: (B(ex, AND, a, b), B(ex, AND, b, a)), "commutative-or": lambda ex: (B(ex, OR, a, b), B(ex, OR, b, a)),
            "associative-and": lambda ex: (B(ex, AND, B(ex, AND, a, b), c), B(ex, AND, a, B(ex, AND, b, c))),
            "associative-or": lambda ex: (B(ex, OR, B(ex, OR, a, b), c), B(ex, OR, a, B(ex, OR, b, c))),
            "idempotent-and": lambda ex: (B(ex, AND, a, a), a), "idempotent-or": lambda ex: (B(ex, OR, a, a), a),
            "absorption-1": lambda ex: (B(ex, AND, a, B(ex, OR, a, b)), a), "absorption-2": lambda ex: (B(ex, OR, a, B(ex, AND, a, b)), a),
            "distributive-1": lambda ex: (B(ex, AND, a, B(ex, OR, b, c)), B(ex, OR, B(ex, AND, a, b), B(ex, AND, a, c))),
            "distributive-2": lambda ex: (B(ex, OR, a, B(ex, AND, b, c)), B(ex, AND, B(ex, OR, a, b), B(ex, OR, a, c)))}
    cases = [{"name": n, "pre": [], "thunk": f, "post": (lambda ex, v, n=n: [(f"law.C14.markers.{n}.equivalent", ev(v[0].term) == ev(v[1].term))])} for n, f in laws.items()]
    return verify.verify_cases(ix, th, "law:markers.C14", cases, timeout_ms=timeout_ms)


# ---------------------------------------------------------------- atom layer
def atom_function(name, timeout_ms=None, vc_slice=None):
    from pyvc import extract, verify
    from pyvc.theories.atoms import AtomTheory
    from contracts import atoms as C
    ix = extract.Index()
    th = AtomTheory(ix)
    contracts = C.all_contracts(th)
    c = contracts[name]
    use = [t for t in contracts if t != name and t.endswith("OrderedSet.__init__")]
    real = {t: k for t, k in contracts.items() if hasattr(k, "ensures")}
    if hasattr(c, "ensures"):
        return verify.verify_function(ix, th, c, use_contracts=use, contracts=real, loop_specs=C.loop_specs(th), timeout_ms=timeout_ms, vc_slice=vc_slice)
    rep = verify.verify_cases(ix, th, name, list(c.cases(th)), use_contracts=use, contracts=real, loop_specs=C.loop_specs(th), timeout_ms=timeout_ms)
    rep.functions[name]["hash"] = ix.func(name).source_hash()
    rep.functions[name]["mode"] = "verified against its contract"
    return rep


def wheel_tags(timeout_ms=None):
    """C18: parse_wheel_tags over file names as '-'-joins of dash-free fields"""
    from pyvc import extract, verify
    from pyvc.theories.wheel import WheelTheory
    from contracts import wheel_tags as W
    ix = extract.Index()
    th = WheelTheory(ix)
    rep = verify.verify_cases(ix, th, W.Q, list(W.cases(th)), timeout_ms=timeout_ms)
    rep.functions[W.Q]["hash"] = ix.func(W.Q).source_hash()
    rep.functions[W.Q]["mode"] = "verified against its contract"
    return rep


def atom_versions(timeout_ms=None):
    """C02, version-valued atoms: the merge logic of _merge_single_markers / _merge_python_version_single_markers over abstract specifier views"""
    from pyvc import extract, verify
    from pyvc.theories.atoms import AtomTheory
    from contracts import atoms as C
    ix = extract.Index()
    th = AtomTheory(ix)
    th.norm_contract = C.NormalizeAtCallSite(th)
    cs = {C.FromSpecifierAtCallSite.target: C.FromSpecifierAtCallSite(th), C.NormalizeAtCallSite.target: th.norm_contract}
    mv = C.MergeVersion(th)
    rep = verify.verify_cases(ix, th, mv.key, list(mv.cases(th)), use_contracts=list(cs), contracts=cs, timeout_ms=timeout_ms)
    rep.functions[mv.key]["hash"] = ix.func(mv.target).source_hash()
    rep.functions[mv.key]["mode"] = "verified against its contract"
    return rep


def platform_parse(timeout_ms=None):
    """C18: Platform.parse on every name of Platform.choices() (X_Y = any two integers), and parse(str(p)) == p"""
    from pyvc import extract, verify
    from contracts import platform_parse as PP
    ix = extract.Index()
    th = PP.PlatformTheory(ix)
    rep = verify.verify_cases(ix, th, PP.Q, list(PP.cases(th)), timeout_ms=timeout_ms)
    rep.functions[PP.Q]["hash"] = ix.func(PP.Q).source_hash()
    rep.functions[PP.Q]["mode"] = "verified against its contract"
    return rep


def pyversion(timeout_ms=None):
    """C11 / C02: _normalize_python_version_specifier and the specifier view of version atoms over dotted integer texts"""
    from pyvc import extract, verify
    from contracts import pyversion as PV
    ix = extract.Index()
    th, cs = PV.setup(ix)
    rep = verify.verify_cases(ix, th, PV.NORM, list(PV.cases(th)) + list(PV.bridge_cases(th)) + list(PV.list_view_cases(th)), use_contracts=list(cs), contracts=cs, timeout_ms=timeout_ms)
    rep.functions[PV.NORM]["hash"] = ix.func(PV.NORM).source_hash()
    rep.functions[PV.NORM]["mode"] = "verified against its contract"
    return rep


# ---------------------------------------------------------------- C10
MEMO_WHITELIST = {
    # lazy cache of MarkerExpression: only read through `specifier`, which fills it from _get_specifier() (a function of the compared
    # fields); from_specifier installs it with the specifier the atom was rendered from (C11 obligation)
    "dep_logic.markers.single:_merge_single_markers": {"MarkerExpression._specifier@specifier"},
}


def memo_frame(timeout_ms=None):
    from pyvc import extract, verify
    from pyvc.frame import ReadSets
    ix = extract.Index()
    rs = ReadSets(ix)
    rep = verify.Report()
    for f in rs.memoised():
        q = f.qualname
        rep.functions[q] = {"hash": f.source_hash(), "mode": "frame (read-set) analysis of a memoised function", "paths": 0, "cases": 1}
        reads, ptypes = rs.param_reads(f)
        extra = sorted(reads - MEMO_WHITELIST.get(q, set()))
        rep.functions[q]["parameter_types"] = ptypes
        rep.functions[q]["uncompared_state_read_through_key"] = sorted(reads)
        rep.add(f"{q}#C10.frame.key-respect", "unsat" if not extra else "sat", 0.0, "ast-frame",
                model={"reads_uncompared_state_through_its_key": extra, "parameter_types": ptypes} if extra else None)
        # a returned parameter carries its uncompared fields into the cached result: those the observers read must be compared
        esc = rs.escaping_params(f)
        obs = set()
        for pn in esc:
            obs |= rs.observable_uncompared(ptypes.get(pn, []))
        rep.functions[q]["returned_parameters"] = sorted(esc)
        rep.add(f"{q}#C10.frame.returned-key-objects-observably-equal", "unsat" if not obs else "sat", 0.0, "ast-frame",
                model={"returned_parameters": sorted(esc), "uncompared_fields_read_by_str_or_evaluate": sorted(obs)} if obs else None)
        # determinism: no reads of module-level mutable state other than other memoised functions / constants
        glob = sorted({n.id for n in __import__("ast").walk(f.node) if isinstance(n, __import__("ast").Global)})
        rep.add(f"{q}#C10.frame.no-global-writes", "unsat" if not glob else "sat", 0.0, "ast-frame", model={"global": glob} if glob else None)
    rep.functions["frame:uncompared-fields"] = {"hash": None, "mode": "dataclass fields excluded from ==/hash", "paths": 0, "cases": len(rs.unc), "fields": rs.unc}
    # the whitelist rests on the lazy cache being a function of the compared fields: the only code that may set `_specifier` is the accessor
    # `specifier` (from _get_specifier()) and from_specifier (whose installs are under the C10.from_specifier.* obligations, all paths)
    import ast as _ast
    sites = []
    for m in ix.modules.values():
        fs = list(m.functions.values()) + [f for c in m.classes.values() for f in c.methods.values()]
        for f in fs:
            for n in _ast.walk(f.node):
                if isinstance(n, _ast.Call) and any(k.arg == "_specifier" and not (isinstance(k.value, _ast.Constant) and k.value.value is None) for k in n.keywords):
                    sites.append((f.qualname, "keyword", n.lineno))
                elif isinstance(n, (_ast.Assign, _ast.AugAssign, _ast.AnnAssign)):
                    for tg in (n.targets if isinstance(n, _ast.Assign) else [n.target]):
                        if isinstance(tg, _ast.Attribute) and tg.attr == "_specifier":
                            sites.append((f.qualname, "assignment", n.lineno))
                elif isinstance(n, _ast.Call) and isinstance(n.func, _ast.Name) and n.func.id in ("setattr",) and any(isinstance(a, _ast.Constant) and a.value == "_specifier" for a in n.args):
                    sites.append((f.qualname, "setattr", n.lineno))
    allowed = {("dep_logic.markers.single:MarkerExpression.specifier", "assignment"), ("dep_logic.markers.single:MarkerExpression.from_specifier", "keyword")}
    stray = [s for s in sites if (s[0], s[1]) not in allowed]
    rep.functions["frame:view-install-sites"] = {"hash": None, "mode": "every place that sets MarkerExpression._specifier", "paths": 0, "cases": len(sites), "sites": [list(s) for s in sites]}
    # hand-written memos / accumulators: a function that mutates a module-level (or class-level) container keeps state across calls that the
    # read-set analysis above does not see; such a function is outside what the frame analysis decides (undecided, never a violation by itself -
    # the cold-vs-warm differential resets these containers and reports a concrete history if the state is observable)
    MUTATORS = {"append", "add", "update", "setdefault", "extend", "pop", "clear", "insert", "remove", "discard", "popitem"}
    state_writes = []
    for m in ix.modules.values():
        containers = set()
        for st in m.tree.body:
            tgt = st.targets[0] if isinstance(st, _ast.Assign) and len(st.targets) == 1 else (st.target if isinstance(st, _ast.AnnAssign) else None)
            val = getattr(st, "value", None)
            if isinstance(tgt, _ast.Name) and val is not None and (isinstance(val, (_ast.Dict, _ast.List, _ast.Set, _ast.DictComp, _ast.ListComp, _ast.SetComp)) or
                                                                  (isinstance(val, _ast.Call) and isinstance(val.func, _ast.Name) and val.func.id in ("dict", "list", "set", "defaultdict", "OrderedDict"))):
                containers.add(tgt.id)
        fs = list(m.functions.values()) + [f for c in m.classes.values() for f in c.methods.values()]
        for f in fs:
            local = {a.arg for a in _ast.walk(f.node) if isinstance(a, _ast.arg)} | {n.id for n in _ast.walk(f.node) if isinstance(n, _ast.Name) and isinstance(n.ctx, _ast.Store)}
            for n in _ast.walk(f.node):
                name = None
                if isinstance(n, (_ast.Assign, _ast.AugAssign, _ast.Delete)):
                    for tg in (n.targets if isinstance(n, (_ast.Assign, _ast.Delete)) else [n.target]):
                        if isinstance(tg, _ast.Subscript) and isinstance(tg.value, _ast.Name):
                            name = tg.value.id
                elif isinstance(n, _ast.Call) and isinstance(n.func, _ast.Attribute) and n.func.attr in MUTATORS and isinstance(n.func.value, _ast.Name):
                    name = n.func.value.id
                if name and name in containers and name not in local:
                    state_writes.append((f.qualname, name, n.lineno))
    rep.functions["frame:module-state-writes"] = {"hash": None, "mode": "functions that mutate a module-level container", "paths": 0, "cases": len(state_writes), "sites": [list(s) for s in state_writes]}
    rep.add("frame#C10.frame.no-hand-written-module-state", "unsat" if not state_writes else "unknown", 0.0, "ast-frame",
            model={"sites": [list(s) for s in state_writes], "note": "outside the frame analysis: state kept in a module-level container"} if state_writes else None)
    rep.add("frame#C10.frame.view-installed-only-by-accessor-or-from_specifier", "unsat" if not stray else "sat", 0.0, "ast-frame", model={"sites": [list(s) for s in stray]} if stray else None)
    return rep


# ---------------------------------------------------------------- C06 / C11 rendering (T-VER)
def render_function(name, timeout_ms=None):
    from pyvc import extract, verify
    from pyvc.theories.version import VerTheory
    from contracts import spec_render as C
    ix = extract.Index()
    th = VerTheory(ix)
    contracts = C.all_contracts(th)
    c = contracts[name]
    real = {t: k for t, k in contracts.items() if hasattr(k, "ensures")}
    if name == C.UNI + "__str__":
        real[C.RNG + "__str__"] = C.RangeStrAtCallSite()       # the union's text is checked modularly over the texts of its ranges
    use = [t for t in real if t != name]
    if hasattr(c, "ensures"):
        return verify.verify_function(ix, th, c, use_contracts=use, contracts=real, loop_specs=C.loop_specs(th), timeout_ms=timeout_ms)
    rep = verify.verify_cases(ix, th, name, list(c.cases(th)), use_contracts=use, contracts=real, loop_specs=C.loop_specs(th), timeout_ms=timeout_ms)
    rep.functions[name]["hash"] = ix.func(name).source_hash()
    rep.functions[name]["mode"] = "verified against its contract"
    return rep
