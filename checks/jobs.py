"""Proof jobs: each job regenerates VCs from /repo's current source and discharges them; results are plain dicts
(so they can cross process boundaries)."""
from __future__ import annotations

import time
import traceback


def _ser(rep, wall):
    named = {}
    for k, d in rep.named.items():
        named[k] = {"status": d["status"], "vcs": d["vcs"], "secs": round(d["secs"], 3), "backends": sorted(d["backends"]),
                    "model": d["model"], "detail": d["detail"]}
    return {"named": named, "functions": rep.functions, "wall": round(wall, 2)}


def run_job(job):
    name, fn, kw = job
    t0 = time.time()
    try:
        rep = globals()[fn](**kw)
        out = _ser(rep, time.time() - t0)
        out["job"] = name
        return out
    except Exception:  # noqa: BLE001
        return {"job": name, "crash": traceback.format_exc(), "named": {}, "functions": {}, "wall": round(time.time() - t0, 2)}


# ---------------------------------------------------------------- specifier jobs
def _spec_env():
    from pyvc import extract
    from pyvc.theories import spec as T
    from contracts import laws_spec as L
    from contracts import specifiers_range as CR
    from contracts import specifiers_union as CU
    ix = extract.Index()
    th = T.SpecTheory(ix)
    th.laws = L.LAWS
    contracts = {c.target: c for c in CR.ALL + CU.ALL}
    return ix, th, contracts, CR, CU, L, T


def spec_function(target, use=(), timeout_ms=None):
    """verify one function of specifiers/range.py or union.py against its contract"""
    from pyvc import verify
    ix, th, contracts, CR, CU, L, T = _spec_env()
    c = contracts[target]
    names = ["self", "other"]
    return verify.verify_function(ix, th, c, use_contracts=use, contracts=contracts, loop_specs=CU.loop_specs(th),
                                  describe=T.describe_args(names), timeout_ms=timeout_ms)


def spec_law(op, use=(), timeout_ms=None):
    from pyvc import verify
    ix, th, contracts, CR, CU, L, T = _spec_env()
    cases = list(L.invert_cases(th) if op == "invert" else L.binop_cases(th, op))
    for c in cases:
        c["describe"] = T.describe_args(["a", "b"])
    return verify.verify_cases(ix, th, f"law:specifiers.{op}", cases, use_contracts=use, contracts=contracts,
                               loop_specs=CU.loop_specs(th), timeout_ms=timeout_ms)
