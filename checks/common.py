"""Shared plumbing of the checks: job pool, bounded stand-in driver, findings, evidence, replay files."""
from __future__ import annotations

import hashlib
import json
import multiprocessing as mp
import os
import subprocess
import sys
import time

HERE = os.path.dirname(os.path.dirname(os.path.abspath(__file__)))
REPO = os.environ.get("VERIF_REPO", "/repo")
VENV_PY = os.environ.get("VERIF_REPO_PYTHON", "/venv/bin/python")
CHECKER_CMD = "python3-vt check.py --property {pid} --tier {tier}"

DROPPED = ["type annotations", "docstrings", "import statements (names resolved against the index of the real modules)",
           "TYPE_CHECKING blocks", "typing.cast (identity)", "__repr__", "__slots__ effects of DATACLASS_ARGS"]

ENGINE_ASSUMPTIONS = [
    "A-ENGINE: pyvc (this repository's AST->SMT symbolic executor), CPython's ast module and z3 5.1.0 / cvc5 are correct",
    "A-MATH: Python ints are unbounded, modelled as mathematical integers (exact)",
    "A-TERM: termination is not proved; all proof results are partial correctness",
    "A-STDLIB: encoded semantics of list/tuple/str/dict operations, the operator dispatch protocol (reflected operands, "
    "NotImplemented), dataclass-generated __init__/__eq__ and functools/itertools helpers follow CPython",
    "extraction drops exactly: " + "; ".join(DROPPED),
]


def run_jobs(jobs, nproc):
    from checks import jobs as J
    if not jobs:
        return []
    if nproc <= 1 or len(jobs) == 1:
        return [J.run_job(j) for j in jobs]
    ctx = mp.get_context("fork")
    with ctx.Pool(min(nproc, len(jobs))) as pool:
        return pool.map(J.run_job, jobs, chunksize=1)


def run_rtc(suite, tier, seed, arg=None, timeout=3600):
    cmd = [VENV_PY, os.path.join(HERE, "rtc", "run.py"), "--suite", suite, "--tier", tier, "--seed", str(seed)]
    if arg is not None:
        cmd += ["--arg", json.dumps(arg)]
    env = dict(os.environ)
    env["PYTHONHASHSEED"] = "0"
    env["VERIF_REPO"] = REPO
    env.pop("PYTHONPATH", None)
    t0 = time.time()
    try:
        p = subprocess.run(cmd, capture_output=True, text=True, timeout=timeout, env=env, cwd=HERE)
    except subprocess.TimeoutExpired:
        return {"status": "timeout", "suite": suite, "wall_s": time.time() - t0}
    if "@@RTC-RESULT@@" not in p.stdout:
        return {"status": "crash", "suite": suite, "traceback": (p.stderr or p.stdout)[-3000:]}
    return json.loads(p.stdout.split("@@RTC-RESULT@@")[1])


def run_rtc_many(reqs, nproc):
    """reqs: list of (suite, tier, seed, arg); run concurrently"""
    if not reqs:
        return []
    from concurrent.futures import ThreadPoolExecutor
    with ThreadPoolExecutor(max_workers=max(1, min(nproc, len(reqs)))) as ex:
        return list(ex.map(lambda r: run_rtc(*r), reqs))


def load_findings():
    p = os.path.join(HERE, "known_findings.json")
    if not os.path.exists(p):
        return []
    return json.load(open(p)).get("entries", [])


def finding_matches(entry, pid, signature):
    """an entry suppresses a violation only if it is an open finding for this property and its match predicate holds"""
    if entry.get("status") != "finding" or entry.get("property") != pid:
        return False
    m = entry.get("match", {})
    if "check_prefix" in m and not signature.get("check", "").startswith(m["check_prefix"]):
        return False
    if "check" in m and signature.get("check") != m["check"]:
        return False
    if "cls" in m and signature.get("cls") != m["cls"]:
        return False
    blob = json.dumps(signature.get("input", ""), sort_keys=True, default=str)
    for needle in m.get("input_contains", []):
        if needle not in blob:
            return False
    if "obligation" in m and signature.get("obligation") != m["obligation"]:
        return False
    if "checks" in m and signature.get("check") not in m["checks"] and not any((signature.get("obligation") or "").endswith(x) for x in m.get("obligation_suffixes", [])):
        return False
    if "obligation_suffixes" in m and signature.get("obligation") and not any(signature["obligation"].endswith(x) for x in m["obligation_suffixes"]):
        return False
    if "predicate" in m:
        from checks.findings_pred import PREDICATES
        try:
            if not PREDICATES[m["predicate"]](signature):
                return False
        except Exception:  # noqa: BLE001
            return False
    return True


def load_baseline(pid):
    p = os.path.join(HERE, "baseline", f"{pid}.json")
    if not os.path.exists(p):
        return set()
    return set(json.load(open(p))["discharged"])


def write_baseline(pid, names):
    os.makedirs(os.path.join(HERE, "baseline"), exist_ok=True)
    with open(os.path.join(HERE, "baseline", f"{pid}.json"), "w") as f:
        json.dump({"comment": "obligations discharged on the reference tree (written only with VERIF_WRITE_BASELINE=1, committed by hand)", "discharged": names}, f, indent=0)


def write_replay(pid, payload):
    d = os.path.join(HERE, "replays", pid)
    os.makedirs(d, exist_ok=True)
    h = hashlib.sha256(json.dumps(payload, sort_keys=True, default=str).encode()).hexdigest()[:12]
    path = os.path.join(d, f"{h}.json")
    payload = dict(payload)
    payload["property"] = pid
    payload["rerun"] = f"python3-vt check.py --replay replays/{pid}/{h}.json"
    with open(path, "w") as f:
        json.dump(payload, f, indent=1, default=str)
    return os.path.relpath(path, HERE)


def write_evidence(pid, tier, seed, level, coverage, assumptions, wall, violations):
    evdir = os.environ.get("VERIF_EVIDENCE_DIR") or os.path.join(HERE, "evidence")     # seeded-change runs write elsewhere
    os.makedirs(evdir, exist_ok=True)
    ev = {"property_id": pid, "tier": tier if tier in ("quick", "thorough") else "quick", "seed": seed, "level": level,
          "coverage": coverage, "assumptions": assumptions, "wall_s": round(wall, 2), "violations": violations}
    with open(os.path.join(evdir, f"{pid}.json"), "w") as f:
        json.dump(ev, f, indent=1, default=str)
    return ev


def source_hashes():
    out = {}
    root = os.path.join(REPO, "src", "dep_logic")
    for dp, _, fs in os.walk(root):
        for fn in sorted(fs):
            if fn.endswith(".py"):
                p = os.path.join(dp, fn)
                out[os.path.relpath(p, REPO)] = hashlib.sha256(open(p, "rb").read()).hexdigest()[:16]
    return out


def setup():
    ok = True
    try:
        import z3
        print("z3", z3.get_version_string())
    except Exception as e:  # noqa: BLE001
        print("z3 missing", e)
        ok = False
    r = subprocess.run([VENV_PY, "-c", "import sys; sys.path.insert(0, '%s/src'); import dep_logic, packaging; print('repo python ok', packaging.__version__)" % REPO],
                       capture_output=True, text=True)
    print(r.stdout.strip() or r.stderr.strip())
    ok = ok and r.returncode == 0
    try:
        from pyvc import extract
        ix = extract.Index()
        print("indexed modules:", len(ix.modules))
    except Exception as e:  # noqa: BLE001
        print("cannot index /repo:", e)
        ok = False
    for d in ("evidence", "replays"):
        os.makedirs(os.path.join(HERE, d), exist_ok=True)
    return 0 if ok else 3


def replay(path):
    payload = json.load(open(path))
    req = payload.get("replay_request")
    print(json.dumps({k: payload.get(k) for k in ("property", "obligation", "check", "concrete_input", "expected", "observed")}, indent=1, default=str))
    if not req:
        print("no concrete input recorded (no-failing-input-found); solver output is in the file")
        return 0
    res = run_rtc(req["suite"], "quick", 0, req.get("arg"))
    print(json.dumps(res, indent=1, default=str)[:4000])
    return 1 if res.get("n_failures") else 0
