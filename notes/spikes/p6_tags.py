import time
from z3 import *
Arch = DeclareSort('Arch')
Tag = Datatype('Tag')
Tag.declare('ML', ('maj', IntSort()), ('mnr', IntSort()), ('arch', Arch))
for n in ('ML1','ML2010','ML2014','LINUX'): Tag.declare(n, ('a_'+n, Arch))
Tag = Tag.create()
AS = ArraySort(IntSort(), Tag)
T = Const('T', AS); n,k,M,fl,major = Ints('n k M fl major'); arch = Const('arch', Arch); i,j = Ints('i j'); t = Const('t', Tag)
pos = Const('pos', ArraySort(Tag, IntSort()))
def rank(x): return If(Tag.is_ML(x), 2*Tag.mnr(x)+1, If(Tag.is_ML2014(x), 2*17, If(Tag.is_ML2010(x), 2*12, If(Tag.is_ML1(x), 2*5, -1))))
def rule(x, lo):  # tags with minor in (lo, M], from the property text
    return Or(And(Tag.is_ML(x), Tag.maj(x)==major, Tag.arch(x)==arch, lo < Tag.mnr(x), Tag.mnr(x) <= M, fl <= Tag.mnr(x)),
              And(x==Tag.ML2014(arch), lo<17, 17<=M, fl<=17), And(x==Tag.ML2010(arch), lo<12, 12<=M, fl<=12), And(x==Tag.ML1(arch), lo<5, 5<=M, fl<=5))
def inv(T,n,pos,k):
    return And(n>=0, fl-1<=k, k<=M,
        ForAll([i], Implies(And(0<=i,i<n), rule(T[i],k))),                       # only allowed tags (soundness)
        ForAll([i,j], Implies(And(0<=i,i<j,j<n), rank(T[i])>rank(T[j]))),        # newest first, alias right after
        ForAll([t], Implies(rule(t,k), And(0<=pos[t],pos[t]<n,T[pos[t]]==t))))   # every allowed tag present (completeness)
def prove(name,hyps,goal,timeout=60000):
    s=Solver(); s.set(timeout=timeout); s.add(*hyps); s.add(Not(goal)); t0=time.time(); r=s.check()
    print(f"{name:40} {'PROVED' if r==unsat else r} {time.time()-t0:.2f}s"); return r
pre=[fl>=0, Or(fl==5, fl==17)]
prove("init (k=M, empty list)", pre+[M>=fl-1], inv(T,0,pos,M))
# body at loop value k (processing minor = k): k>=fl
hy = pre+[inv(T,n,pos,k), k>=fl]
T1 = Store(T,n,Tag.ML(major,k,arch)); pos1 = Store(pos,Tag.ML(major,k,arch),n); n1=n+1
def alias(c, tg): return (If(c, Store(T1,n1,tg), T1), If(c, Store(pos1,tg,n1), pos1), If(c, n1+1, n1))
# exactly one alias can fire per iteration; encode the three ifs sequentially
T2 = If(k==12, Store(T1,n1,Tag.ML2010(arch)), T1); p2 = If(k==12, Store(pos1,Tag.ML2010(arch),n1), pos1); n2 = If(k==12,n1+1,n1)
T3 = If(k==17, Store(T2,n2,Tag.ML2014(arch)), T2); p3 = If(k==17, Store(p2,Tag.ML2014(arch),n2), p2); n3 = If(k==17,n2+1,n2)
T4 = If(k==5, Store(T3,n3,Tag.ML1(arch)), T3); p4 = If(k==5, Store(p3,Tag.ML1(arch),n3), p3); n4 = If(k==5,n3+1,n3)
prove("body preserves invariant", hy, inv(T4,n4,p4,k-1))
# exit: k == fl-1 ; append LINUX; final spec
Tf = Store(T,n,Tag.LINUX(arch)); nf=n+1
final_rule = lambda x: Or(rule(x, fl-1), x==Tag.LINUX(arch))
hx = pre+[inv(T,n,pos,fl-1)]
prove("exit: only allowed", hx, ForAll([i], Implies(And(0<=i,i<nf), final_rule(Tf[i]))))
prove("exit: order", hx, ForAll([i,j], Implies(And(0<=i,i<j,j<nf), rank(Tf[i])>rank(Tf[j]))))
prove("exit: complete", hx, ForAll([t], Implies(final_rule(t), Exists([i], And(0<=i,i<nf,Tf[i]==t)))))
# mutant: loop stops one early (range(..., min_minor, -1)) => exit with k==fl; completeness must fail
hm = pre+[inv(T,n,pos,fl), M>=fl]
prove("MUTANT exit one early: complete", hm, ForAll([t], Implies(final_rule(t), Exists([i], And(0<=i,i<nf,Tf[i]==t)))), timeout=20000)
