import time
from z3 import *
IA = ArraySort(IntSort(), IntSort())
rmin, rmax = Consts('rmin rmax', IA); lmin,lmax,emin,emax = Ints('lmin lmax emin emax')
pre_max, post_max, dev_max = Bools('pre_max post_max dev_max')   # presence flags on max
i = Int('i'); fd = Int('fd')
def st(e, r, l, k):   # padded "stable" list [epoch, *release] + zeros
    return If(k==0, e, If(k-1<l, r[k-1], 0))
L = If(lmin>=lmax, lmin, lmax)+1
wfv = [lmin>=1, lmax>=1, emin>=0, emax>=0, ForAll([i], And(rmin[i]>=0, rmax[i]>=0))]
# contract of first_different_index on equal-length padded lists (proved separately from its loop)
fd_post = And(0<=fd, fd<=L, ForAll([i], Implies(And(0<=i,i<fd), st(emin,rmin,lmin,i)==st(emax,rmax,lmax,i))), Implies(fd<L, st(emin,rmin,lmin,fd)!=st(emax,rmax,lmax,fd)))
cond = And(Not(Or(fd>=L-1, fd==0)), st(emax,rmax,lmax,fd)-st(emin,rmin,lmin,fd)==1,
           ForAll([i], Implies(And(fd+1<=i,i<L), st(emax,rmax,lmax,i)==0)), Not(Or(pre_max,dev_max)), lmin==fd+1)
# bump(min): epoch emin, release = rmin[:lmin-1] with last +1, then 0   (what parse("~=min") computes), no suffix
def bump_st(k): return If(k==0, emin, If(k-1<lmin-2, rmin[k-1], If(k-1==lmin-2, rmin[lmin-2]+1, 0)))
same_as_bump = And(ForAll([i], Implies(i>=0, st(emax,rmax,lmax,i)==bump_st(i))), Not(pre_max), Not(post_max), Not(dev_max))
def prove(name,hyps,goal,timeout=60000):
    s=Solver(); s.set(timeout=timeout); s.add(*hyps); s.add(Not(goal)); t0=time.time(); r=s.check()
    print(f"{name:55} {'PROVED' if r==unsat else r} {time.time()-t0:.2f}s")
    if r==sat:
        m=s.model(); print("   model:", {str(d):m[d] for d in m.decls() if str(d) in ('lmin','lmax','emin','emax','fd','post_max','pre_max','dev_max')})
prove("~= emitted => max == bump(min)  [current code]", wfv+[fd_post, cond], same_as_bump)
prove("~= emitted => max == bump(min)  [+ max.post is None]", wfv+[fd_post, cond, Not(post_max)], same_as_bump)
