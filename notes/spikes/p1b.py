exec(open(__import__('os').path.join(__import__('os').path.dirname(__import__('os').path.abspath(__file__)),'p1_union_or.py')).read().split("# 1. init")[0])
# pointwise: v is a fixed ghost constant
v0 = Real('v0')
def D(k,m,N,o): return den_inv(k,m,N,o,v0)
base=[wfR(), valid(o0)]
hy = base+[inv(k,m,N,src,o), D(k,m,N,o), k<n]
rk=R[k]
o2 = Const('o2',Range)
merge_post = And(valid(o2), inr(o2,v0)==Or(inr(o,v0),inr(rk,v0)),
    hmin(o2)==And(hmin(o),hmin(rk)), hmax(o2)==And(hmax(o),hmax(rk)),
    Implies(hmin(o2), Or(And(mn(o2)==mn(o),imin(o2)==imin(o)), And(mn(o2)==mn(rk),imin(o2)==imin(rk)))),
    Implies(hmax(o2), Or(And(mx(o2)==mx(o),imax(o2)==imax(o)), And(mx(o2)==mx(rk),imax(o2)==imax(rk)))))
prove("merge: den", hy+[can_combine(rk,o), merge_post], D(k+1,m,N,o2))
N2 = Store(N,m,rk); src2=Store(src,m,k)
c_skip=[Not(can_combine(rk,o)), Not(allows_lower(o,rk))]
prove("skip: den", hy+c_skip, D(k+1,m+1,N2,o))
c_brk=[Not(can_combine(rk,o)), allows_lower(o,rk)]
Res=Const('Res',A); L=Int('L')
res_def=[L==m+1+(n-k), ForAll([i], Implies(And(0<=i,i<m), Res[i]==N[i])), Res[m]==o, ForAll([i], Implies(And(m<i,i<L), Res[i]==R[k+(i-m-1)]))]
goal = Exists([i],And(0<=i,i<L,inr(Res[i],v0))) == Or(Exists([j],And(0<=j,j<n,inr(R[j],v0))), inr(o0,v0))
prove("break: den(result)", hy+c_brk+res_def, goal)
res2=[L==m+1, ForAll([i], Implies(And(0<=i,i<m), Res[i]==N[i])), Res[m]==o]
hy_exit = base+[inv(n,m,N,src,o), D(n,m,N,o)]
prove("exit: den(result)", hy_exit+res2, goal)
prove("MUTANT skip w/o cond (must NOT prove)", hy+[Not(can_combine(rk,o))], inv(k+1,m+1,N2,src2,o), timeout=20000)
