# Feasibility: hand-written VCs for UnionSpecifier.__or__(self, other: RangeSpecifier) merge loop, z3, Reals+arrays+quantifiers
import time
from z3 import *
Range = Datatype('Range'); Range.declare('mk', ('hmin',BoolSort()),('mn',RealSort()),('imin',BoolSort()),('hmax',BoolSort()),('mx',RealSort()),('imax',BoolSort())); Range=Range.create()
hmin,mn,imin,hmax,mx,imax = Range.hmin,Range.mn,Range.imin,Range.hmax,Range.mx,Range.imax
def inr(r,v): return And(Or(Not(hmin(r)), mn(r)<v, And(mn(r)==v, imin(r))), Or(Not(hmax(r)), v<mx(r), And(v==mx(r), imax(r))))
def valid(r): return And(Implies(Not(hmin(r)),Not(imin(r))), Implies(Not(hmax(r)),Not(imax(r))), Implies(And(hmin(r),hmax(r)), Or(mn(r)<mx(r), And(mn(r)==mx(r),imin(r),imax(r)))))
def sep(a,b): return And(hmax(a),hmin(b), Or(mx(a)<mn(b), And(mx(a)==mn(b),Not(imax(a)),Not(imin(b)))))
# callee contracts (as would be proven for RangeSpecifier methods)
def allows_lower(a,b): return If(Not(hmin(b)), False, If(Not(hmin(a)), True, Or(mn(a)<mn(b), And(mn(a)==mn(b), imin(a), Not(imin(b))))))
def strictly_lower(a,b): return And(hmax(a),hmin(b), Or(mx(a)<mn(b), And(mx(a)==mn(b), Or(Not(imax(a)),Not(imin(b))))))
def adjacent(a,b): return And(hmax(a),hmin(b), mx(a)==mn(b), Xor(imax(a),imin(b)))
def can_combine(a,b): return If(allows_lower(a,b), Or(Not(strictly_lower(a,b)), adjacent(a,b)), Or(Not(strictly_lower(b,a)), adjacent(b,a)))
A = ArraySort(IntSort(), Range)
R = Const('R', A); n = Int('n'); o0 = Const('o0', Range)
i,j = Ints('i j'); v = Real('v')
def wfR(): return And(n>=2, ForAll([i], Implies(And(0<=i,i<n), valid(R[i]))), ForAll([i,j], Implies(And(0<=i,i<j,j<n), sep(R[i],R[j]))))
def inv(k,m,N,src,o):
    return And(0<=k,k<=n,0<=m,m<=k, valid(o),
      ForAll([i], Implies(And(0<=i,i<m), And(N[i]==R[src[i]], 0<=src[i], src[i]<k))),
      ForAll([i,j], Implies(And(0<=i,i<j,j<m), src[i]<src[j])),
      ForAll([i], Implies(And(0<=i,i<m), sep(N[i],o))),
      )
def den_inv(k,m,N,o,v):  # pointwise, with explicit existentials
    return (Or(Exists([i],And(0<=i,i<m,inr(N[i],v))), inr(o,v)) == Or(Exists([j],And(0<=j,j<k,inr(R[j],v))), inr(o0,v)))
k,m = Ints('k m'); N=Const('N',A); src=Const('src',ArraySort(IntSort(),IntSort())); o=Const('o',Range)
def prove(name, hyps, goal, timeout=60000):
    s=Solver(); s.set(timeout=timeout); s.add(*hyps); s.add(Not(goal))
    t=time.time(); r=s.check(); print(f"{name:40} {'PROVED' if r==unsat else r} {time.time()-t:.2f}s")
    return r
base=[wfR(), valid(o0)]
# 1. init
prove("init inv", base, inv(0,0,N,src,o0))
prove("init den", base, ForAll([v], den_inv(0,0,N,o0,v)))
# 2. preservation: merge branch
hy = base+[inv(k,m,N,src,o), ForAll([v],den_inv(k,m,N,o,v)), k<n]
rk = R[k]
o2 = Const('o2',Range)
merge_post = And(valid(o2), ForAll([v], inr(o2,v)==Or(inr(o,v),inr(rk,v))),
    # bounds of union (strong contract of Range.__or__)
    hmin(o2)==And(hmin(o),hmin(rk)), hmax(o2)==And(hmax(o),hmax(rk)),
    Implies(hmin(o2), Or(And(mn(o2)==mn(o),imin(o2)==imin(o)), And(mn(o2)==mn(rk),imin(o2)==imin(rk)))),
    Implies(hmax(o2), Or(And(mx(o2)==mx(o),imax(o2)==imax(o)), And(mx(o2)==mx(rk),imax(o2)==imax(rk)))))
prove("merge: inv", hy+[can_combine(rk,o), merge_post], inv(k+1,m,N,src,o2))
prove("merge: den", hy+[can_combine(rk,o), merge_post], ForAll([v],den_inv(k+1,m,N,o2,v)))
# 3. skip branch (append range)
N2 = Store(N,m,rk); src2=Store(src,m,k)
c_skip=[Not(can_combine(rk,o)), Not(allows_lower(o,rk))]
prove("skip: inv", hy+c_skip, inv(k+1,m+1,N2,src2,o))
prove("skip: den", hy+c_skip, ForAll([v],den_inv(k+1,m+1,N2,o,v)))
# 4. break branch: result = N ++ [o, R[k]] ++ R[k+1:]
c_brk=[Not(can_combine(rk,o)), allows_lower(o,rk)]
Res=Const('Res',A); L=Int('L')
res_def=[L==m+1+(n-k), ForAll([i], Implies(And(0<=i,i<m), Res[i]==N[i])), Res[m]==o, ForAll([i], Implies(And(m<i,i<L), Res[i]==R[k+(i-m-1)]))]
wfRes = And(ForAll([i], Implies(And(0<=i,i<L), valid(Res[i]))), ForAll([i,j], Implies(And(0<=i,i<j,j<L), sep(Res[i],Res[j]))))
prove("break: wf(result)", hy+c_brk+res_def, wfRes)
prove("break: den(result)", hy+c_brk+res_def, ForAll([v], Exists([i],And(0<=i,i<L,inr(Res[i],v))) == Or(Exists([j],And(0<=j,j<n,inr(R[j],v))), inr(o0,v))))
# 5. normal exit: result = N ++ [o]
res2=[L==m+1, ForAll([i], Implies(And(0<=i,i<m), Res[i]==N[i])), Res[m]==o]
hy_exit = base+[inv(n,m,N,src,o), ForAll([v],den_inv(n,m,N,o,v))]
prove("exit: wf(result)", hy_exit+res2, wfRes)
prove("exit: den(result)", hy_exit+res2, ForAll([v], Exists([i],And(0<=i,i<L,inr(Res[i],v))) == Or(Exists([j],And(0<=j,j<n,inr(R[j],v))), inr(o0,v))))
# sanity: a wrong variant must fail (mutant: skip branch appends even if o allows lower)
prove("MUTANT skip w/o cond (must NOT prove)", hy+[Not(can_combine(rk,o))], inv(k+1,m+1,N2,src2,o), timeout=20000)
