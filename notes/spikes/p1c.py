exec(open(__import__('os').path.join(__import__('os').path.dirname(__import__('os').path.abspath(__file__)),'p1b.py')).read().split('prove("merge: den"')[0])
c_brk=[Not(can_combine(rk,o)), allows_lower(o,rk)]
Res=Const('Res',A); L=Int('L')
res_def=[L==m+1+(n-k), ForAll([i], Implies(And(0<=i,i<m), Res[i]==N[i])), Res[m]==o, ForAll([i], Implies(And(m<i,i<L), Res[i]==R[k+(i-m-1)]))]
lhs = Exists([i],And(0<=i,i<L,inr(Res[i],v0)))
mid = Or(Exists([i],And(0<=i,i<m,inr(N[i],v0))), inr(o,v0), Exists([j],And(k<=j,j<n,inr(R[j],v0))))
rhs = Or(Exists([j],And(0<=j,j<n,inr(R[j],v0))), inr(o0,v0))
hy0 = base+[inv(k,m,N,src,o), D(k,m,N,o), k<n]+c_brk+res_def
prove("A1: lhs => mid", hy0, Implies(lhs, mid))
prove("A2: mid => lhs", hy0, Implies(mid, lhs))
# A2 with explicit witness hint
jj=Int('jj')
prove("A2': suffix witness", hy0+[k<=jj,jj<n,inr(R[jj],v0)], And(0<=m+1+(jj-k), m+1+(jj-k)<L, inr(Res[m+1+(jj-k)],v0)))
prove("B: mid == rhs", hy0, mid==rhs)
prove("goal from A,B", hy0+[lhs==mid, mid==rhs], lhs==rhs)
