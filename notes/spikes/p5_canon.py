import time, itertools
from z3 import *
Opt = Datatype('OptV'); Opt.declare('none'); Opt.declare('some', ('val', RealSort())); Opt = Opt.create()
Rg = Datatype('Rg'); Rg.declare('mk', ('mn', Opt), ('mx', Opt), ('imin', BoolSort()), ('imax', BoolSort())); Rg = Rg.create()
def hmin(r): return Opt.is_some(Rg.mn(r))
def hmax(r): return Opt.is_some(Rg.mx(r))
def mn(r): return Opt.val(Rg.mn(r))
def mx(r): return Opt.val(Rg.mx(r))
imin, imax = Rg.imin, Rg.imax
def inr(r,v): return And(Or(Not(hmin(r)), mn(r)<v, And(mn(r)==v, imin(r))), Or(Not(hmax(r)), v<mx(r), And(v==mx(r), imax(r))))
def valid(r): return And(Implies(Not(hmin(r)),Not(imin(r))), Implies(Not(hmax(r)),Not(imax(r))), Implies(And(hmin(r),hmax(r)), Or(mn(r)<mx(r), And(mn(r)==mx(r),imin(r),imax(r)))))
def sep(a,b): return And(hmax(a),hmin(b), Or(mx(a)<mn(b), And(mx(a)==mn(b),Not(imax(a)),Not(imin(b)))))
AS = ArraySort(IntSort(), Rg)
A,B = Consts('A B', AS); p,q = Ints('p q'); i,j = Ints('i j'); v = Real('v')
def wf(X,n): return And(ForAll([i], Implies(And(0<=i,i<n), valid(X[i]))), ForAll([i,j], Implies(And(0<=i,i<j,j<n), sep(X[i],X[j]))))
def den(X,lo,n,v): return Exists([i], And(lo<=i,i<n,inr(X[i],v)))
def prove(name,hyps,goal,timeout=60000):
    s=Solver(); s.set(timeout=timeout); s.add(*hyps); s.add(Not(goal)); t=time.time(); r=s.check()
    print(f"{name:50} {'PROVED' if r==unsat else r} {time.time()-t:.2f}s"); return r
hyp_all = ForAll([v], den(A,0,p,v)==den(B,0,q,v))
base=[wf(A,p), wf(B,q), p>=1, q>=1]
prove("head equal, no hints", base+[hyp_all], A[0]==B[0])
# with hints: instantiate at critical points
a,b = A[0],B[0]
terms = []
bounds = [mn(a),mx(a),mn(b),mx(b),mn(A[1]),mn(B[1])]
for x in bounds: terms += [x, x-1, x+1]
for x,y in itertools.combinations(bounds,2): terms.append((x+y)/2)
insts = [den(A,0,p,t)==den(B,0,q,t) for t in terms]
prove(f"head equal, {len(terms)} hint instantiations", base+insts, A[0]==B[0])
prove("base: p=0 => q=0 (hints)", [wf(A,p), wf(B,q), p==0, q>=1]+[den(A,0,p,t)==den(B,0,q,t) for t in [mn(b),mx(b),(mn(b)+mx(b))/2,mn(b)+1,mx(b)-1,RealVal(0)]], BoolVal(False))
# tails: given heads equal, den of tails equal pointwise (v0 fixed)
v0 = Real('v0')
prove("tails equal-den pointwise", base+[A[0]==B[0], den(A,0,p,v0)==den(B,0,q,v0)], den(A,1,p,v0)==den(B,1,q,v0))
