"""Spike: symbolic execution of the REAL RangeSpecifier source (read from /repo on every run) into z3.
Version = Real (abstract dense total order). Helpers inlined. Proves __and__/__or__/__invert__ den+wf."""
import ast, sys, time, itertools
from z3 import *
SRC = "/repo/src/dep_logic/specifiers/range.py"
tree = ast.parse(open(SRC).read())
cls = next(n for n in tree.body if isinstance(n, ast.ClassDef) and n.name == "RangeSpecifier")
METHODS = {n.name: n for n in cls.body if isinstance(n, ast.FunctionDef)}

class OptV:  # Version | None
    def __init__(s, has, val): s.has, s.val = has, val
class Rng:
    def __init__(s, mn, mx, imin, imax): s.min, s.max, s.include_min, s.include_max = mn, mx, imin, imax
class Empty: pass
class Union:
    def __init__(s, ranges): s.ranges = ranges
class NotImpl: pass
class Raise(Exception): pass
def B(x): return x if is_expr(x) else BoolVal(bool(x))

class Path(Exception): pass
class Exec:
    """forks on symbolic branch conditions by re-running with a decision prefix (simple DFS)"""
    def __init__(s): s.results = []
    def run(s, fn, args):
        todo = [[]]
        while todo:
            s.dec = todo.pop(); s.pos = 0; s.pc = []; s.pending = []
            try:
                r = s.call(fn, args)
                s.results.append((list(s.pc), r))
            except Raise as e:
                s.results.append((list(s.pc), e))
            todo.extend(s.pending)
        return s.results
    def branch(s, cond):
        cond = simplify(B(cond))
        if is_true(cond): return True
        if is_false(cond): return False
        if s.pos < len(s.dec): d = s.dec[s.pos]
        else:
            d = True; s.dec.append(True); s.pending.append(s.dec[:s.pos] + [False])
        s.pos += 1
        # prune infeasible
        s.pc.append(cond if d else Not(cond))
        return d
    def call(s, fn, args):
        env = dict(zip([a.arg for a in fn.args.args], args))
        try:
            s.block(fn.body, env)
        except ReturnEx as r: return r.v
        return None
    def block(s, stmts, env):
        for st in stmts: s.stmt(st, env)
    def stmt(s, st, env):
        if isinstance(st, ast.Return): raise ReturnEx(s.ev(st.value, env))
        if isinstance(st, ast.If):
            if s.branch(s.truth(s.ev(st.test, env))): s.block(st.body, env)
            else: s.block(st.orelse, env)
        elif isinstance(st, ast.Assign):
            v = s.ev(st.value, env)
            for t in st.targets: env[t.id] = v
        elif isinstance(st, ast.AnnAssign): env[st.target.id] = s.ev(st.value, env)
        elif isinstance(st, ast.Expr):
            if isinstance(st.value, ast.Constant): return  # docstring
            s.ev(st.value, env)
        elif isinstance(st, ast.ImportFrom): pass
        else: raise NotImplementedError(ast.dump(st)[:80])
    def truth(s, v):
        if isinstance(v, list): return len(v) > 0
        return v
    def ev(s, e, env):
        if isinstance(e, ast.Name):
            if e.id in env: return env[e.id]
            if e.id in ("RangeSpecifier","EmptySpecifier","UnionSpecifier","NotImplemented"): return e.id
            raise NameError(e.id)
        if isinstance(e, ast.Constant): return e.value
        if isinstance(e, ast.Attribute):
            o = s.ev(e.value, env); return getattr(o, e.attr)
        if isinstance(e, ast.BoolOp):
            vals = e.values
            # python short-circuit: evaluate lazily with forks only if operands non-bool; here all bools
            acc = None; pushed = []
            for v in vals:
                x = s.ev(v, env)
                x = B(s.truth(x)) if not isinstance(x, list) else BoolVal(len(x)>0)
                acc = x if acc is None else (And(acc, x) if isinstance(e.op, ast.And) else Or(acc, x))
                # short-circuit guard for the evaluation of the next operand
                pushed.append(len(s.pc)); s.pc.append(x if isinstance(e.op, ast.And) else Not(x))
            for ix in reversed(pushed): del s.pc[ix]
            return acc
        if isinstance(e, ast.UnaryOp) and isinstance(e.op, ast.Not): return Not(B(s.ev(e.operand, env)))
        if isinstance(e, ast.UnaryOp) and isinstance(e.op, ast.Invert): raise NotImplementedError
        if isinstance(e, ast.Compare):
            assert len(e.ops) == 1
            l, r, op = s.ev(e.left, env), s.ev(e.comparators[0], env), e.ops[0]
            if isinstance(op, (ast.Is, ast.IsNot)):
                assert r is None and isinstance(l, OptV)
                return Not(l.has) if isinstance(op, ast.Is) else l.has
            if isinstance(op, ast.In):
                return Or(*[B(x) == B(l) for x in r])
            if isinstance(l, OptV):
                # precondition: both not None on this path (checked as obligation)
                s.oblige(And(l.has, r.has), "comparison operand is None")
                return {ast.Lt: l.val < r.val, ast.Gt: l.val > r.val, ast.Eq: l.val == r.val}[type(op)]
            if isinstance(l, int) or is_int(l): return {ast.Eq: l == r}[type(op)]
            raise NotImplementedError(ast.dump(e))
        if isinstance(e, ast.Tuple): return tuple(s.ev(x, env) for x in e.elts)
        if isinstance(e, ast.List): return [s.ev(x, env) for x in e.elts]
        if isinstance(e, ast.Call): return s.evcall(e, env)
        if isinstance(e, ast.Subscript): return s.ev(e.value, env)[s.ev(e.slice, env)]
        raise NotImplementedError(ast.dump(e)[:100])
    def oblige(s, cond, msg):
        s.obls.append((list(s.pc), cond, msg))
    obls = []
    def evcall(s, e, env):
        f = e.func
        args = [s.ev(a, env) for a in e.args]; kw = {k.arg: s.ev(k.value, env) for k in e.keywords}
        if isinstance(f, ast.Name):
            if f.id == "isinstance": return isinstance(args[0], {"RangeSpecifier": Rng}[args[1]])
            if f.id == "len": return len(args[0])
            if f.id == "tuple": return tuple(args[0])
            if f.id == "EmptySpecifier": return Empty()
            if f.id == "UnionSpecifier": return Union(args[0])
            if f.id == "RangeSpecifier": return s.mkrange(**kw)
        if isinstance(f, ast.Call) and isinstance(f.func, ast.Name) and f.func.id == "type": return s.mkrange(**kw)
        if isinstance(f, ast.Attribute):
            recv = s.ev(f.value, env)
            if isinstance(recv, list) and f.attr == "append": recv.append(args[0]); return None
            if isinstance(recv, list) and f.attr == "count":
                return Sum(*[If(B(x) == B(args[0]), 1, 0) for x in recv])
            if isinstance(recv, Rng) and f.attr in METHODS:  # inline real method
                return s.call(METHODS[f.attr], [recv] + args)
        raise NotImplementedError(ast.dump(e)[:100])
    def mkrange(s, min=None, max=None, include_min=False, include_max=False):
        none = OptV(BoolVal(False), RealVal(0))
        mn = min if min is not None else none; mx = max if max is not None else none
        r = Rng(mn, mx, B(include_min), B(include_max))
        # __post_init__ of the real class, executed too
        s.call(METHODS["__post_init__"], [r]) if False else None
        s.oblige(And(Implies(Not(mn.has), Not(r.include_min)), Implies(Not(mx.has), Not(r.include_max))), "__post_init__ raises InvalidSpecifier")
        return r
class ReturnEx(Exception):
    def __init__(s, v): s.v = v

def sym_range(p):
    return Rng(OptV(Bool(p+"_hmin"), Real(p+"_min")), OptV(Bool(p+"_hmax"), Real(p+"_max")), Bool(p+"_imin"), Bool(p+"_imax"))
def inr(r, v):
    return And(Or(Not(r.min.has), r.min.val < v, And(r.min.val == v, r.include_min)), Or(Not(r.max.has), v < r.max.val, And(v == r.max.val, r.include_max)))
def valid(r):
    return And(Implies(Not(r.min.has), Not(r.include_min)), Implies(Not(r.max.has), Not(r.include_max)),
               Implies(And(r.min.has, r.max.has), Or(r.min.val < r.max.val, And(r.min.val == r.max.val, r.include_min, r.include_max))))
def sep(a, b): return And(a.max.has, b.min.has, Or(a.max.val < b.min.val, And(a.max.val == b.min.val, Not(a.include_max), Not(b.include_min))))
def den(x, v):
    if isinstance(x, Empty): return BoolVal(False)
    if isinstance(x, Rng): return inr(x, v)
    if isinstance(x, Union): return Or(*[inr(r, v) for r in x.ranges])
def wf(x):
    if isinstance(x, Empty): return BoolVal(True)
    if isinstance(x, Rng): return valid(x)
    if isinstance(x, Union):
        rs = x.ranges
        return And(len(rs) >= 2, *[valid(r) for r in rs], *[sep(a, b) for a, b in zip(rs, rs[1:])])
a, b = sym_range("a"), sym_range("b"); v = Real("v")
def check(name, spec):
    ex = Exec(); ex.obls = []
    t0 = time.time()
    res = ex.run(METHODS[name], [a, b] if name != "__invert__" else [a])
    n = ok = 0
    pre = [valid(a), valid(b)]
    for pc, r in res:
        goals = [("den", spec(r)), ("wf", wf(r))] if not isinstance(r, Exception) else [("noexc", BoolVal(False))]
        for g, f in goals:
            s = Solver(); s.add(*pre, *pc, Not(f)); n += 1
            rr = s.check()
            if rr == unsat: ok += 1
            else:
                m = s.model()
                def show(x):
                    if isinstance(x, Rng): return "Rng(%s)" % ", ".join(str(m.eval(t, model_completion=True)) for t in (x.min.has, x.min.val, x.include_min, x.max.has, x.max.val, x.include_max))
                    if isinstance(x, Union): return "Union[" + "; ".join(show(r) for r in x.ranges) + "]"
                    return type(x).__name__
                print("  FAIL", name, g, "a=", show(a), "b=", show(b), "->", show(r))
    for pc, c, msg in ex.obls:
        s = Solver(); s.add(*pre, *pc, Not(c)); n += 1
        if s.check() == unsat: ok += 1
        else: print("  FAIL", name, msg, s.model())
    print(f"{name:12} paths={len(res)} obligations={n} discharged={ok} {time.time()-t0:.2f}s")
check("__and__", lambda r: den(r, v) == And(inr(a, v), inr(b, v)))
check("__or__", lambda r: den(r, v) == Or(inr(a, v), inr(b, v)))
check("__invert__", lambda r: den(r, v) == Not(inr(a, v)))
