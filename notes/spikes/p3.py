import time
from z3 import *
M = DeclareSort('Marker'); ev = Function('ev', M, BoolSort())  # eval at the fixed ghost env
A = ArraySort(IntSort(), M)
N,Old = Consts('N Old', A); m,p,q,i0 = Ints('m p q i0'); i,j = Ints('i j'); x=Const('x',M)
def conj(a,lo,hi): return ForAll([i], Implies(And(lo<=i,i<hi), ev(a[i])))
def inv(N,m,p): return And(0<=m,0<=p,p<=q, And(conj(N,0,m), conj(Old,p,q)) == conj(Old,0,q))
def prove(name,hyps,goal,timeout=30000):
    s=Solver(); s.set(timeout=timeout); s.add(*hyps); s.add(Not(goal)); t=time.time(); r=s.check()
    print(f"{name:45} {'PROVED' if r==unsat else r} {time.time()-t:.2f}s"); return r
hy=[inv(N,m,p), p<q]
# replace N[i0] by x where ev(x) == ev(N[i0]) and ev(Old[p])
prove("replace preserves", hy+[0<=i0,i0<m, ev(x)==And(ev(N[i0]),ev(Old[p]))], inv(Store(N,i0,x),m,p+1))
# append
prove("append preserves", hy, inv(Store(N,m,Old[p]),m+1,p+1))
# skip duplicate: Old[p] == N[i0] (eq => same ev is implied by logical equality here; for __eq__ need contract)
eqm = Function('eqm', M, M, BoolSort())
prove("skip dup preserves", hy+[0<=i0,i0<m, eqm(Old[p],N[i0]), ForAll([x, Const('y',M)], Implies(eqm(x,Const('y',M)), ev(x)==ev(Const('y',M))))], inv(N,m,p+1))
# skip any
prove("skip any preserves", hy+[ev(Old[p])], inv(N,m,p+1))
# early return Empty when merged is empty: need conj(Old,0,q) == False
prove("return Empty sound", hy+[0<=i0,i0<m, Not(And(ev(N[i0]),ev(Old[p])))], Not(conj(Old,0,q)))
# mutant: replace without conj with Old[p]
prove("MUTANT replace drops marker", hy+[0<=i0,i0<m, ev(x)==ev(N[i0])], inv(Store(N,i0,x),m,p+1))
