import time, subprocess, tempfile, os
from z3 import *
a,b,s = Strings('a b s')
def mem(op, val, x):
    return {"==": x==val, "!=": x!=val, "in": Contains(val, x), "not in": Not(Contains(val, x)), "<": x<val, "<=": x<=val, ">": x>val, ">=": x>=val}[op]
EMPTY = lambda x: BoolVal(False); ANY = lambda x: BoolVal(True)
# (this_op, that_op, guard, result) transcribed ONLY for the spike; the real thing executes generic.py
AND = [("==","==", a!=b, EMPTY), ("==","!=", a==b, EMPTY), ("==","!=", a!=b, lambda x: mem("==",a,x)),
       ("in","not in", a==b, EMPTY), ("==","in", Contains(b,a), lambda x: mem("==",a,x)), ("==","in", Not(Contains(b,a)), EMPTY),
       ("!=","not in", Contains(b,a), lambda x: mem("not in",b,x))]
OR = [("==","!=", a==b, ANY), ("==","!=", a!=b, lambda x: mem("!=",b,x)), ("!=","!=", a!=b, ANY), ("in","not in", a==b, ANY),
      ("!=","in", Contains(b,a), ANY), ("!=","not in", Contains(b,a), lambda x: mem("!=",a,x)), ("!=","not in", Not(Contains(b,a)), ANY),
      ("==","in", Contains(b,a), lambda x: mem("in",b,x))]
def run(name, rows, comb):
    for (o1,o2,g,res) in rows:
        goal = res(s) == comb(mem(o1,a,s), mem(o2,b,s))
        sol = Solver(); sol.set(timeout=20000); sol.add(g, Not(goal)); t=time.time(); r = sol.check(); dt=time.time()-t
        # cvc5 cross-check
        smt = "(set-logic ALL)\n" + sol.to_smt2()
        f = tempfile.NamedTemporaryFile('w', suffix='.smt2', delete=False); f.write(smt); f.close()
        t=time.time(); c = subprocess.run(["cvc5","--strings-exp","--tlimit=20000",f.name],capture_output=True,text=True).stdout.strip(); dc=time.time()-t; os.unlink(f.name)
        print(f"{name} {o1:3} {o2:6} z3={r} {dt:.2f}s cvc5={c} {dc:.2f}s")
run("AND", AND, And); run("OR", OR, Or)
for o,inv in [("==","!="),("in","not in"),("<",">="),("<=",">")]:
    sol=Solver(); sol.set(timeout=20000); sol.add(Not(mem(inv,a,s)==Not(mem(o,a,s)))); print("INV",o,sol.check())
# a deliberately wrong row must be refuted with a model
sol=Solver(); sol.add(Contains(b,a), Not(mem("==",a,s) == Or(mem("==",a,s), mem("in",b,s)))); print("MUTANT", sol.check(), sol.model() if sol.check()==sat else "")
